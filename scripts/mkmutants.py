#!/usr/bin/env python3
"""Generates the witness variants of /repo used to test the checkers both ways.

Each variant is a (file, old, new) replacement.  The script applies it in a scratch git
worktree of /repo HEAD (outside /repo and /verif, removed afterwards), stores the unified
diff under /verif/witness/patches/<id>.diff, checks that the variant still builds, runs the
repository's own test suite on it and records the outcome (suite: pass|fail) in
/verif/witness/mutants.json.  Variants are *analysed* (never executed) by
`geoverif check --tier thorough` through a go/packages overlay.

kind=breaking : the named property checks must report it (expect_rule = rule prefix)
kind=benign   : behaviour-preserving refactor; the named checks must stay silent
"""
import json, os, subprocess, sys, shutil

HOME = os.path.dirname(os.path.dirname(os.path.abspath(__file__)))
WT = "/tmp/geoverif-mutwork"
ENV = dict(os.environ, GOFLAGS="-mod=mod", GOPROXY="off", GOSUMDB="off", GOTOOLCHAIN="local")
ENV.pop("GOWORK", None)

M = []
def mut(id, props, file, old, new, rule="", kind="breaking", note="", sentinel=False, miss=None):
    M.append(dict(id=id, props=props, file=file, old=old, new=new, expect_rule=rule, kind=kind, note=note, sentinel=sentinel, miss=miss or []))

# ---------------- E1 dispatch / forwarding ----------------
mut("e1-within-routes-to-intersects", ["C09", "C03"], "linestring.go",
    "func (g *LineString) WithinPoly(poly *geometry.Poly) bool {\n\treturn poly.ContainsLine(&g.base)",
    "func (g *LineString) WithinPoly(poly *geometry.Poly) bool {\n\treturn poly.IntersectsLine(&g.base)",
    "E1", note="LineString.WithinPoly answers with the intersects kernel", sentinel=True)
mut("e1-feature-contains-swapped", ["C09", "C05"], "feature.go",
    "func (g *Feature) Contains(obj Object) bool {\n\treturn g.base.Contains(obj)",
    "func (g *Feature) Contains(obj Object) bool {\n\treturn obj.Within(g)",
    "E", note="Feature.Contains calls obj.Within(g): operands merely swapped (and an unbounded recursion)")
mut("e1-rect-intersectsline-roles", ["C09", "C02"], "geometry/line.go",
    "\treturn rect.IntersectsLine(line)\n}",
    "\treturn ringIntersectsLine(rect, line, false)\n}",
    "E", note="Line.IntersectsRect no longer shares the kernel term of Rect.IntersectsLine (exclusive boundary)")
mut("e1-simplepoint-within-rect-base", ["C09", "C01"], "simplepoint.go",
    "func (g *SimplePoint) WithinRect(rect geometry.Rect) bool {\n\treturn rect.ContainsPoint(g.Point)",
    "func (g *SimplePoint) WithinRect(rect geometry.Rect) bool {\n\treturn rect.IntersectsRect(g.Point.Rect())",
    "E1", kind="breaking", note="same behaviour today but no longer the Point kernel: reported as not forwarding (accepted: forwarding is the rule)")
mut("e1-rect-pointat-corner", ["C09"], "geometry/rect.go",
    "\tcase 3:\n\t\treturn Point{rect.Min.X, rect.Max.Y}\n\tcase 4:",
    "\tcase 3:\n\t\treturn Point{rect.Max.X, rect.Max.Y}\n\tcase 4:",
    "E1.A7", note="Rect.PointAt(3) repeats corner 2")
mut("e1-benign-rename", ["C09", "C01", "C02", "C03"], "polygon.go",
    "func (g *Polygon) WithinLine(line *geometry.Line) bool {\n\treturn line.ContainsPoly(&g.base)",
    "func (g *Polygon) WithinLine(l *geometry.Line) bool {\n\treturn l.ContainsPoly(&g.base)",
    kind="benign", note="parameter renamed")
mut("e1-benign-nil-guard", ["C09", "C01"], "point.go",
    "func (g *Point) WithinPoly(poly *geometry.Poly) bool {\n\treturn poly.ContainsPoint(g.base)",
    "func (g *Point) WithinPoly(poly *geometry.Poly) bool {\n\tif poly == nil {\n\t\treturn false\n\t}\n\treturn poly.ContainsPoint(g.base)",
    kind="benign", note="explicit nil guard added in front of the forwarding return")

# ---------------- E2 siblings / mirrors / boundary ----------------
mut("e2-raycast-one-sided", ["C19", "C01"], "geometry/raycast.go",
    "\t\t\t\tif p.X >= b.X && p.X <= a.X {\n\t\t\t\t\treturn RaycastResult{false, true}",
    "\t\t\t\tif p.X > b.X && p.X <= a.X {\n\t\t\t\t\treturn RaycastResult{false, true}",
    "E", note="horizontal on-segment test exclusive at one end in the mirrored branch only", sentinel=True)
mut("e2-intersects-bbox-one-sided", ["C19", "C02"], "geometry/segment.go",
    "\t\t\tif a.X > c.X || b.X < d.X {",
    "\t\t\tif a.X >= c.X || b.X < d.X {",
    "E", note="one of the eight unrolled bounding-box comparisons made strict")
mut("e2-hole-boundary-flipped", ["C01"], "geometry/poly.go",
    "\t\tif ringContainsPoint(hole, point, false).hit {",
    "\t\tif ringContainsPoint(hole, point, true).hit {",
    "E2.B1", note="hole boundary no longer belongs to the polygon")
mut("e2-exterior-exclusive-intersects", ["C02"], "geometry/poly.go",
    "\tif !ringIntersectsRing(other.Exterior, poly.Exterior, true) {",
    "\tif !ringIntersectsRing(other.Exterior, poly.Exterior, false) {",
    "E2.B1", note="touching polygons no longer intersect")
mut("e2-parity-no-toggle", ["C01"], "geometry/ring.go",
    "\tif res.In {\n\t\t*in = !*in\n\t}",
    "\tif res.In {\n\t\t*in = true\n\t}",
    "E2.B1p", note="crossings set instead of toggling the parity")
mut("e2-circle-intersects-strict", ["C13"], "circle.go",
    "\t\treturn other.Distance(g) <= (other.meters + g.meters)",
    "\t\treturn other.Distance(g) < (other.meters + g.meters)",
    "E2.M2", note="tangent circles no longer intersect")
mut("e2-containspoint-strict", ["C13"], "circle.go",
    "\treturn h <= g.haversine",
    "\treturn h < g.haversine",
    "E2.M2", note="points at exactly the radius excluded")
mut("e2-benign-cmp-flip", ["C19", "C01", "C02"], "geometry/raycast.go",
    "\tif a.Y < b.Y && (p.Y < a.Y || p.Y > b.Y) {",
    "\tif b.Y > a.Y && (a.Y > p.Y || p.Y > b.Y) {",
    kind="benign", note="comparisons written the other way round")

# ---------------- E3 effects / ownership ----------------
mut("e3-lazy-index", ["C16"], "geometry/series.go",
    "\tswitch v := series.index.(type) {\n\tdefault:",
    "\tif series.index == nil && len(series.points) >= 4096 {\n\t\tseries.indexKind = QuadTree\n\t\tseries.buildIndex()\n\t}\n\tswitch v := series.index.(type) {\n\tdefault:",
    "E3", note="index built lazily inside Search (write to shared object from a query)", sentinel=True)
mut("e3-global-counter", ["C16"], "object.go",
    "func unionRects(a, b geometry.Rect) geometry.Rect {\n",
    "var unionCalls int\n\nfunc unionRects(a, b geometry.Rect) geometry.Rect {\n\tunionCalls++\n",
    "E3", note="statistics counter written from constructors and parsers")
mut("e3-goroutine", ["C16"], "collection.go",
    "func (g *collection) NumPoints() int {\n\tvar n int\n\tfor _, child := range g.children {\n\t\tn += child.NumPoints()\n\t}\n\treturn n",
    "func (g *collection) NumPoints() int {\n\tvar n int\n\tdone := make(chan int)\n\tgo func() {\n\t\tt := 0\n\t\tfor _, child := range g.children {\n\t\t\tt += child.NumPoints()\n\t\t}\n\t\tdone <- t\n\t}()\n\tn = <-done\n\treturn n",
    "E3", note="goroutine and channel in a query method")
mut("e3-index-branch-in-predicate", ["C04", "C01", "C16"], "geometry/line.go",
    "\tcontains := false\n\tline.Search(Rect{point, point}, func(seg Segment, index int) bool {",
    "\tcontains := false\n\tif line.Index() == nil && line.NumPoints() > 1000 {\n\t\treturn false\n\t}\n\tline.Search(Rect{point, point}, func(seg Segment, index int) bool {",
    "E3.own", note="a predicate asks whether the series is indexed")
mut("e3-benign-local-buffer", ["C16"], "object.go",
    "\tif math.IsNaN(f) || math.IsInf(f, 0) {\n\t\treturn append(dst, \"null\"...)\n\t}",
    "\tif math.IsNaN(f) || math.IsInf(f, 0) {\n\t\tnull := []byte(\"null\")\n\t\treturn append(dst, null...)\n\t}",
    kind="benign", note="a fresh local buffer is used")

# ---------------- E4 termination / totality ----------------
mut("e4-loop-rewind", ["C05"], "geometry/ring.go",
    "\t\tfor i := 0; i < otherNumPoints; i++ {\n\t\t\tif !ringContainsPoint(ring, other.PointAt(i), allowOnEdge).hit {",
    "\t\tfor i := 0; i < otherNumPoints; i++ {\n\t\t\tif i > 0 && other.PointAt(i) == other.PointAt(i-1) {\n\t\t\t\ti--\n\t\t\t}\n\t\t\tif !ringContainsPoint(ring, other.PointAt(i), allowOnEdge).hit {",
    "E4.T1", note="loop counter rewound on duplicate vertices", sentinel=True)
mut("e4-exterior-unguarded", ["C05"], "geometry/poly.go",
    "func (poly *Poly) Clockwise() bool {\n\tif poly == nil || poly.Exterior == nil {\n\t\treturn false\n\t}",
    "func (poly *Poly) Clockwise() bool {\n\tif poly == nil {\n\t\treturn false\n\t}",
    "E4.T3", note="nil exterior dereferenced")
mut("e4-parse-nil-nil", ["C05", "C07"], "geometrycollection.go",
    "\tif !keys.rGeometries.IsArray() {\n\t\treturn nil, errGeometriesInvalid\n\t}",
    "\tif !keys.rGeometries.IsArray() {\n\t\treturn nil, nil\n\t}",
    "E4.T5", note="Parse returns neither object nor error")
mut("e4-benign-loop-form", ["C05"], "geometry/series.go",
    "\tfor i := 0; i < len(points); i++ {\n\t\tpoints[i] = series.PointAt(i)\n\t}",
    "\tfor i := len(points) - 1; i >= 0; i-- {\n\t\tpoints[i] = series.PointAt(i)\n\t}",
    kind="benign", note="descending loop")

# ---------------- E5 append typestate ----------------
mut("e5-stale-buffer", ["C17"], "point.go",
    "\tdst = g.extra.appendJSONExtra(dst, false)\n\tdst = append(dst, '}')\n\treturn dst\n}\n\nfunc (g *Point) JSON()",
    "\tdst2 := g.extra.appendJSONExtra(dst, false)\n\tdst = append(dst, '}')\n\t_ = dst2\n\treturn dst\n}\n\nfunc (g *Point) JSON()",
    "E5.append", note="members written into a buffer that is then abandoned")
mut("e5-reslice-prefix", ["C17"], "circle.go",
    "\tdst = append(dst, `{\"type\":\"Feature\",\"geometry\":`...)\n\tdst = append(dst, `{\"type\":\"Point\",\"coordinates\":[`...)",
    "\tdst = append(dst[:0], `{\"type\":\"Feature\",\"geometry\":`...)\n\tdst = append(dst, `{\"type\":\"Point\",\"coordinates\":[`...)",
    "E5.append", note="Circle.AppendJSON truncates the caller's prefix", sentinel=True)
mut("e5-pidx-restart", ["C17", "C06"], "polygon.go",
    "\t\t\tdst, pidx = appendJSONSeries(dst, hole, g.extra, pidx)",
    "\t\t\tdst, _ = appendJSONSeries(dst, hole, g.extra, 0)",
    "E5.pidx", note="z/m offsets of holes restart at 0")
mut("e5-float-g-format", ["C17", "C06"], "object.go",
    "\treturn strconv.AppendFloat(dst, f, 'f', -1, 64)",
    "\treturn strconv.AppendFloat(dst, f, 'f', 15, 64)",
    "E5.float", note="fixed 15 decimals: ordinates no longer round-trip bit for bit")
mut("e5-nan-guard-dropped", ["C17"], "object.go",
    "\tif math.IsNaN(f) || math.IsInf(f, 0) {",
    "\tif math.IsInf(f, 0) {",
    "E8", note="NaN written as a bare token")
mut("e5-view-differs", ["C17"], "feature.go",
    "func (g *Feature) String() string {\n\treturn string(g.AppendJSON(nil))",
    "func (g *Feature) String() string {\n\treturn string(g.base.AppendJSON(nil))",
    "E5.views", note="String() of a Feature prints only the geometry")
mut("e5-benign-prealloc", ["C17"], "rect.go",
    "func (g *Rect) JSON() string {\n\treturn string(g.AppendJSON(nil))",
    "func (g *Rect) JSON() string {\n\tb := g.AppendJSON(nil)\n\treturn string(b)",
    kind="benign", note="view through a local")

# ---------------- E8 comparison networks ----------------
mut("e8-containsrect-strict", ["C03", "C09", "C11"], "geometry/rect.go",
    "\tif other.Min.X < rect.Min.X || other.Max.X > rect.Max.X {",
    "\tif other.Min.X <= rect.Min.X || other.Max.X > rect.Max.X {",
    "E", note="a rectangle sharing its left edge is no longer contained", sentinel=True)
mut("e8-intersectsrect-axis", ["C02", "C04", "C11"], "geometry/rect.go",
    "\tif rect.Min.X > other.Max.X || rect.Max.X < other.Min.X {",
    "\tif rect.Min.X > other.Max.X || rect.Max.X < other.Min.Y {",
    "E8", note="X extent compared with the other rectangle's Y")
mut("e8-valid-latitude", ["C11"], "geometry/point.go",
    "\treturn point.X >= -180 && point.X <= 180 && point.Y >= -90 && point.Y <= 90",
    "\treturn point.X >= -180 && point.X <= 180 && point.Y >= -90 && point.Y < 90",
    "E8", note="the north pole is invalid")
mut("e8-union-min", ["C11", "C10"], "object.go",
    "\tif b.Min.Y < a.Min.Y {\n\t\ta.Min.Y = b.Min.Y\n\t}",
    "\tif b.Min.Y < a.Min.Y {\n\t\ta.Min.Y = b.Max.Y\n\t}",
    "E8", note="union takes the wrong corner")
mut("e8-processpoints-elseif", ["C11"], "geometry/series.go",
    "\t\t\tif points[i].Y < rect.Min.Y {\n\t\t\t\trect.Min.Y = points[i].Y\n\t\t\t} else if points[i].Y > rect.Max.Y {\n\t\t\t\trect.Max.Y = points[i].Y\n\t\t\t}",
    "\t\t\tif points[i].Y < rect.Min.Y {\n\t\t\t\trect.Min.Y = points[i].Y\n\t\t\t} else if points[i].Y > rect.Max.X {\n\t\t\t\trect.Max.Y = points[i].Y\n\t\t\t}",
    "E", note="Y compared against the X maximum")
mut("e8-choosequad-boundary", ["C04"], "geometry/qtree.go",
    "\tif rect.Max.X < mid.X {\n\t\tif rect.Max.Y < mid.Y {\n\t\t\treturn 2\n\t\t}",
    "\tif rect.Max.X <= mid.X {\n\t\tif rect.Max.Y < mid.Y {\n\t\t\treturn 2\n\t\t}",
    "E8", kind="benign", note="a rectangle touching the midline is stored in the left quad: still inside quadBounds (benign for the containment lemma)")
mut("e8-quadbounds-swapped", ["C04"], "geometry/qtree.go",
    "\tcase 3:\n\t\tqbounds.Min.X = (bounds.Min.X + bounds.Max.X) / 2\n\t\tqbounds.Min.Y = bounds.Min.Y",
    "\tcase 3:\n\t\tqbounds.Min.X = bounds.Min.X\n\t\tqbounds.Min.Y = bounds.Min.Y",
    "E8", kind="benign", note="quad 3 bounds enlarged to the whole lower half: containment still holds (superset), benign for the lemma")
mut("e8-choosequad-wrong-quad", ["C04"], "geometry/qtree.go",
    "\tif rect.Max.Y < mid.Y {\n\t\treturn 3\n\t}\n\tif rect.Min.Y < mid.Y {\n\t\treturn -1\n\t}\n\treturn 1",
    "\tif rect.Max.Y < mid.Y {\n\t\treturn 1\n\t}\n\tif rect.Min.Y < mid.Y {\n\t\treturn -1\n\t}\n\treturn 3",
    "E8", note="right-hand quadrants swapped: items stored under a quad whose bounds do not contain them")
mut("e8-numsegments-closed", ["C18"], "geometry/series.go",
    "\t\tif series.points[len(series.points)-1] == series.points[0] {\n\t\t\treturn len(series.points) - 1\n\t\t}\n\t\treturn len(series.points)",
    "\t\tif series.points[len(series.points)-1] == series.points[0] {\n\t\t\treturn len(series.points) - 1\n\t\t}\n\t\treturn len(series.points) - 1",
    "E8", note="implicit closing segment dropped")
mut("e8-empty-threshold", ["C11", "C18"], "geometry/series.go",
    "\treturn (series.closed && len(series.points) < 3) || len(series.points) < 2",
    "\treturn (series.closed && len(series.points) < 4) || len(series.points) < 2",
    "E8", note="triangles without closing vertex are empty")
mut("e8-benign-demorgan", ["C01", "C03", "C11"], "geometry/rect.go",
    "\treturn point.X >= rect.Min.X && point.X <= rect.Max.X &&\n\t\tpoint.Y >= rect.Min.Y && point.Y <= rect.Max.Y",
    "\treturn !(point.X < rect.Min.X || point.X > rect.Max.X ||\n\t\tpoint.Y < rect.Min.Y || rect.Max.Y < point.Y)",
    kind="benign", note="De Morgan form of the closed-box test")

# ---------------- E9 index protocol ----------------
mut("e9-early-stop-lost", ["C04"], "geometry/qtree.go",
    "\t\t\tif !iter(seg, int(item)) {\n\t\t\t\treturn false\n\t\t\t}\n\t\t}\n\t}\n\tsplit := data[addr] == 1",
    "\t\t\tif !iter(seg, int(item)) {\n\t\t\t\tbreak\n\t\t\t}\n\t\t}\n\t}\n\tsplit := data[addr] == 1",
    "E9.I4a", note="a false from the iterator only leaves the item loop; child quads are still searched", sentinel=True)
mut("e9-wrong-index", ["C04"], "geometry/rtree.go",
    "\t\t\t\tif !iter(seg, int(item)) {\n\t\t\t\t\treturn false\n\t\t\t\t}\n\t\t\t}\n\t\t}\n\t\treturn true",
    "\t\t\t\tif !iter(seg, i) {\n\t\t\t\t\treturn false\n\t\t\t\t}\n\t\t\t}\n\t\t}\n\t\treturn true",
    "E9.I4b", note="the R-tree reports the slot number instead of the segment index")
mut("e9-no-prefilter", ["C04"], "geometry/series.go",
    "\t\t\tif seg.Rect().IntersectsRect(rect) {\n\t\t\t\tif !iter(seg, i) {\n\t\t\t\t\treturn\n\t\t\t\t}\n\t\t\t}",
    "\t\t\tif seg.Rect().IntersectsRect(series.rect) {\n\t\t\t\tif !iter(seg, i) {\n\t\t\t\t\treturn\n\t\t\t\t}\n\t\t\t}",
    "E9.I4c", note="brute-force search filters with the series' own box")
mut("e9-width-threshold", ["C04"], "geometry/qtree.go",
    "\tif n <= 0xFFFF {\n\t\treturn 2\n\t}",
    "\tif n <= 0x1FFFF {\n\t\treturn 2\n\t}",
    "E8", note="items 65536..131071 stored in two bytes")
mut("e9-cursor-short", ["C04"], "geometry/qtree.go",
    "\t\t\tnaddr := int(binary.LittleEndian.Uint32(data[addr:]))\n\t\t\taddr += 4\n\t\t\tqbounds := quadBounds(bounds, q)",
    "\t\t\tnaddr := int(binary.LittleEndian.Uint32(data[addr:]))\n\t\t\taddr += 2\n\t\t\tqbounds := quadBounds(bounds, q)",
    "E9.I2", note="cursor advanced by 2 after a 4-byte address")
mut("e9-readnum-width", ["C04"], "geometry/qtree.go",
    "\tcase 2:\n\t\treturn uint32(binary.LittleEndian.Uint16(data))\n\tdefault:",
    "\tcase 2:\n\t\treturn uint32(data[0])\n\tdefault:",
    "E9.I3", note="reader takes one byte of a two-byte item")
mut("e9-buildindex-offbyone", ["C04"], "geometry/series.go",
    "\t\t\ttr.Insert(\n\t\t\t\t[]float64{rect.Min.X, rect.Min.Y},\n\t\t\t\t[]float64{rect.Max.X, rect.Max.Y}, i)",
    "\t\t\ttr.Insert(\n\t\t\t\t[]float64{rect.Min.X, rect.Min.Y},\n\t\t\t\t[]float64{rect.Max.X, rect.Max.Y}, i+1)",
    "E9.I5", note="R-tree stores i+1 for segment i")
mut("e9-benign-iter-var", ["C04"], "geometry/series.go",
    "\t\t\tif seg.Rect().IntersectsRect(rect) {\n\t\t\t\tif !iter(seg, i) {\n\t\t\t\t\treturn\n\t\t\t\t}\n\t\t\t}",
    "\t\t\tif !seg.Rect().IntersectsRect(rect) {\n\t\t\t\tcontinue\n\t\t\t}\n\t\t\tif !iter(seg, i) {\n\t\t\t\treturn\n\t\t\t}",
    kind="benign", note="filter written as an early continue")

EXTRA = os.path.join(HOME, "scripts", "mutants_extra.py")
if os.path.exists(EXTRA):
    exec(open(EXTRA).read())


def run(cmd, cwd, timeout=600):
    return subprocess.run(cmd, cwd=cwd, env=ENV, shell=True, capture_output=True, text=True, timeout=timeout)


def main():
    only = set(sys.argv[1:])
    subprocess.run(f"git -C /repo worktree remove --force {WT}", shell=True, capture_output=True)
    r = subprocess.run(f"git -C /repo worktree add -q --detach {WT} HEAD", shell=True, capture_output=True, text=True)
    if r.returncode != 0:
        print(r.stderr); sys.exit(2)
    outp = os.path.join(HOME, "witness", "mutants.json")
    prev = {}
    if os.path.exists(outp):
        prev = {m["id"]: m for m in json.load(open(outp))}
    os.makedirs(os.path.join(HOME, "witness", "patches"), exist_ok=True)
    out = []
    try:
        for m in M:
            if only and m["id"] not in only and m["id"] in prev:
                out.append(prev[m["id"]]); continue
            path = os.path.join(WT, m["file"])
            src = open(path).read()
            if src.count(m["old"]) != 1:
                print(f"!! {m['id']}: pattern occurs {src.count(m['old'])} times in {m['file']}")
                continue
            open(path, "w").write(src.replace(m["old"], m["new"], 1))
            run("gofmt -l . >/dev/null", WT)
            diff = run("git diff", WT).stdout
            pf = os.path.join("witness", "patches", m["id"] + ".diff")
            open(os.path.join(HOME, pf), "w").write(diff)
            b = run("go build ./... && go vet ./... >/dev/null 2>&1; go build ./...", WT)
            suite = "n/a"
            if b.returncode != 0:
                print(f"!! {m['id']}: does not build: {b.stderr[:300]}")
                run("git checkout -- .", WT)
                os.remove(os.path.join(HOME, pf))
                continue
            t = run("go test -vet=off -count=1 ./...", WT)
            suite = "pass" if t.returncode == 0 else "fail"
            run("git checkout -- .", WT)
            e = dict(id=m["id"], kind=m["kind"], props=m["props"], patch=pf, expect_rule=m["expect_rule"], note=m["note"], suite=suite)
            if m["sentinel"]:
                e["sentinel"] = True
            if m["miss"]:
                e["known_miss"] = m["miss"]
            out.append(e)
            print(f"{m['id']:40s} {m['kind']:8s} suite={suite}")
    finally:
        subprocess.run(f"git -C /repo worktree remove --force {WT}", shell=True, capture_output=True)
    json.dump(out, open(outp, "w"), indent=1)
    print(len(out), "variants written")

if __name__ == "__main__":
    main()
