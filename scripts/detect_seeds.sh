#!/bin/bash
# For every kept seeded change, analyse it under every property check and record which checks report it.
cd /verif
mkdir -p /root/scratch/detect
ls seeded | xargs -P 6 -I{} sh -c './bin/geoverif try seeded/{}/patch.diff > /root/scratch/detect/{}.txt 2>&1'
python3 - <<'PY'
import json,os,re
for s in sorted(os.listdir('/verif/seeded')):
    out=open('/root/scratch/detect/%s.txt'%s).read()
    props=sorted(set(re.findall(r'^(C\d+) (?:VIOLATED|UNDECIDED)', out, re.M)))
    rules={}
    for m in re.finditer(r'^(C\d+) (VIOLATED|UNDECIDED) (\S+) :: (.*)$', out, re.M):
        rules.setdefault(m.group(1), []).append(m.group(3)+' :: '+m.group(4))
    p='/verif/seeded/%s/meta.json'%s
    meta=json.load(open(p))
    meta['detected_by']=props
    meta['detecting_rules']={k:v[:3] for k,v in rules.items()}
    json.dump(meta,open(p,'w'),indent=1)
    print(s, meta['property'], '->', props or 'MISSED')
PY
