#!/usr/bin/env python3
"""Regenerates the 'which checks catch which changes' section of DESIGN.md from
seeded/*/meta.json, witness/mutants.json, witness/reverts/meta.json and the witness results
recorded in evidence/*.json by the last thorough run."""
import json, os, re, glob
H = os.path.dirname(os.path.dirname(os.path.abspath(__file__)))
res = {}   # witness id -> {prop: line}
for f in sorted(glob.glob(H + '/evidence/C*.json')):
    e = json.load(open(f))
    pid = e['property_id']
    for line in e.get('coverage', {}).get('witness_results', []) or []:
        wid, _, rest = line.partition(': ')
        res.setdefault(wid, {})[pid] = rest
def short(s, n=150):
    s = re.sub(r'\s+', ' ', s or '').strip()
    return s if len(s) <= n else s[:n-1] + '…'
out = []
out.append('### 9.1 Independent seeded changes (sub-agents; each confirmed: builds, existing suite passes, demonstration fails with the change and passes without)\n')
out.append('| change | aimed at | what it does | reported by (property: rule :: construct) |')
out.append('|---|---|---|---|')
caught = missed = 0
for d in sorted(os.listdir(H + '/seeded')):
    m = json.load(open(f'{H}/seeded/{d}/meta.json'))
    det = m.get('detected_by') or []
    rules = m.get('detecting_rules') or {}
    own = m['property']
    if det:
        caught += 1
        order = ([own] if own in det else []) + [p for p in det if p != own]
        cells = []
        for p in order[:3]:
            r = (rules.get(p) or ['?'])[0]
            cells.append(f'{p}: {short(r, 90)}')
        if len(order) > 3:
            cells.append('also ' + ', '.join(order[3:]))
        rep = '<br>'.join(cells)
        if own not in det:
            rep = '(not by ' + own + ') ' + rep
    else:
        missed += 1
        rep = '**missed** (documented; see 9.3)'
    out.append(f'| seeded/{d} | {own} | {short(m.get("breaks"), 170)} | {rep} |')
out.append(f'\n{caught} of {caught+missed} seeded changes are reported; {missed} are documented misses.\n')
out.append('### 9.2 Hand-written variants and reverse patches of the fixes (thorough tier replays them on every run)\n')
out.append('| variant | kind | existing suite | properties | result |')
out.append('|---|---|---|---|---|')
muts = json.load(open(H + '/witness/mutants.json'))
for m in muts:
    r = res.get(m['id'], {})
    cell = '<br>'.join(f'{p}: {short(v, 110)}' for p, v in sorted(r.items())) or '(not replayed: no longer applies)'
    out.append(f'| {m["id"]} | {m["kind"]} | {m.get("suite","?")} | {", ".join(m["props"])} | {cell} |')
rv = json.load(open(H + '/witness/reverts/meta.json'))
for k in sorted(rv):
    r = res.get('revert/' + k, {})
    cell = '<br>'.join(f'{p}: {short(v, 110)}' for p, v in sorted(r.items())) or '?'
    out.append(f'| revert/{k} | breaking | (the defect itself) | {", ".join(rv[k]["props"])} | {cell} |')
nb = len(glob.glob(H + '/witness/benign/*.diff'))
silent = sum(1 for w, r in res.items() if w.startswith('benign/') and all('silent' in v for v in r.values()))
out.append(f'\nBehaviour-preserving refactorings written by sub-agents: {nb} (`witness/benign/*.diff`, each with its argument in the `.txt` beside it); {silent} replayed under their own property in the last thorough run, all silent.\n')
text = '\n'.join(out)
# rules per property, as run (from the evidence of the last thorough run)
rt = ['| property | level | obligations (thorough) | rules run (rule: obligations) |', '|---|---|---|---|']
for f in sorted(glob.glob(H + '/evidence/C*.json')):
    e = json.load(open(f))
    cov = e.get('coverage', {})
    by = cov.get('obligations_by_rule', {}) or {}
    cells = ', '.join(f'{k}: {v}' for k, v in sorted(by.items()) if not k.startswith('witness'))
    wit = sum(v for k, v in by.items() if k.startswith('witness'))
    rt.append(f'| {e["property_id"]} | {e.get("level")} | {cov.get("obligations")} (of which {wit} witness replays) | {cells} |')
rules_text = '\n'.join(rt)
p = H + '/DESIGN.md'
s = open(p).read()
b, e = '<!-- CATCH-TABLE:BEGIN -->', '<!-- CATCH-TABLE:END -->'
if b in s:
    s = s[:s.index(b) + len(b)] + '\n' + text + '\n' + s[s.index(e):]
    rb, re_ = '<!-- RULES-TABLE:BEGIN -->', '<!-- RULES-TABLE:END -->'
    if rb in s:
        s = s[:s.index(rb) + len(rb)] + '\n' + rules_text + '\n' + s[s.index(re_):]
    open(p, 'w').write(s)
    print('DESIGN.md updated:', caught, 'caught', missed, 'missed', len(muts), 'variants')
else:
    print(text[:2000])
