#!/bin/bash
# process_seed.sh <Cxx> <tag>: confirm the change left by a sub-agent in /tmp/wt-<Cxx>-<tag>, keep it as
# seeded/<Cxx>-<tag>, remove the agent's worktree, then analyse the change under every property check.
P=$1; T=$2; ID=$P-$T; WT=/tmp/wt-$P-$T
cd /verif
if [ -d $WT ]; then
  ./scripts/confirm_seed.sh $WT $ID $P > /root/scratch/confirm-$ID.log 2>&1
  rc=$?
  tail -2 /root/scratch/confirm-$ID.log
  if [ $rc -eq 0 ]; then git -C /repo worktree remove --force $WT; rm -f /tmp/wt-$P-$T.diff; else echo "KEEPING $WT for inspection"; exit 1; fi
fi
mkdir -p /root/scratch/detect
./bin/geoverif try seeded/$ID/patch.diff > /root/scratch/detect/$ID.txt 2>&1
grep "VIOLATED\|UNDECIDED" /root/scratch/detect/$ID.txt | cut -c1-180 | head -6
grep -q "VIOLATED\|UNDECIDED" /root/scratch/detect/$ID.txt || echo "$ID MISSED"
