# Additional witness variants (exec'd by mkmutants.py; uses its mut() helper).

# ---------------- E6 writer/reader tables ----------------
mut("e6-type-string", ["C17", "C06"], "multilinestring.go",
    "`{\"type\":\"MultiLineString\",\"coordinates\":[`",
    "`{\"type\":\"MultiLinestring\",\"coordinates\":[`",
    "E6.type", note="type string misspelt by the writer: Parse(JSON(x)) fails")
mut("e6-member-key", ["C17", "C06"], "geometrycollection.go",
    "`{\"type\":\"GeometryCollection\",\"geometries\":[`",
    "`{\"type\":\"GeometryCollection\",\"geometry\":[`",
    "E6.key", note="payload member renamed by the writer only")
mut("e6-circle-units", ["C13", "C06"], "circle.go",
    "`,\"radius_units\":\"m\"}}`",
    "`,\"radius_units\":\"meters\"}}`",
    "E6.circle", note="the writer's unit is one the reader rejects")
mut("e6-circle-km-default", ["C13", "C06"], "feature.go",
    "\t\t\t\tcase \"\", \"m\":\n\t\t\t\tcase \"km\":\n\t\t\t\t\tradius *= 1000",
    "\t\t\t\tcase \"\":\n\t\t\t\tcase \"km\", \"m\":\n\t\t\t\t\tradius *= 1000",
    "E6.circle", note="metres read back as kilometres")
mut("e6-feature-no-properties", ["C17", "C06"], "feature.go",
    "\tdst = g.extra.appendJSONExtra(dst, true)",
    "\tdst = g.extra.appendJSONExtra(dst, false)",
    "E6.props", note="Feature without properties member")

# ---------------- E5.json grammar ----------------
mut("e5j-comma-second", ["C17", "C06"], "featurecollection.go",
    "\t\tif i > 0 {\n\t\t\tdst = append(dst, ',')\n\t\t}\n\t\tdst = g.children[i].AppendJSON(dst)",
    "\t\tif i > 1 {\n\t\t\tdst = append(dst, ',')\n\t\t}\n\t\tdst = g.children[i].AppendJSON(dst)",
    "E5.json", note="no comma between the first two features", sentinel=True)
mut("e5j-missing-bracket", ["C17", "C06"], "polygon.go",
    "\tdst = append(dst, ']')\n\tif g.extra != nil {\n\t\tdst = g.extra.appendJSONExtra(dst, false)\n\t}\n\tdst = append(dst, '}')\n\treturn dst\n}\n\nfunc (g *Polygon) JSON()",
    "\tif !g.base.Empty() {\n\t\tdst = append(dst, ']')\n\t}\n\tif g.extra != nil {\n\t\tdst = g.extra.appendJSONExtra(dst, false)\n\t}\n\tdst = append(dst, '}')\n\treturn dst\n}\n\nfunc (g *Polygon) JSON()",
    "E5.json", note="closing bracket omitted for the empty polygon")
mut("e5j-skip-empty-child", ["C17"], "multilinestring.go",
    "\tfor i, g := range g.children {\n\t\tif i > 0 {\n\t\t\tdst = append(dst, ',')\n\t\t}",
    "\tfor i, g := range g.children {\n\t\tif g.Empty() {\n\t\t\tcontinue\n\t\t}\n\t\tif i > 0 {\n\t\t\tdst = append(dst, ',')\n\t\t}",
    "E5.json", note="empty children skipped but the comma follows the range index")
mut("e5j-benign-first-flag", ["C17", "C06"], "geometrycollection.go",
    "\tfor i := 0; i < len(g.children); i++ {\n\t\tif i > 0 {\n\t\t\tdst = append(dst, ',')\n\t\t}",
    "\tfor i := 0; i < len(g.children); i++ {\n\t\tif i != 0 {\n\t\t\tdst = append(dst, ',')\n\t\t}",
    kind="benign", note="comma test written as i != 0")

# ---------------- E7 parser ----------------
mut("e7-ring-min-3", ["C07"], "polygon.go",
    "\t\tif len(p) < 4 || p[0] != p[len(p)-1] {\n\t\t\treturn nil, errCoordinatesInvalid // must be a linear ring",
    "\t\tif len(p) < 3 || p[0] != p[len(p)-1] {\n\t\t\treturn nil, errCoordinatesInvalid // must be a linear ring",
    "E7.V1", note="three-position rings accepted", sentinel=True)
mut("e7-ring-closure-dropped", ["C07"], "multipolygon.go",
    "\t\t\tif len(p) < 4 || p[0] != p[len(p)-1] {",
    "\t\t\tif len(p) < 4 {",
    "E7.V1", note="MultiPolygon accepts unclosed rings (its sibling does not)")
mut("e7-line-min-1", ["C07"], "multilinestring.go",
    "\t\tif len(coords) < 2 {",
    "\t\tif len(coords) < 1 {",
    "E7.V1", note="one-position lines accepted inside MultiLineString")
mut("e7-first-duplicate", ["C07"], "object.go",
    "\t\tcase \"coordinates\":\n\t\t\tkeys.rCoordinates = val",
    "\t\tcase \"coordinates\":\n\t\t\tif !keys.rCoordinates.Exists() {\n\t\t\t\tkeys.rCoordinates = val\n\t\t\t}",
    "E7.V2", note="first duplicate of coordinates wins while the last type wins")
mut("e7-nil-opts-child", ["C08"], "featurecollection.go",
    "\t\tf, err = Parse(value.Raw, opts)",
    "\t\tf, err = Parse(value.Raw, nil)",
    "E7.V3", note="features parsed with default options", sentinel=True)
mut("e7-requirevalid-dropped", ["C08"], "linestring.go",
    "\tif opts.RequireValid {\n\t\tif !g.Valid() {\n\t\t\treturn nil, errDataInvalid\n\t\t}\n\t}\n\treturn &g, nil",
    "\treturn &g, nil",
    "E7.V4", note="LineString no longer honours RequireValid")
mut("e7-simplepoint-with-extra", ["C08"], "point.go",
    "\tif extra == nil && opts.AllowSimplePoints {",
    "\tif opts.AllowSimplePoints {",
    "E7.V6", note="SimplePoint chosen although z values / members exist (they are dropped)")
mut("e7-rect-corners", ["C08"], "polygon.go",
    "\t\t\tMin: exterior[0],\n\t\t\tMax: exterior[2],",
    "\t\t\tMin: exterior[0],\n\t\t\tMax: exterior[1],",
    "E7.V6", note="Rect spanned by the wrong corners")
mut("e7-null-in-linestring", ["C07"], "linestring.go",
    "\t\t\tif value.Type != gjson.Number {\n\t\t\t\terr = errCoordinatesInvalid\n\t\t\t\treturn false\n\t\t\t}",
    "\t\t\tif value.Type != gjson.Number && value.Type != gjson.Null {\n\t\t\t\terr = errCoordinatesInvalid\n\t\t\t\treturn false\n\t\t\t}",
    "E8", note="null ordinates accepted in line strings")
mut("e7-benign-guard-form", ["C07"], "linestring.go",
    "\tif len(points) < 2 {\n\t\t// Must have at least two points",
    "\tif len(points) <= 1 {\n\t\t// Must have at least two points",
    kind="benign", note="minimum written as <= 1")

# ---------------- E10 collections ----------------
mut("e10-fold-index-first", ["C10", "C11"], "collection.go",
    "\tfor _, child := range g.children {\n\t\tif child.Empty() {\n\t\t\tcontinue\n\t\t}\n\t\tif g.pempty && !child.Empty() {",
    "\tfor i, child := range g.children {\n\t\t_ = i\n\t\tif child.Empty() {\n\t\t\tcontinue\n\t\t}\n\t\tif g.pempty && !child.Empty() {",
    kind="benign", note="unused loop index introduced")
mut("e10-search-no-empty-skip", ["C10"], "collection.go",
    "\t\tfor _, child := range g.children {\n\t\t\tif child.Empty() {\n\t\t\t\tcontinue\n\t\t\t}\n\t\t\tif child.Rect().IntersectsRect(rect) {",
    "\t\tfor _, child := range g.children {\n\t\t\tif child.Rect().IntersectsRect(rect) {",
    "E", note="linear Search reports empty children, indexed Search does not", sentinel=True)
mut("e10-tree-inserts-empties", ["C10"], "collection.go",
    "\t\tfor _, child := range g.children {\n\t\t\tif child.Empty() {\n\t\t\t\tcontinue\n\t\t\t}\n\t\t\trect := child.Rect()",
    "\t\tfor _, child := range g.children {\n\t\t\trect := child.Rect()",
    "E", note="child index also holds empty children")
mut("e10-numpoints-skips", ["C10"], "collection.go",
    "\tfor _, child := range g.children {\n\t\tn += child.NumPoints()\n\t}",
    "\tfor _, child := range g.children {\n\t\tif child.Empty() {\n\t\t\tcontinue\n\t\t}\n\t\tn += child.NumPoints()\n\t}",
    "E10.sum", note="points of empty children not counted")
mut("e10-valid-last-wins", ["C11", "C10"], "multipolygon.go",
    "\t\tif !p.Valid() {\n\t\t\tvalid = false\n\t\t}",
    "\t\tvalid = p.Valid()",
    "E10.forall", note="validity of the last child only")
mut("e10-pempty-never-cleared", ["C10", "C11"], "collection.go",
    "\t\tif g.pempty && !child.Empty() {\n\t\t\tg.pempty = false\n\t\t}",
    "\t\tif g.pempty && child.Empty() {\n\t\t\tg.pempty = false\n\t\t}",
    "E8", note="collection stays empty")

# ---------------- E9.move / E11 / E12 ----------------
mut("e9m-swap-deltas-holes", ["C12", "C04"], "geometry/poly.go",
    "\t\t\t\tnpoly.Holes[i] = Ring(series.Move(deltaX, deltaY))",
    "\t\t\t\tnpoly.Holes[i] = Ring(series.Move(deltaY, deltaX))",
    "E9.move", note="holes moved by (deltaY, deltaX)", sentinel=True)
mut("e9m-move-y-by-x", ["C12", "C04"], "geometry/series.go",
    "\t\tpoints[i].Y = series.points[i].Y + deltaY",
    "\t\tpoints[i].Y = series.points[i].Y + deltaX",
    "E9.move", note="Y translated by deltaX")
mut("e9m-move-not-closed", ["C12", "C04"], "geometry/series.go",
    "\tnseries := makeSeries(points, false, series.closed, nil)",
    "\tnseries := makeSeries(points, false, false, nil)",
    "E9.move", note="a moved ring becomes an open series")
mut("e9m-rect-move", ["C12"], "geometry/rect.go",
    "\t\tMax: Point{X: rect.Max.X + deltaX, Y: rect.Max.Y + deltaY},",
    "\t\tMax: Point{X: rect.Max.X + deltaX, Y: rect.Min.Y + deltaY},",
    "E9.move", note="Rect.Move builds Max.Y from Min.Y")
mut("e11-north-pole-clamp", ["C14"], "geo/geo.go",
    "\tif maxLat > math.Pi/2 {\n\t\tminLon = -math.Pi\n\t\tmaxLat = math.Pi / 2\n\t\tmaxLon = math.Pi\n\t}",
    "\tif maxLat > math.Pi/2 {\n\t\tminLon = -math.Pi\n\t\tmaxLon = math.Pi\n\t}",
    "E14", note="north-pole latitude clamp removed", sentinel=True)
mut("e11-pole-no-widen", ["C14"], "geo/geo.go",
    "\tif minLat < -math.Pi/2 {\n\t\tminLat = -math.Pi / 2\n\t\tminLon = -math.Pi\n\t\tmaxLon = math.Pi\n\t}",
    "\tif minLat < -math.Pi/2 {\n\t\tminLat = -math.Pi / 2\n\t}",
    "E14", note="south-pole branch no longer widens the longitudes")
mut("e11-wrap-one-sided", ["C14"], "geo/geo.go",
    "\tif minLon < -math.Pi || maxLon > math.Pi {",
    "\tif minLon < -math.Pi {",
    "E14", note="east wrap-around not clamped")
mut("e12-containssegment-or", ["C19"], "geometry/segment.go",
    "\treturn seg.Raycast(other.A).On && seg.Raycast(other.B).On",
    "\treturn seg.Raycast(other.A).On || seg.Raycast(other.B).On",
    "E12.seg", note="one endpoint on the segment suffices")
mut("e12-rect-containsline-empty", ["C03"], "geometry/rect.go",
    "\treturn !line.Empty() && rect.ContainsRect(line.Rect())",
    "\treturn rect.ContainsRect(line.Rect())",
    "E", note="an empty line (zero box) is contained by a rectangle around the origin")
mut("e12-center-not-midpoint", ["C11"], "geometry/rect.go",
    "\treturn Point{(rect.Max.X + rect.Min.X) / 2, (rect.Max.Y + rect.Min.Y) / 2}",
    "\treturn Point{(rect.Max.X + rect.Min.X) / 2, (rect.Max.Y - rect.Min.Y) / 2}",
    "E12.fwd", note="centre latitude is half the height")
mut("e12-convex-ungated", [], "geometry/ring.go",
    "\tif ring.Convex() {\n\t\t// ring is convex so the segment must be contained\n\t\treturn true\n\t}",
    "\tif ring.Convex() || ring.NumPoints() < 6 {\n\t\t// ring is convex so the segment must be contained\n\t\treturn true\n\t}",
    "E12.convex", miss=["C03"], note="semantically breaking (small concave rings take the convex shortcut) but the gate is still syntactically a Convex() test: documents the limit of the rule")
mut("e12-attr-rewritten", ["C18", "C12"], "geometry/series.go",
    "func (series *baseSeries) Convex() bool {\n\treturn series.convex",
    "func (series *baseSeries) Convex() bool {\n\tif len(series.points) < 4 {\n\t\tseries.convex = true\n\t}\n\treturn series.convex",
    "E12.attr", note="convex flag rewritten by a query")

# ---------------- E14 units / axes / ranges / algebra of the spherical primitives ----------------
mut("e14-bearing-no-360", ["C15"], "geo/geo.go",
    "\treturn math.Mod(θ*degrees+360, 360)",
    "\treturn math.Mod(θ*degrees, 360)",
    "E14.range", note="bearings in (-180,0) are returned negative", sentinel=True)
mut("e14-dest-one-pi", ["C15", "C14"], "geo/geo.go",
    "\tλ2 = math.Mod(λ2+3*math.Pi, 2*math.Pi) - math.Pi",
    "\tλ2 = math.Mod(λ2+math.Pi, 2*math.Pi) - math.Pi",
    "E14.range", note="longitude below -180 when the destination crosses the antimeridian westwards")
mut("e14-hav-cos-typo", ["C15"], "geo/geo.go",
    "\treturn sΔφ2*sΔφ2 + math.Cos(φ1)*math.Cos(φ2)*sΔλ2*sΔλ2",
    "\treturn sΔφ2*sΔφ2 + math.Cos(φ1)*math.Cos(φ1)*sΔλ2*sΔλ2",
    "E14.algebra", note="haversine no longer symmetric")
mut("e14-hav-lon-nohalf", ["C15"], "geo/geo.go",
    "\tsΔλ2 := math.Sin(Δλ / 2)",
    "\tsΔλ2 := math.Sin(Δλ)",
    "E14.algebra", note="longitude term uses the full angle")
mut("e14-tohav-factor", ["C15", "C13"], "geo/geo.go",
    "\tsin := math.Sin(0.5 * meters / earthRadius)",
    "\tsin := math.Sin(meters / earthRadius)",
    "E14.algebra", note="metres->haversine no longer inverse of haversine->metres")
mut("e14-fromhav-factor", ["C15"], "geo/geo.go",
    "\treturn earthRadius * 2 * math.Asin(math.Sqrt(haversine))",
    "\treturn earthRadius * math.Asin(math.Sqrt(haversine))",
    "E14.algebra", note="haversine->metres halved")
mut("e14-dest-bearing-degrees", ["C15", "C14"], "geo/geo.go",
    "\tθ := bearingDegrees * radians",
    "\tθ := bearingDegrees",
    "E14.units", note="trigonometry applied to degrees")
mut("e14-dest-swap-results", ["C15", "C14"], "geo/geo.go",
    "\treturn φ2 * degrees, λ2 * degrees",
    "\treturn λ2 * degrees, φ2 * degrees",
    "E14.units", note="latitude and longitude results swapped")
mut("e14-normalize-half", ["C15"], "geo/geo.go",
    "\treturn math.Mod(meters, twoPiR)",
    "\treturn math.Mod(meters, piR)",
    "E14.algebra", note="normalisation modulus is not a period of the haversine")
mut("e14-semi-scale", ["C15"], "geo/geo.go",
    "\treturn float64(semi) * (180.0 / math.Pow(2, 31))",
    "\treturn float64(semi) * (180.0 / math.Pow(2, 32))",
    "E14.algebra", note="semicircle decode scale is not the reciprocal of the encode scale")
mut("e14-rect-radius-degrees", ["C15", "C14"], "geo/geo.go",
    "\tr := meters / earthRadius\n",
    "\tr := meters / earthRadius * degrees\n",
    "E14.units", note="angular radius in degrees subtracted from radians")
mut("e14-circle-swapped-centre", ["C13", "C15"], "circle.go",
    "\th := geo.Haversine(p.Y, p.X, g.center.Y, g.center.X)",
    "\th := geo.Haversine(p.Y, p.X, g.center.X, g.center.Y)",
    "E14.axis", note="centre passed as (lon, lat)")
mut("e14-makecircle-lat-as-lon", ["C13", "C15"], "circle.go",
    "\t_, maxX := geo.DestinationPoint(center.Y, center.X, meters, 90)",
    "\tmaxX, _ := geo.DestinationPoint(center.Y, center.X, meters, 90)",
    "E14.axis", note="the latitude result is used as a longitude bound")
mut("e14-benign-inline-radians", ["C15", "C14"], "geo/geo.go",
    "\tδ := meters / earthRadius // angular distance in radians\n\tθ := bearingDegrees * radians\n\tφ1 := lat * radians\n\tλ1 := lon * radians",
    "\tδ := meters / earthRadius // angular distance in radians\n\tconst toRad = math.Pi / 180\n\tθ := bearingDegrees * toRad\n\tφ1 := lat * math.Pi / 180\n\tλ1 := toRad * lon",
    kind="benign", note="conversion factor spelled three ways")
mut("e14-benign-fromhav-order", ["C15"], "geo/geo.go",
    "\treturn earthRadius * 2 * math.Asin(math.Sqrt(haversine))",
    "\troot := math.Sqrt(haversine)\n\treturn 2 * math.Asin(root) * earthRadius",
    kind="benign", note="same formula, different association")
mut("e14-benign-hav-helper", ["C15"], "geo/geo.go",
    "\tsΔφ2 := math.Sin(Δφ / 2)\n\tsΔλ2 := math.Sin(Δλ / 2)\n\treturn sΔφ2*sΔφ2 + math.Cos(φ1)*math.Cos(φ2)*sΔλ2*sΔλ2\n}",
    "\treturn hav(Δφ) + math.Cos(φ2)*hav(Δλ)*math.Cos(φ1)\n}\n\nfunc hav(x float64) float64 {\n\ts := math.Sin(0.5 * x)\n\treturn s * s\n}",
    kind="benign", note="haversine through a helper")
mut("e14-benign-bearing-locals", ["C15"], "geo/geo.go",
    "\treturn math.Mod(θ*degrees+360, 360)",
    "\tdeg := θ * degrees\n\tconst full = 360.0\n\treturn math.Mod(deg+full, full)",
    kind="benign", note="bearing normalisation with named locals")

# ---------------- rules added after the second round of seeded changes ----------------
mut("e12-convex-gate-or", ["C03"], "geometry/ring.go",
    "\tif ring.Convex() {\n\t\t// outer ring is convex so test that all inner points are inside of\n\t\t// the outer ring",
    "\tif ring.Convex() || other.Convex() {\n\t\t// outer ring is convex so test that all inner points are inside of\n\t\t// the outer ring",
    "E12.convex", note="vertices-only containment also when only the inner ring is convex")
mut("e12-convex-segment-or", ["C03"], "geometry/ring.go",
    "\tif ring.Convex() {\n\t\t// ring is convex so the segment must be contained\n\t\treturn true\n\t}",
    "\tif ring.Convex() || seg.A.X == seg.B.X {\n\t\t// ring is convex so the segment must be contained\n\t\treturn true\n\t}",
    "E12.convex", note="segment shortcut taken for concave rings too")
mut("e9-build-skip-degenerate", ["C04", "C08"], "geometry/series.go",
    "\t\t\tseg := series.SegmentAt(i)\n\t\t\troot.insert(series, series.rect, seg.Rect(), i, 0)",
    "\t\t\tseg := series.SegmentAt(i)\n\t\t\tif seg.A == seg.B {\n\t\t\t\tcontinue\n\t\t\t}\n\t\t\troot.insert(series, series.rect, seg.Rect(), i, 0)",
    "E9.I5", note="zero-length segments are left out of the quadtree only")
mut("e9-tiling-gap", ["C04"], "geometry/rtree.go",
    "\tnrect.Min.Y = math.Float64frombits(binary.LittleEndian.Uint64(data[addr:]))\n\taddr += 8",
    "\tnrect.Min.Y = math.Float64frombits(binary.LittleEndian.Uint64(data[addr:]))\n\taddr += 4",
    "E9.I2", note="overlapping reads of the node rectangle")
mut("e10-within-shortcut", ["C10", "C09"], "collection.go",
    "func (g *collection) WithinRect(rect geometry.Rect) bool {\n\tif g.Empty() {\n\t\treturn false\n\t}",
    "func (g *collection) WithinRect(rect geometry.Rect) bool {\n\tif g.Empty() {\n\t\treturn false\n\t}\n\tif rect.ContainsRect(g.prect) {\n\t\treturn true\n\t}",
    "E8", note="bounding-rectangle acceptance ignores empty children")
mut("e10-exists-stop-on-miss", ["C10", "C09"], "collection.go",
    "\t\tif child.Spatial().IntersectsPoint(point) {\n\t\t\tintersects = true\n\t\t\treturn false\n\t\t}\n\t\treturn true",
    "\t\tif child.Spatial().IntersectsPoint(point) {\n\t\t\tintersects = true\n\t\t}\n\t\treturn false",
    "E8", note="the search stops at the first candidate whether or not it intersects")
mut("e12-nudge-down", ["C01", "C19"], "geometry/raycast.go",
    "\t\tp.Y = math.Nextafter(p.Y, math.Inf(1))",
    "\t\tp.Y = math.Nextafter(p.Y, math.Inf(-1))",
    "E12.nudge", note="level endpoints counted as above instead of below")
mut("e12-nudge-once", ["C01", "C19"], "geometry/raycast.go",
    "\tfor p.Y == a.Y || p.Y == b.Y {\n\t\tp.Y = math.Nextafter(p.Y, math.Inf(1))\n\t}",
    "\tif p.Y == a.Y || p.Y == b.Y {\n\t\tp.Y = math.Nextafter(p.Y, math.Inf(1))\n\t}",
    "E12.nudge", note="single nudge step")
mut("e12-circle-threshold", ["C13"], "circle.go",
    "\t\tg.haversine = geo.DistanceToHaversine(meters)",
    "\t\tg.haversine = geo.DistanceToHaversine(meters) * 1.0000001",
    "E12.circle", note="threshold slightly inflated")
mut("e6-props-extra-condition", ["C06", "C17"], "object.go",
    "\t\t\tif !gjson.Get(ex.members, \"properties\").Exists() {",
    "\t\t\tif !gjson.Get(ex.members, \"properties\").Exists() && len(dst) < 1<<20 {",
    "E6.props", note="the properties default depends on the destination buffer")
mut("e6-circle-only-with-option", ["C08", "C13"], "feature.go",
    "\tcase *SimplePoint:\n\t\tcenter, isPoint = point.Point, true\n\t}",
    "\tcase *SimplePoint:\n\t\tcenter, isPoint = point.Point, opts.AllowSimplePoints\n\t}",
    "E6.circle", note="recognition of the circle convention depends on a representation option")
mut("e12-scan-break", ["C02"], "geometry/line.go",
    "\t\tif intersects {\n\t\t\treturn true\n\t\t}\n\t}\n\treturn false\n}\n\nfunc (line *Line) ContainsPoly",
    "\t\tif intersects {\n\t\t\treturn true\n\t\t}\n\t\tif i > 4096 {\n\t\t\tbreak\n\t\t}\n\t}\n\treturn false\n}\n\nfunc (line *Line) ContainsPoly",
    "E12.scan", note="the scan gives up after 4096 segments")
mut("e14-makecircle-box-centre", ["C13"], "circle.go",
    "\t\tx := center.X + lons*math.Cos(radians)",
    "\t\tx := (minX+maxX)/2 + lons*math.Cos(radians)",
    "E14.circle", note="ellipse centred on the middle of the cardinal points instead of the centre")

# ---------------- rules added after the third round of seeded changes ----------------
mut("e9-layout-extra-byte", ["C04"], "geometry/qtree.go",
    "\tdst = append(dst, 1)\n\t// first make the address space",
    "\tdst = append(dst, 1, 0)\n\t// first make the address space",
    "E9.I1", note="the writer emits a byte the reader does not expect", sentinel=False)
mut("e9-width-count-uncovered", ["C04"], "geometry/qtree.go",
    "\tibytes := numBytes(uint32(len(n.items)))\n",
    "\tvar ibytes byte = 1\n",
    "E9.I3w", note="the item count does not take part in choosing the shared width")
mut("e12-holes-early-accept", ["C01"], "geometry/poly.go",
    "\tcontains := true\n\tfor _, hole := range poly.Holes {\n\t\tif ringContainsPoint(hole, point, false).hit {",
    "\tcontains := true\n\tif len(poly.Holes) > 8 {\n\t\treturn true\n\t}\n\tfor _, hole := range poly.Holes {\n\t\tif ringContainsPoint(hole, point, false).hit {",
    "E12.holes", note="polygons with many holes are answered from the exterior alone")
mut("e12-cyclic-seam", ["C12", "C18"], "geometry/series.go",
    "\t\t\tb = points[0]\n\t\t\tc = points[1]",
    "\t\t\tb = points[0]\n\t\t\tc = points[0]",
    "E12.cyclic", note="the last triple repeats the first point")
