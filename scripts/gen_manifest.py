#!/usr/bin/env python3
"""Generates /verif/MANIFEST.json from the table below (kept in one place so that the
manifest, the tool's property registry and DESIGN.md stay in step)."""
import json, subprocess, os
HOME = os.path.dirname(os.path.dirname(os.path.abspath(__file__)))
ENV = "GOFLAGS=-mod=mod GOPROXY=off GOSUMDB=off GOTOOLCHAIN=local GOWORK=off"
setup = f"cd /verif/tool && env {ENV} go build -o /verif/bin/geoverif ."

claimed = json.load(open(os.path.join(HOME, "scripts", "claims.json")))
props = [json.loads(l) for l in open(os.path.join(HOME, "properties.jsonl"))]
checks, na = [], []
for p in props:
    pid = p["id"]
    c = claimed.get(pid)
    if not c or c.get("not_applicable"):
        na.append({"property_id": pid, "reason": (c or {}).get("not_applicable", "no static check built yet for this property")})
        continue
    checks.append({
        "property_id": pid,
        "quick_cmd": f"./bin/geoverif check {pid} --tier quick",
        "thorough_cmd": f"./bin/geoverif check {pid} --tier thorough",
        "evidence_file": f"/verif/evidence/{pid}.json",
        "replay_cmd_template": "./bin/geoverif explain {path}",
        "engine": "geoverif",
        "level_claimed": {"category": c["level"], "text": c["text"], "design_ref": c.get("design_ref", "DESIGN.md §4 " + pid)},
        "level_note": c["note"],
        "technique": c["technique"],
    })
m = {
    "version": 1,
    "setup_cmd": setup,
    "hooks": {"guard": "verif", "enable": "none needed: the checks analyse source and instrument nothing (no file in /repo carries the tag)",
              "baseline_off_cmd": "cd /repo && go test -vet=off -count=1 ./...", "source_commits": [], "add_only": True},
    "engines": [{"name": "geoverif", "path": "/verif/tool", "serves_properties": [c["property_id"] for c in checks],
                 "kind_free_text": "repository-specific static analyser (go/packages + go/types + go/ssa + call graph + syntax-tree rules), x/tools v0.29.0"}],
    "checks": checks,
    "not_applicable": na,
    "notes": "Static analysis only: no check executes the library. Genuine defects found on the pinned tree were repaired by fix: commits in /repo and are listed in known_findings.json (fixed entries suppress nothing).",
}
json.dump(m, open(os.path.join(HOME, "MANIFEST.json"), "w"), indent=1)
print("checks:", [c["property_id"] for c in checks], "n/a:", [n["property_id"] for n in na])
