#!/bin/bash
# confirm_seed.sh <agent-worktree> <seed-id> <property>
# Confirms a seeded change independently in a fresh scratch worktree of /repo HEAD:
#   demo passes on the unchanged tree, existing suite passes with the change, demo fails with the change.
# On success stores /verif/seeded/<seed-id>/{patch.diff,demo files,meta.json}.
set -u
export GOFLAGS=-mod=mod GOPROXY=off GOSUMDB=off GOTOOLCHAIN=local; unset GOWORK
SRC=$1; ID=$2; PROP=$3
W=/tmp/confirm-$ID
git -C /repo worktree remove --force $W 2>/dev/null
git -C /repo worktree add -q --detach $W HEAD || exit 2
cleanup() { git -C /repo worktree remove --force $W 2>/dev/null; }
PATCH=$SRC/_out/patch.diff
[ -f "$PATCH" ] || { echo "no patch"; cleanup; exit 2; }
# demo files = untracked *_test.go / *.go files in the agent's worktree (outside _out)
DEMOS=$(git -C $SRC status --short | awk '$1=="??"{print $2}' | grep -v '^_' | grep -v PROPERTY.json | grep '_test\.go$' | grep -v explore)
[ -n "$DEMOS" ] || { echo "no demo test files found"; cleanup; exit 2; }
for f in $DEMOS; do mkdir -p $W/$(dirname $f); cp $SRC/$f $W/$f; done
PKGS=$(for f in $DEMOS; do echo ./$(dirname $f); done | sort -u | tr '\n' ' ')
cd $W
echo "== demo on unchanged tree ($PKGS)"
go test ${DEMO_FLAGS:-} -vet=off -count=1 $PKGS > /tmp/confirm-$ID.base.log 2>&1; BASE=$?
tail -3 /tmp/confirm-$ID.base.log
git apply $PATCH || { echo "patch does not apply"; cleanup; exit 2; }
echo "== existing suite with the change (demo moved aside)"
for f in $DEMOS; do mv $W/$f $W/$f.aside; done
go build ./... > /tmp/confirm-$ID.build.log 2>&1; BUILD=$?
go test -vet=off -count=1 ./... > /tmp/confirm-$ID.suite.log 2>&1; SUITE=$?
tail -4 /tmp/confirm-$ID.suite.log
for f in $DEMOS; do mv $W/$f.aside $W/$f; done
echo "== demo with the change"
timeout 300 go test ${DEMO_FLAGS:-} -vet=off -count=1 $PKGS > /tmp/confirm-$ID.mut.log 2>&1; MUT=$?
tail -5 /tmp/confirm-$ID.mut.log
echo "base=$BASE build=$BUILD suite=$SUITE mutated_demo=$MUT"
if [ $BASE -eq 0 ] && [ $BUILD -eq 0 ] && [ $SUITE -eq 0 ] && [ $MUT -ne 0 ]; then
  D=/verif/seeded/$ID; mkdir -p $D/demo
  cp $PATCH $D/patch.diff
  for f in $DEMOS; do mkdir -p $D/demo/$(dirname $f); cp $SRC/$f $D/demo/$f; done
  python3 - "$SRC/_out/meta.json" "$D/meta.json" "$PROP" "$ID" "$DEMOS" "$PKGS" <<'PY'
import json,sys
src,dst,prop,id_,demos,pkgs=sys.argv[1:7]
try: m=json.load(open(src))
except Exception as e: m={"summary":"(agent meta unreadable: %s)"%e}
out={"id":id_,"property":prop,"breaks":m.get("summary"),"needs_to_manifest":m.get("needs_to_manifest"),
 "files_changed":m.get("files_changed"),"demo_files":demos.split(),
 "confirmed":{"how":"scripts/confirm_seed.sh in a fresh scratch worktree of /repo HEAD (removed afterwards)",
  "ran":["go test -vet=off -count=1 %s  (demo on unchanged tree: PASS)"%pkgs.strip(),
         "git apply patch.diff; go build ./...  (OK)",
         "go test -vet=off -count=1 ./...  (existing suite with the change, demo aside: PASS)",
         "go test -vet=off -count=1 %s  (demo with the change: FAIL)"%pkgs.strip()]},
 "base_commit":None,"detected_by":None}
json.dump(out,open(dst,'w'),indent=1)
PY
  git -C /repo rev-parse HEAD | python3 -c "
import json,sys; h=sys.stdin.read().strip(); p='$D/meta.json'; m=json.load(open(p)); m['base_commit']=h; json.dump(m,open(p,'w'),indent=1)"
  echo "CONFIRMED -> $D"
  RC=0
else
  echo "NOT CONFIRMED"; RC=1
fi
cd /; cleanup; rm -rf /tmp/confirm-$ID.*.log
exit $RC
