package main

import (
	"fmt"
	"go/types"
	"os"
	"sort"
	"strings"

	"golang.org/x/tools/go/ssa"
)

type rootFn struct {
	name string
	fn   *ssa.Function
	obj  *types.Func
}

// apiRoots lists every exported function and every method (declared or
// promoted) in the method sets of the exported named types of the three
// repository packages.
func (p *Program) apiRoots() []rootFn {
	var out []rootFn
	seen := map[*ssa.Function]bool{}
	for _, pkg := range p.Repo {
		sc := pkg.Types.Scope()
		for _, name := range sc.Names() {
			o := sc.Lookup(name)
			if !o.Exported() {
				continue
			}
			switch x := o.(type) {
			case *types.Func:
				if fn := p.SSA.FuncValue(x); fn != nil && !seen[fn] {
					seen[fn] = true
					out = append(out, rootFn{FuncName(x), fn, x})
				}
			case *types.TypeName:
				if x.IsAlias() {
					continue
				}
				nt, ok := x.Type().(*types.Named)
				if !ok {
					continue
				}
				if _, isIface := nt.Underlying().(*types.Interface); isIface {
					continue
				}
				for _, T := range []types.Type{nt, types.NewPointer(nt)} {
					ms := p.SSA.MethodSets.MethodSet(T)
					for i := 0; i < ms.Len(); i++ {
						sel := ms.At(i)
						m := sel.Obj().(*types.Func)
						if !m.Exported() {
							continue
						}
						fn := p.SSA.MethodValue(sel)
						if fn == nil || seen[fn] {
							continue
						}
						seen[fn] = true
						out = append(out, rootFn{"(" + typeStr(T) + ")." + m.Name(), fn, m})
					}
				}
			}
		}
	}
	sort.Slice(out, func(i, j int) bool { return out[i].name < out[j].name })
	return out
}

// dstParam returns the index (receiver first) of the caller-supplied
// destination buffer of an Append* function, or -1.
func dstParam(fn *ssa.Function) int {
	if !strings.HasPrefix(fn.Name(), "Append") {
		return -1
	}
	for i, prm := range fn.Params {
		if i == 0 && fn.Signature.Recv() != nil {
			continue
		}
		if sl, ok := prm.Type().Underlying().(*types.Slice); ok {
			if b, ok := sl.Elem().Underlying().(*types.Basic); ok && b.Kind() == types.Byte {
				return i
			}
		}
		break
	}
	return -1
}

// ruleEffects: one obligation per API root.
func (p *Program) ruleEffects(c *Check, deep bool, useCHA bool) *effAnalysis {
	cg := p.VTA()
	tag := "E3"
	if useCHA {
		cg = p.CHA()
		tag = "E3/cha"
	}
	ea := p.newEffAnalysis(cg, deep)
	rounds := ea.run()
	if d := os.Getenv("GEOVERIF_E3_DUMP"); d != "" {
		for _, n := range strings.Split(d, ",") {
			ea.dumpSummary(n)
		}
	}
	c.Count("effect_summaries", len(ea.sums))
	c.Count("effect_fixpoint_rounds", rounds)
	roots := p.apiRoots()
	c.Count("api_roots", len(roots))
	for _, r := range roots {
		sum := ea.sums[r.fn]
		if sum == nil {
			c.Undecided(tag+".root", r.name, "", "no summary (function has no body)")
			continue
		}
		dst := dstParam(r.fn)
		var bad []string
		var path []string
		for pp, w := range sum.writes {
			if pp.param == dst && pp.keys == "" {
				continue
			}
			what := fmt.Sprintf("writes memory reachable from parameter %d", pp.param)
			if pp.param == 0 && r.fn.Signature.Recv() != nil {
				what = "writes memory reachable from its receiver"
			}
			if pp.keys != "" {
				what += " (via " + strings.ReplaceAll(pp.keys, "\x00", "→") + ")"
			}
			bad = append(bad, what)
			if path == nil {
				path = ea.explain(r.fn, w, 0)
			}
		}
		var flags []string
		for f := range sum.flags {
			flags = append(flags, f)
		}
		sort.Strings(flags)
		for _, f := range flags {
			bad = append(bad, f)
			if path == nil {
				path = ea.explain(r.fn, sum.flags[f], 0)
			}
		}
		sort.Strings(bad)
		pos := ""
		if r.obj != nil {
			pos = p.declPos(r.obj)
		}
		if len(bad) == 0 {
			d := "transitive effects: writes only to memory allocated during the call"
			if dst >= 0 {
				d += " and to the caller-supplied dst buffer"
			}
			c.OK(tag+".root", r.name, pos, d)
		} else {
			o := c.Bad(tag+".root", r.name, pos, "an API entry point "+strings.Join(bad, "; ")+": objects are not immutable / calls are not independent of each other")
			o.Path = path
		}
	}
	c.Floor(tag+".root", len(roots), 300, "exported functions and methods")
	return ea
}

func (ea *effAnalysis) dumpSummary(name string) {
	for fn, s := range ea.sums {
		if SSAName(fn) != name {
			continue
		}
		fmt.Println("== summary", name)
		for pp, w := range s.writes {
			fmt.Printf("  writes param%d keys=%q : %s @%s via=%v\n", pp.param, pp.keys, w.what, ea.p.Pos(w.pos), w.via)
		}
		for f, w := range s.flags {
			fmt.Printf("  flag %s : %s @%s via=%v eff=%s\n", f, w.what, ea.p.Pos(w.pos), w.via, w.viaEff)
		}
		for pp, m := range s.contentAdd {
			for k, srcs := range m {
				fmt.Printf("  contentAdd param%d keys=%q k=%q <- %v\n", pp.param, pp.keys, k, srcs)
			}
		}
		fmt.Printf("  ret %v freshHolds %v\n", s.ret, s.freshHolds)
	}
}
