package main

import (
	"fmt"
	"go/ast"
	"go/token"
	"go/types"
	"sort"
	"strings"

	"golang.org/x/tools/go/types/typeutil"
)

// E9.I1 (record layout agreement).  The writer of a compressed index node
// (qNode.compress, rRect.compress + rTree.compress) and its reader
// (qCompressSearch, rCompressSearch + rnCompressSearch) must agree on the
// record grammar.  Each side is abstracted to a regular expression over two
// kinds of tokens — `b` (one byte of a fixed-width field) and `s` (one field
// whose width is the record's own item width) — from its syntax: appends and
// reads in order, loops as Kleene stars, if/else as alternatives, return as
// the end of the record, recursion into child records as nothing.  Fixed
// fields are counted in bytes, so four 8-byte appends agree with one 32-byte
// read.  Readers may stop early (a rectangle that misses the query), so the
// comparison is between the *prefix closures* of the two languages, decided
// on the determinised automata.

type sigNode struct {
	kind string // "b", "s", "seq", "alt", "star", "stop", "eps"
	n    int    // b: number of bytes
	kids []*sigNode
}

func sigSeq(k ...*sigNode) *sigNode { return &sigNode{kind: "seq", kids: k} }

func (s *sigNode) String() string {
	switch s.kind {
	case "b":
		return fmt.Sprintf("b%d", s.n)
	case "s", "stop", "eps", "cont":
		return s.kind
	case "star":
		return "(" + s.kids[0].String() + ")*"
	case "iter":
		return "[" + s.kids[0].String() + "]"
	}
	var parts []string
	for _, k := range s.kids {
		parts = append(parts, k.String())
	}
	sep := " "
	if s.kind == "alt" {
		sep = " | "
	}
	return "(" + strings.Join(parts, sep) + ")"
}

// ---- NFA over {b, s} with an explicit end-of-record ----

type nfa struct {
	eps   map[int][]int
	trans map[int]map[byte][]int
	n     int
}

func newNFA() *nfa { return &nfa{eps: map[int][]int{}, trans: map[int]map[byte][]int{}} }

func (a *nfa) state() int { a.n++; return a.n - 1 }

func (a *nfa) addT(from int, c byte, to int) {
	if a.trans[from] == nil {
		a.trans[from] = map[byte][]int{}
	}
	a.trans[from][c] = append(a.trans[from][c], to)
}

// build: returns the exit state reached after s when entered at `in`; `dead` is a sink for "stop".
func (a *nfa) build(s *sigNode, in int, dead int, head int) int {
	switch s.kind {
	case "eps":
		return in
	case "b":
		cur := in
		for i := 0; i < s.n; i++ {
			nx := a.state()
			a.addT(cur, 'b', nx)
			cur = nx
		}
		return cur
	case "s":
		nx := a.state()
		a.addT(in, 's', nx)
		return nx
	case "stop":
		return dead
	case "cont":
		// the end of a loop iteration: back to the loop head, nothing follows on this path
		if head >= 0 {
			a.eps[in] = append(a.eps[in], head)
		}
		return dead
	case "seq":
		cur := in
		for _, k := range s.kids {
			cur = a.build(k, cur, dead, head)
			if cur == dead {
				return dead
			}
		}
		return cur
	case "alt":
		out := a.state()
		any := false
		for _, k := range s.kids {
			st := a.state()
			a.eps[in] = append(a.eps[in], st)
			e := a.build(k, st, dead, head)
			if e != dead {
				a.eps[e] = append(a.eps[e], out)
				any = true
			}
		}
		if !any {
			return dead
		}
		return out
	case "iter":
		end := a.state()
		e := a.build(s.kids[0], in, dead, end)
		if e != dead {
			a.eps[e] = append(a.eps[e], end)
		}
		return end
	case "star":
		h := a.state()
		a.eps[in] = append(a.eps[in], h)
		e := a.build(s.kids[0], h, dead, h)
		if e != dead {
			a.eps[e] = append(a.eps[e], h)
		}
		return h
	}
	return in
}

func (a *nfa) closure(set map[int]bool) map[int]bool {
	work := []int{}
	for s := range set {
		work = append(work, s)
	}
	for len(work) > 0 {
		s := work[len(work)-1]
		work = work[:len(work)-1]
		for _, t := range a.eps[s] {
			if !set[t] {
				set[t] = true
				work = append(work, t)
			}
		}
	}
	return set
}

func setKey(s map[int]bool) string {
	var k []int
	for x := range s {
		k = append(k, x)
	}
	sort.Ints(k)
	return fmt.Sprint(k)
}

// prefixEqual: do the two automata accept the same set of prefixes?  (Every
// state is accepting for the prefix closure, so equality reduces to: the two
// determinised automata have a transition on the same tokens from every pair
// of jointly reachable states.)  Returns a distinguishing prefix otherwise.
func prefixEqual(a, b *nfa, a0, b0 int) (bool, string) {
	type pair struct{ x, y map[int]bool }
	start := pair{a.closure(map[int]bool{a0: true}), b.closure(map[int]bool{b0: true})}
	seen := map[string]bool{}
	type item struct {
		p    pair
		path string
	}
	work := []item{{start, ""}}
	for len(work) > 0 {
		it := work[0]
		work = work[1:]
		key := setKey(it.p.x) + "|" + setKey(it.p.y)
		if seen[key] {
			continue
		}
		seen[key] = true
		for _, c := range []byte{'b', 's'} {
			step := func(n *nfa, set map[int]bool) map[int]bool {
				out := map[int]bool{}
				for s := range set {
					for _, t := range n.trans[s][c] {
						out[t] = true
					}
				}
				return n.closure(out)
			}
			nx, ny := step(a, it.p.x), step(b, it.p.y)
			if (len(nx) == 0) != (len(ny) == 0) {
				who := "the writer can continue with"
				if len(nx) == 0 {
					who = "the reader can continue with"
				}
				tok := map[byte]string{'b': "a fixed byte", 's': "an item-width field"}[c]
				return false, fmt.Sprintf("after the prefix %q %s %s and the other side cannot", compress(it.path), who, tok)
			}
			if len(nx) > 0 && len(it.path) < 200 {
				work = append(work, item{pair{nx, ny}, it.path + string(c)})
			}
		}
	}
	return true, ""
}

func compress(s string) string {
	var sb strings.Builder
	for i := 0; i < len(s); {
		j := i
		for j < len(s) && s[j] == s[i] {
			j++
		}
		if j-i > 1 {
			fmt.Fprintf(&sb, "%c%d ", s[i], j-i)
		} else {
			fmt.Fprintf(&sb, "%c ", s[i])
		}
		i = j
	}
	return strings.TrimSpace(sb.String())
}

// ---- extraction ----

type sigExtractor struct {
	depth  int
	p      *Program
	info   *types.Info
	buf    types.Object // reader: the []byte parameter; writer: the dst parameter
	writer bool
	self   map[*types.Func]bool // functions of the same record family (recursion = child records)
	err    string
}

func (x *sigExtractor) isBuf(e ast.Expr) bool {
	id, ok := ast.Unparen(e).(*ast.Ident)
	return ok && x.info.ObjectOf(id) == x.buf
}

// appendedWidth: the bytes a helper appends to its first parameter (constant), or -1 for "item width", 0 unknown.
func (x *sigExtractor) helperWidth(callee *types.Func, depth int) (int, bool) {
	fd, pkg := x.p.Decl(callee), x.p.DeclPkg(callee)
	if fd == nil || fd.Body == nil || depth > 2 {
		return 0, false
	}
	// a writer that takes a one-byte width code besides the value (appendNum) is the item-width writer
	if isWidthCodec(callee) {
		return -1, true
	}
	// return append(dst, buf[:]...) with buf a fixed array; or append(dst, a, b, c)
	w := 0
	ast.Inspect(fd.Body, func(n ast.Node) bool {
		call, ok := n.(*ast.CallExpr)
		if !ok {
			return true
		}
		if b, ok := typeutil.Callee(pkg.TypesInfo, call).(*types.Builtin); ok && b.Name() == "append" && len(call.Args) >= 2 {
			if call.Ellipsis.IsValid() {
				if sl, ok := ast.Unparen(call.Args[1]).(*ast.SliceExpr); ok {
					if arr, ok := pkg.TypesInfo.TypeOf(sl.X).Underlying().(*types.Array); ok {
						w += int(arr.Len())
					}
				}
			} else {
				w += len(call.Args) - 1
			}
		}
		return true
	})
	return w, w > 0
}

func (x *sigExtractor) exprSig(e ast.Node) []*sigNode {
	var out []*sigNode
	if e == nil {
		return nil
	}
	ast.Inspect(e, func(n ast.Node) bool {
		switch v := n.(type) {
		case *ast.FuncLit:
			return false
		case *ast.CallExpr:
			callee := typeutil.Callee(x.info, v)
			if x.writer {
				if b, ok := callee.(*types.Builtin); ok && b.Name() == "append" && len(v.Args) >= 2 && x.isBuf(v.Args[0]) {
					if v.Ellipsis.IsValid() {
						x.err = "append of a slice of unknown length to the index buffer"
					} else {
						out = append(out, &sigNode{kind: "b", n: len(v.Args) - 1})
					}
					return false
				}
				if fn, ok := callee.(*types.Func); ok && len(v.Args) >= 1 && x.isBuf(v.Args[0]) {
					if x.self[fn] {
						return false // a child record
					}
					if sub := x.inlineWriter(fn); sub != nil {
						out = append(out, sub)
						return false
					}
					if w, ok := x.helperWidth(fn, 0); ok {
						if w == -1 {
							out = append(out, &sigNode{kind: "s"})
						} else {
							out = append(out, &sigNode{kind: "b", n: w})
						}
						return false
					}
					x.err = "the index buffer is handed to " + fn.Name() + ", whose output width is not recognised"
					return false
				}
				return true
			}
			// reader
			fn, _ := callee.(*types.Func)
			for i, a := range v.Args {
				sl, ok := ast.Unparen(a).(*ast.SliceExpr)
				if !ok || !x.isBuf(sl.X) {
					continue
				}
				name := ""
				if fn != nil {
					name = fn.Name()
				}
				switch {
				case strings.HasSuffix(name, "Uint64"):
					out = append(out, &sigNode{kind: "b", n: 8})
				case strings.HasSuffix(name, "Uint32"):
					out = append(out, &sigNode{kind: "b", n: 4})
				case strings.HasSuffix(name, "Uint16"):
					out = append(out, &sigNode{kind: "b", n: 2})
				case name == "readNum" && i == 0:
					out = append(out, &sigNode{kind: "s"})
				case fn != nil && x.p.IsRepoPkg(fn.Pkg()) && len(v.Args) == 1:
					if w := x.p.bytesRead(fn, 0); w > 0 {
						out = append(out, &sigNode{kind: "b", n: w})
					} else {
						x.err = "the index buffer is handed to " + name + ", whose input width is not recognised"
					}
				}
			}
			return true
		case *ast.IndexExpr:
			if !x.writer && x.isBuf(v.X) {
				out = append(out, &sigNode{kind: "b", n: 1})
			}
		}
		return true
	})
	return out
}

func (x *sigExtractor) block(list []ast.Stmt) *sigNode {
	seq := &sigNode{kind: "seq"}
	for i, st := range list {
		switch s := st.(type) {
		case *ast.IfStmt:
			if s.Init != nil {
				seq.kids = append(seq.kids, x.block([]ast.Stmt{s.Init}))
			}
			seq.kids = append(seq.kids, x.exprSig(s.Cond)...)
			// the rest of the list continues after either branch
			rest := list[i+1:]
			thenB := x.block(append(append([]ast.Stmt{}, s.Body.List...), rest...))
			var elseB *sigNode
			switch e := s.Else.(type) {
			case *ast.BlockStmt:
				elseB = x.block(append(append([]ast.Stmt{}, e.List...), rest...))
			case *ast.IfStmt:
				elseB = x.block(append([]ast.Stmt{e}, rest...))
			default:
				elseB = x.block(rest)
			}
			seq.kids = append(seq.kids, &sigNode{kind: "alt", kids: []*sigNode{thenB, elseB}})
			return seq
		case *ast.ForStmt:
			if s.Init != nil {
				seq.kids = append(seq.kids, x.block([]ast.Stmt{s.Init}))
			}
			seq.kids = append(seq.kids, x.exprSig(s.Cond)...)
			body := x.loopBody(s.Body.List)
			// a loop with a small constant trip count (the four quadrants) is unrolled exactly
			if k, ok := constTripCount(x.info, s); ok && k <= 8 {
				for i := 0; i < k; i++ {
					seq.kids = append(seq.kids, &sigNode{kind: "iter", kids: []*sigNode{body}})
				}
			} else {
				seq.kids = append(seq.kids, &sigNode{kind: "star", kids: []*sigNode{body}})
			}
		case *ast.RangeStmt:
			body := x.loopBody(s.Body.List)
			seq.kids = append(seq.kids, &sigNode{kind: "star", kids: []*sigNode{body}})
		case *ast.BlockStmt:
			seq.kids = append(seq.kids, x.block(s.List))
		case *ast.ReturnStmt:
			for _, r := range s.Results {
				seq.kids = append(seq.kids, x.exprSig(r)...)
			}
			seq.kids = append(seq.kids, &sigNode{kind: "stop"})
			return seq
		case *ast.BranchStmt:
			// continue: the iteration ends here (handled by loopBody); break: leave as is
			if s.Tok == token.CONTINUE {
				seq.kids = append(seq.kids, &sigNode{kind: "cont"})
				return seq
			}
		default:
			seq.kids = append(seq.kids, x.exprSig(st)...)
		}
	}
	return seq
}

// loopBody: inside a loop, `continue` ends the iteration (not the record): model it as the end of the body.
func (x *sigExtractor) loopBody(list []ast.Stmt) *sigNode {
	b := x.block(list)
	return stopToEps(b, true)
}

// stopToEps: within a loop body a `continue` was encoded as stop; a real return stays a stop.
// We cannot tell them apart after the fact, so blocks mark continues with kind "cont".
func stopToEps(s *sigNode, _ bool) *sigNode { return s }

func (p *Program) ruleLayout(c *Check) {
	type side struct {
		fns    []string // function names (first is the entry)
		recv   []string // receiver type for methods ("" for functions)
		writer bool
	}
	families := []struct {
		name           string
		writer, reader side
	}{
		{"quadtree node", side{[]string{"compress"}, []string{"qNode"}, true}, side{[]string{"qCompressSearch"}, []string{""}, false}},
		{"R-tree node", side{[]string{"compress"}, []string{"rRect"}, true}, side{[]string{"rnCompressSearch"}, []string{""}, false}},
		{"R-tree header", side{[]string{"compress"}, []string{"rTree"}, true}, side{[]string{"rCompressSearch"}, []string{""}, false}},
	}
	// every writer/reader of the three families counts as "a child record" when called from another
	self := map[*types.Func]bool{}
	for _, f := range families {
		for i, n := range f.writer.fns {
			if fn := p.Method("geometry", f.writer.recv[i], n); fn != nil {
				self[fn] = true
			}
		}
		for _, n := range f.reader.fns {
			if fn := p.Func("geometry", n); fn != nil {
				self[fn] = true
			}
		}
	}
	n := 0
	for _, f := range families {
		con := "geometry: " + f.name + " layout (writer ↔ reader)"
		get := func(s side) (*sigNode, string) {
			var fn *types.Func
			if s.recv[0] != "" {
				fn = p.Method("geometry", s.recv[0], s.fns[0])
			} else {
				fn = p.Func("geometry", s.fns[0])
			}
			fd, pkg := p.Decl(fn), p.DeclPkg(fn)
			if fd == nil || fd.Body == nil {
				return nil, "function not found: " + s.fns[0]
			}
			x := &sigExtractor{p: p, info: pkg.TypesInfo, writer: s.writer, self: self}
			for _, fl := range fd.Type.Params.List {
				for _, nm := range fl.Names {
					if o := pkg.TypesInfo.Defs[nm]; isByteSlice(o.Type()) && x.buf == nil {
						x.buf = o
					}
				}
			}
			if x.buf == nil {
				return nil, "no buffer parameter in " + s.fns[0]
			}
			sig := x.block(fd.Body.List)
			return sig, x.err
		}
		ws, werr := get(f.writer)
		rs, rerr := get(f.reader)
		if ws == nil || rs == nil || werr != "" || rerr != "" {
			c.Undecided("E9.I1", con, "", "layout signature could not be extracted: "+werr+" "+rerr)
			continue
		}
		n++
		wa, ra := newNFA(), newNFA()
		w0, r0 := wa.state(), ra.state()
		wd, rd := wa.state(), ra.state()
		wa.build(ws, w0, wd, -1)
		ra.build(rs, r0, rd, -1)
		if ok, why := prefixEqual(wa, ra, w0, r0); ok {
			c.OK("E9.I1", con, "", "the writer's and the reader's record grammars have the same prefixes; writer: "+clip(ws.String(), 200)+" ; reader: "+clip(rs.String(), 200))
		} else {
			o := c.Bad("E9.I1", con, "", "the writer and the reader disagree on the record layout: "+why)
			o.Expected = "writer: " + clip(ws.String(), 300)
			o.Observed = "reader: " + clip(rs.String(), 300)
		}
	}
	c.Floor("E9.I1", n, 3, "writer/reader families of the compressed indexes")
}

// constTripCount: for i := 0; i < K; i++ with constant K.
func constTripCount(info *types.Info, f *ast.ForStmt) (int, bool) {
	as, ok := f.Init.(*ast.AssignStmt)
	if !ok || len(as.Lhs) != 1 || len(as.Rhs) != 1 {
		return 0, false
	}
	id, ok := as.Lhs[0].(*ast.Ident)
	if !ok {
		return 0, false
	}
	if z, ok := constInt(info, as.Rhs[0]); !ok || z != 0 {
		return 0, false
	}
	be, ok := f.Cond.(*ast.BinaryExpr)
	if !ok || be.Op != token.LSS || types.ExprString(be.X) != id.Name {
		return 0, false
	}
	k, ok := constInt(info, be.Y)
	if !ok || k < 0 {
		return 0, false
	}
	inc, ok := f.Post.(*ast.IncDecStmt)
	if !ok || inc.Tok != token.INC || types.ExprString(inc.X) != id.Name {
		return 0, false
	}
	return int(k), true
}

// isWidthCodec: a function over a byte buffer that also takes a one-byte width code (appendNum, readNum).
func isWidthCodec(fn *types.Func) bool {
	sig, ok := fn.Type().(*types.Signature)
	if !ok || sig.Recv() != nil || sig.Params().Len() < 2 {
		return false
	}
	if !isByteSlice(sig.Params().At(0).Type()) {
		return false
	}
	last := sig.Params().At(sig.Params().Len() - 1).Type()
	bt, ok := last.Underlying().(*types.Basic)
	return ok && (bt.Kind() == types.Uint8 || bt.Kind() == types.Byte)
}

// inlineWriter: a same-package helper that is handed the buffer and writes several fields
// (loops, branches): its own signature is spliced in.  Leaf helpers (fixed width, width codec) are not inlined.
func (x *sigExtractor) inlineWriter(fn *types.Func) *sigNode {
	if isWidthCodec(fn) || x.depth > 2 {
		return nil
	}
	fd, pkg := x.p.Decl(fn), x.p.DeclPkg(fn)
	if fd == nil || fd.Body == nil {
		return nil
	}
	structured := false
	for _, st := range fd.Body.List {
		switch st.(type) {
		case *ast.ForStmt, *ast.RangeStmt, *ast.IfStmt:
			structured = true
		}
	}
	if !structured {
		return nil
	}
	sub := &sigExtractor{p: x.p, info: pkg.TypesInfo, writer: true, self: x.self, depth: x.depth + 1}
	for _, fl := range fd.Type.Params.List {
		for _, nm := range fl.Names {
			if o := pkg.TypesInfo.Defs[nm]; isByteSlice(o.Type()) && sub.buf == nil {
				sub.buf = o
			}
		}
	}
	if sub.buf == nil {
		return nil
	}
	sig := sub.block(fd.Body.List)
	if sub.err != "" {
		x.err = sub.err
	}
	// the helper's return ends the helper, not the record: turn its stops into fall-through
	return stopsToEps(sig)
}

func stopsToEps(s *sigNode) *sigNode {
	if s.kind == "stop" {
		return &sigNode{kind: "eps"}
	}
	out := &sigNode{kind: s.kind, n: s.n}
	for _, k := range s.kids {
		out.kids = append(out.kids, stopsToEps(k))
	}
	return out
}
