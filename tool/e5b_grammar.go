package main

import (
	"fmt"
	"go/constant"
	"go/token"
	"go/types"
	"sort"
	"strings"

	"golang.org/x/tools/go/ssa"
)

// E5b — JSON grammar typestate.  Every writer of the append family is
// interpreted abstractly over its control-flow graph: the abstract state is
// the state of a JSON pushdown recogniser (stack of open brackets + phase)
// after the bytes written so far, together with "first/later iteration"
// flags for loop counters (so that `if i > 0 { ',' }` is understood).  A
// writer must take the state "expecting a value" to "value complete" on
// every path; calls to other writers are complete values (checked for each
// of them in turn: assume-guarantee).

type jstate struct {
	stack string
	phase byte // V value expected | W value or ] | K key or } | k key | C colon | A after value
}

func (s jstate) String() string { return fmt.Sprintf("%q/%c", s.stack, s.phase) }

type jtok int

const (
	tLBrace jtok = iota
	tRBrace
	tLBrack
	tRBrack
	tComma
	tColon
	tStr
	tVal     // scalar literal
	tValue   // a complete JSON value written by another writer
	tMembers // zero or more ",key:value"
	tMemList // one or more "key:value" separated by commas (no leading comma)
)

func (t jtok) String() string {
	return [...]string{"{", "}", "[", "]", ",", ":", "string", "literal", "<value>", "<,members>", "<members>"}[t]
}

func jstep(s jstate, t jtok) (jstate, string) {
	top := byte(0)
	if len(s.stack) > 0 {
		top = s.stack[len(s.stack)-1]
	}
	bad := func() (jstate, string) {
		return s, fmt.Sprintf("token %s is not allowed in state %s", t, s)
	}
	switch t {
	case tLBrace:
		if s.phase == 'V' || s.phase == 'W' {
			return jstate{s.stack + "{", 'K'}, ""
		}
	case tLBrack:
		if s.phase == 'V' || s.phase == 'W' {
			return jstate{s.stack + "[", 'W'}, ""
		}
	case tStr:
		switch s.phase {
		case 'V', 'W':
			return jstate{s.stack, 'A'}, ""
		case 'K', 'k':
			return jstate{s.stack, 'C'}, ""
		}
	case tVal, tValue:
		if s.phase == 'V' || s.phase == 'W' {
			return jstate{s.stack, 'A'}, ""
		}
	case tColon:
		if s.phase == 'C' {
			return jstate{s.stack, 'V'}, ""
		}
	case tComma:
		if s.phase == 'A' && top == '{' {
			return jstate{s.stack, 'k'}, ""
		}
		if s.phase == 'A' && top == '[' {
			return jstate{s.stack, 'V'}, ""
		}
	case tRBrace:
		if top == '{' && (s.phase == 'K' || s.phase == 'A') {
			return jstate{s.stack[:len(s.stack)-1], 'A'}, ""
		}
	case tRBrack:
		if top == '[' && (s.phase == 'W' || s.phase == 'A') {
			return jstate{s.stack[:len(s.stack)-1], 'A'}, ""
		}
	case tMembers:
		if s.phase == 'A' && top == '{' {
			return s, ""
		}
	case tMemList:
		if s.phase == 'k' || s.phase == 'K' {
			return jstate{s.stack, 'A'}, ""
		}
	}
	return bad()
}

func jtokens(str string) ([]jtok, string) {
	var out []jtok
	for i := 0; i < len(str); {
		ch := str[i]
		switch {
		case ch == ' ' || ch == '\n' || ch == '\t' || ch == '\r':
			i++
		case ch == '{':
			out = append(out, tLBrace)
			i++
		case ch == '}':
			out = append(out, tRBrace)
			i++
		case ch == '[':
			out = append(out, tLBrack)
			i++
		case ch == ']':
			out = append(out, tRBrack)
			i++
		case ch == ',':
			out = append(out, tComma)
			i++
		case ch == ':':
			out = append(out, tColon)
			i++
		case ch == '"':
			j := i + 1
			for j < len(str) && str[j] != '"' {
				if str[j] == '\\' {
					j++
				}
				j++
			}
			if j >= len(str) {
				return nil, "unterminated string in constant " + str
			}
			out = append(out, tStr)
			i = j + 1
		default:
			j := i
			for j < len(str) && strings.IndexByte("{}[],:\" \n\t\r", str[j]) < 0 {
				j++
			}
			lit := str[i:j]
			switch lit {
			case "null", "true", "false":
			default:
				if _, _, err := parseNumberLike(lit); err != nil {
					return nil, "bare token " + lit + " in constant"
				}
			}
			out = append(out, tVal)
			i = j
		}
	}
	return out, ""
}

func parseNumberLike(s string) (int, int, error) {
	if s == "" {
		return 0, 0, fmt.Errorf("empty")
	}
	for _, ch := range s {
		if !strings.ContainsRune("-+0123456789.eE", ch) {
			return 0, 0, fmt.Errorf("not a number")
		}
	}
	return 0, 0, nil
}

type gflags string // sorted "phiName=F|L;" entries

type gstate struct {
	js    jstate
	flags string
}

type grammarCtx struct {
	p        *Program
	fn       *ssa.Function
	fam      map[*ssa.Function]int
	counters map[*ssa.Phi]int64 // counter phi -> initial constant
	dst      *ssa.Parameter
	errs     map[string]token.Pos
}

func counterPhis(fn *ssa.Function) map[*ssa.Phi]int64 {
	out := map[*ssa.Phi]int64{}
	for _, b := range fn.Blocks {
		for _, in := range b.Instrs {
			ph, ok := in.(*ssa.Phi)
			if !ok {
				break
			}
			if len(ph.Edges) != 2 {
				continue
			}
			var init *ssa.Const
			step := false
			for _, e := range ph.Edges {
				switch x := e.(type) {
				case *ssa.Const:
					if x.Value != nil && x.Value.Kind() == constant.Int {
						init = x
					}
				case *ssa.BinOp:
					if k, ok := x.Y.(*ssa.Const); ok && x.Op == token.ADD && x.X == ssa.Value(ph) && k.Value != nil && k.Int64() > 0 {
						step = true
					}
				}
			}
			if init != nil && step {
				out[ph] = init.Int64()
			}
		}
	}
	return out
}

func flagGet(flags string, name string) byte {
	for _, e := range strings.Split(flags, ";") {
		if strings.HasPrefix(e, name+"=") {
			return e[len(e)-1]
		}
	}
	return '?'
}

func flagSet(flags string, name string, v byte) string {
	var parts []string
	for _, e := range strings.Split(flags, ";") {
		if e != "" && !strings.HasPrefix(e, name+"=") {
			parts = append(parts, e)
		}
	}
	parts = append(parts, name+"="+string(v))
	sort.Strings(parts)
	return strings.Join(parts, ";")
}

// abstractInt: value of v as (base, exact) where exact=false means "> base".
func (g *grammarCtx) abstractInt(v ssa.Value, flags string) (int64, bool, bool) {
	switch x := v.(type) {
	case *ssa.Const:
		if x.Value != nil && x.Value.Kind() == constant.Int {
			return x.Int64(), true, true
		}
	case *ssa.Phi:
		if init, ok := g.counters[x]; ok {
			switch flagGet(flags, x.Name()) {
			case 'F':
				return init, true, true
			case 'L':
				return init, false, true
			}
		}
	case *ssa.BinOp:
		if k, ok := x.Y.(*ssa.Const); ok && x.Op == token.ADD && k.Value != nil && k.Value.Kind() == constant.Int {
			b, exact, ok := g.abstractInt(x.X, flags)
			if ok {
				return b + k.Int64(), exact, true
			}
		}
	}
	return 0, false, false
}

// decide: outcome of `x op K` if determined by the flags: 1 true, 0 false, -1 unknown.
func (g *grammarCtx) decide(cond ssa.Value, flags string) int {
	bo, ok := cond.(*ssa.BinOp)
	if !ok {
		return -1
	}
	k, isK := bo.Y.(*ssa.Const)
	if !isK || k.Value == nil || k.Value.Kind() != constant.Int {
		return -1
	}
	base, exact, ok := g.abstractInt(bo.X, flags)
	if !ok {
		return -1
	}
	K := k.Int64()
	b2i := func(b bool) int {
		if b {
			return 1
		}
		return 0
	}
	if exact {
		switch bo.Op {
		case token.GTR:
			return b2i(base > K)
		case token.GEQ:
			return b2i(base >= K)
		case token.LSS:
			return b2i(base < K)
		case token.LEQ:
			return b2i(base <= K)
		case token.EQL:
			return b2i(base == K)
		case token.NEQ:
			return b2i(base != K)
		}
		return -1
	}
	// value > base
	switch bo.Op {
	case token.GTR:
		if base >= K {
			return 1
		}
	case token.GEQ:
		if base+1 >= K {
			return 1
		}
	case token.EQL:
		if base >= K {
			return 0
		}
	case token.NEQ:
		if base >= K {
			return 1
		}
	case token.LSS:
		if base+1 >= K {
			return 0
		}
	case token.LEQ:
		if base >= K {
			return 0
		}
	}
	return -1
}

func (g *grammarCtx) fail(pos token.Pos, msg string) {
	if _, ok := g.errs[msg]; !ok {
		g.errs[msg] = pos
	}
}

// emit returns the tokens an instruction writes to the chain (nil: not a writer).
func (g *grammarCtx) emit(in ssa.Instruction, chain map[ssa.Value]bool) ([]jtok, bool) {
	cl, ok := in.(*ssa.Call)
	if !ok {
		return nil, false
	}
	cc := &cl.Call
	if b, ok := cc.Value.(*ssa.Builtin); ok {
		if b.Name() != "append" || len(cc.Args) == 0 || !chain[cc.Args[0]] {
			return nil, false
		}
		if len(cc.Args) == 1 {
			return []jtok{}, true
		}
		arg := cc.Args[1]
		if k, ok := arg.(*ssa.Const); ok && k.Value != nil && k.Value.Kind() == constant.String {
			toks, msg := jtokens(constant.StringVal(k.Value))
			if msg != "" {
				g.fail(in.Pos(), msg)
			}
			return toks, true
		}
		if bs, ok := constBytesOf(arg); ok {
			toks, msg := jtokens(bs)
			if msg != "" {
				g.fail(in.Pos(), msg)
			}
			return toks, true
		}
		// dynamic text: classify by where it comes from
		switch g.dynamicKind(arg) {
		case "value":
			return []jtok{tValue}, true
		case "memberlist":
			return []jtok{tMemList}, true
		}
		g.fail(in.Pos(), "text of unknown JSON shape is appended to the output")
		return []jtok{}, true
	}
	if cc.IsInvoke() {
		if cc.Method.Name() == "AppendJSON" && len(cc.Args) == 1 && chain[cc.Args[0]] {
			return []jtok{tValue}, true
		}
		return nil, false
	}
	sc := cc.StaticCallee()
	if sc == nil {
		return nil, false
	}
	if i, ok := g.fam[sc]; ok && i < len(cc.Args) && chain[cc.Args[i]] {
		if isPublicWriter(sc) {
			return []jtok{tValue}, true
		}
		return nil, false // a helper: analysed in the caller's state
	}
	if n := sc.String(); (n == "strconv.AppendFloat" || n == "strconv.AppendInt") && len(cc.Args) > 0 && chain[cc.Args[0]] {
		return []jtok{tVal}, true
	}
	return nil, false
}

// dynamicKind: "value" for the coordinates member extracted from a child's
// own JSON, "memberlist" for the inside of a stored member object.
func (g *grammarCtx) dynamicKind(v ssa.Value) string {
	seen := map[ssa.Value]bool{}
	for depth := 0; depth < 8 && v != nil && !seen[v]; depth++ {
		seen[v] = true
		switch x := v.(type) {
		case *ssa.Call:
			if sc := x.Call.StaticCallee(); sc != nil {
				n := sc.String()
				if strings.HasSuffix(n, "gjson.Result).String") || strings.HasSuffix(n, ".String") && strings.Contains(n, "gjson") {
					// String() of a gjson value extracted from a writer's output
					if len(x.Call.Args) > 0 {
						v = x.Call.Args[0]
						continue
					}
				}
				if strings.Contains(n, "gjson.GetBytes") || strings.Contains(n, "gjson.Get") {
					return "value"
				}
			}
			return ""
		case *ssa.Slice:
			// members[1:len-1]: the inside of the stored member object
			if fa, ok := baseLoad(x.X); ok && fa == "members" {
				if k, ok := x.Low.(*ssa.Const); ok && k.Int64() == 1 && x.High != nil {
					return "memberlist"
				}
			}
			return ""
		case *ssa.Convert:
			v = x.X
		case *ssa.ChangeType:
			v = x.X
		default:
			return ""
		}
	}
	return ""
}

func baseLoad(v ssa.Value) (string, bool) {
	ld, ok := v.(*ssa.UnOp)
	if !ok || ld.Op != token.MUL {
		return "", false
	}
	fa, ok := ld.X.(*ssa.FieldAddr)
	if !ok {
		return "", false
	}
	st, ok := fa.X.Type().Underlying().(*types.Pointer).Elem().Underlying().(*types.Struct)
	if !ok {
		return "", false
	}
	return st.Field(fa.Field).Name(), true
}

// gAnalysis memoises, per writer and entry state, the set of JSON states in
// which the writer can return.  Public writers (AppendJSON methods) are
// summarised by their contract (one complete value); helpers are analysed in
// the state of each call site.
type gAnalysis struct {
	p     *Program
	fam   map[*ssa.Function]int
	memo  map[string]map[jstate]bool
	busy  map[string]bool
	errs  map[*ssa.Function]map[string]token.Pos
	count int
}

func isPublicWriter(fn *ssa.Function) bool {
	return fn.Name() == "AppendJSON" && fn.Signature.Recv() != nil
}

func (ga *gAnalysis) fail(fn *ssa.Function, pos token.Pos, msg string) {
	if ga.errs[fn] == nil {
		ga.errs[fn] = map[string]token.Pos{}
	}
	if _, ok := ga.errs[fn][msg]; !ok {
		ga.errs[fn][msg] = pos
	}
}

func (ga *gAnalysis) chainOf(fn *ssa.Function, g *grammarCtx) map[ssa.Value]bool {
	chain := map[ssa.Value]bool{g.dst: true}
	for changed := true; changed; {
		changed = false
		for _, b := range fn.Blocks {
			for _, in := range b.Instrs {
				switch x := in.(type) {
				case *ssa.Call:
					if _, ok := g.emit(x, chain); ok || g.helperCall(x, chain) != nil {
						if _, isT := x.Type().(*types.Tuple); isT {
							for _, r := range *x.Referrers() {
								if ex, ok := r.(*ssa.Extract); ok && ex.Index == 0 && !chain[ex] {
									chain[ex], changed = true, true
								}
							}
						} else if !chain[x] {
							chain[x], changed = true, true
						}
					}
				case *ssa.Phi:
					for _, e := range x.Edges {
						if chain[e] && !chain[x] {
							chain[x], changed = true, true
						}
					}
				}
			}
		}
	}
	return chain
}

// helperCall: a static call of a non-public writer of the family with the chain as dst.
func (g *grammarCtx) helperCall(cl *ssa.Call, chain map[ssa.Value]bool) *ssa.Function {
	sc := cl.Call.StaticCallee()
	if sc == nil || isPublicWriter(sc) {
		return nil
	}
	if i, ok := g.fam[sc]; ok && i < len(cl.Call.Args) && chain[cl.Call.Args[i]] {
		return sc
	}
	return nil
}

func (ga *gAnalysis) analyze(fn *ssa.Function, start jstate) map[jstate]bool {
	key := SSAName(fn) + "|" + start.String()
	if r, ok := ga.memo[key]; ok {
		return r
	}
	if ga.busy[key] {
		return map[jstate]bool{}
	}
	ga.busy[key] = true
	defer delete(ga.busy, key)
	g := &grammarCtx{p: ga.p, fn: fn, fam: ga.fam, counters: counterPhis(fn), dst: fn.Params[ga.fam[fn]], errs: map[string]token.Pos{}}
	chain := ga.chainOf(fn, g)
	outs := map[jstate]bool{}
	type item struct {
		b   *ssa.BasicBlock
		idx int
		s   gstate
	}
	seen := map[string]bool{}
	var work []item
	push := func(b *ssa.BasicBlock, idx int, s gstate) {
		k := fmt.Sprintf("%d/%d/%s/%s", b.Index, idx, s.js, s.flags)
		if !seen[k] {
			seen[k] = true
			work = append(work, item{b, idx, s})
		}
	}
	push(fn.Blocks[0], 0, gstate{start, ""})
	for steps := 0; len(work) > 0 && steps < 50000; steps++ {
		it := work[len(work)-1]
		work = work[:len(work)-1]
		ga.count++
		cur := it.s
		dead := false
		for i := it.idx; i < len(it.b.Instrs) && !dead; i++ {
			ins := it.b.Instrs[i]
			if cl, ok := ins.(*ssa.Call); ok {
				if h := g.helperCall(cl, chain); h != nil {
					res := ga.analyze(h, cur.js)
					for o := range res {
						push(it.b, i+1, gstate{o, cur.flags})
					}
					dead = true
					break
				}
			}
			toks, ok := g.emit(ins, chain)
			if !ok {
				continue
			}
			for _, t := range toks {
				ns, msg := jstep(cur.js, t)
				if msg != "" {
					ga.fail(fn, ins.Pos(), msg+" (the output is not well-formed JSON on this path)")
					dead = true
					break
				}
				cur.js = ns
			}
		}
		for m, pos := range g.errs {
			ga.fail(fn, pos, m)
		}
		if dead {
			continue
		}
		last := it.b.Instrs[len(it.b.Instrs)-1]
		switch x := last.(type) {
		case *ssa.Return:
			outs[cur.js] = true
		case *ssa.If:
			d := g.decide(x.Cond, cur.flags)
			for si, succ := range it.b.Succs {
				if (d == 1 && si == 1) || (d == 0 && si == 0) {
					continue
				}
				push(succ, 0, g.enter(it.b, succ, cur))
			}
		default:
			for _, succ := range it.b.Succs {
				push(succ, 0, g.enter(it.b, succ, cur))
			}
		}
	}
	ga.memo[key] = outs
	return outs
}

func (p *Program) ruleJSONGrammar(c *Check) {
	fam := p.appendFamily()
	ga := &gAnalysis{p: p, fam: fam, memo: map[string]map[jstate]bool{}, busy: map[string]bool{}, errs: map[*ssa.Function]map[string]token.Pos{}}
	var roots []*ssa.Function
	for fn := range fam {
		if isPublicWriter(fn) {
			roots = append(roots, fn)
		}
	}
	sort.Slice(roots, func(i, j int) bool { return SSAName(roots[i]) < SSAName(roots[j]) })
	want := jstate{"", 'A'}
	for _, fn := range roots {
		before := ga.count
		outs := ga.analyze(fn, jstate{"", 'V'})
		pos := ""
		if o, ok := fn.Object().(*types.Func); ok {
			pos = p.declPos(o)
		}
		name := SSAName(fn)
		var msgs []string
		var firstPos token.Pos
		// errors of this writer and of the helpers it reaches are reported on the writer
		for f, m := range ga.errs {
			if f == fn || !isPublicWriter(f) {
				for msg, ps := range m {
					msgs = append(msgs, SSAName(f)+": "+msg)
					if firstPos == token.NoPos {
						firstPos = ps
					}
				}
			}
		}
		for o := range outs {
			if o != want {
				msgs = append(msgs, fmt.Sprintf("%s: a path returns in state %s: the bytes written are not one complete JSON value", name, o))
			}
		}
		if len(outs) == 0 && len(msgs) == 0 {
			msgs = append(msgs, name+": no path reaches a return")
		}
		if len(msgs) == 0 {
			c.OK("E5.json", name, pos, fmt.Sprintf("writes one complete JSON value on every path (helpers analysed in the state of their call sites; %d abstract steps)", ga.count-before))
		} else {
			sort.Strings(msgs)
			o := c.Bad("E5.json", name, p.Pos(firstPos), msgs[0])
			o.Path = msgs
			// helper errors are charged once
			for f := range ga.errs {
				if !isPublicWriter(f) {
					delete(ga.errs, f)
				}
			}
		}
	}
	c.Floor("E5.json", len(roots), 12, "public JSON writers")
}

// enter: flags of loop counters when control moves from pred to succ.
func (g *grammarCtx) enter(pred, succ *ssa.BasicBlock, s gstate) gstate {
	idx := -1
	for i, pr := range succ.Preds {
		if pr == pred {
			idx = i
		}
	}
	for _, in := range succ.Instrs {
		ph, ok := in.(*ssa.Phi)
		if !ok {
			break
		}
		if _, isCounter := g.counters[ph]; !isCounter || idx < 0 {
			continue
		}
		if _, isConst := ph.Edges[idx].(*ssa.Const); isConst {
			s.flags = flagSet(s.flags, ph.Name(), 'F')
		} else {
			s.flags = flagSet(s.flags, ph.Name(), 'L')
		}
	}
	return s
}
