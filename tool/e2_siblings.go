package main

import (
	"fmt"
	"go/ast"
	"go/token"
	"go/types"
	"sort"
	"strings"

	"golang.org/x/tools/go/packages"
	"golang.org/x/tools/go/types/typeutil"
)

// E2 — sibling agreement: representation pairs (P1), arm sets of sibling
// switches (P2), mirrored branches (M1), polarity of the Circle relations
// (M2) and boundary polarity of ring tests (B1).  See DESIGN.md §3/E2.

type funcNode struct {
	fn  *types.Func
	fd  *ast.FuncDecl
	pkg *packages.Package
}

func (p *Program) repoFuncNodes() []funcNode {
	var out []funcNode
	for _, fn := range p.RepoDecls() {
		out = append(out, funcNode{fn, p.Decl(fn), p.DeclPkg(fn)})
	}
	return out
}

// ---- P1: representation pairs ----

type reprPair struct{ a, b string }

var reprPairs = []reprPair{{"Point", "SimplePoint"}}

// accessor-normalised rendering of a case body: v.base, v.Point, v.Center(),
// v.Base() of the switch-bound variable all become <pos>.
func (p *Program) normArmBody(pkg *packages.Package, body []ast.Stmt, bound types.Object) string {
	var sb strings.Builder
	for _, st := range body {
		s := &skel{}
		s.stmt(st, identity)
		sb.WriteString(s.namesKey() + " | " + s.opsKey() + " ; ")
	}
	out := sb.String()
	if bound == nil {
		return out
	}
	// textual normalisation on the skeleton: (sel NAME base) etc.
	name := bound.Name()
	for _, acc := range []string{"base", "Point"} {
		out = strings.ReplaceAll(out, "(sel "+name+" "+acc+" )", "<pos>")
	}
	for _, acc := range []string{"Center", "Base"} {
		out = strings.ReplaceAll(out, "(call (sel "+name+" "+acc+" ) )", "<pos>")
	}
	return out
}

func (p *Program) ruleP1(c *Check) {
	sites := 0
	for _, fnode := range p.repoFuncNodes() {
		info := fnode.pkg.TypesInfo
		fname := FuncName(fnode.fn)
		ast.Inspect(fnode.fd.Body, func(n ast.Node) bool {
			switch x := n.(type) {
			case *ast.TypeSwitchStmt:
				// collect case types
				arms := map[string]*ast.CaseClause{}
				for _, cl := range x.Body.List {
					cc := cl.(*ast.CaseClause)
					for _, te := range cc.List {
						t := info.TypeOf(te)
						if pt, ok := t.(*types.Pointer); ok {
							if nt, ok := types.Unalias(pt.Elem()).(*types.Named); ok && nt.Obj().Pkg() == p.Geojson.Types {
								arms[nt.Obj().Name()] = cc
							}
						}
					}
				}
				for _, pr := range reprPairs {
					ca, cb := arms[pr.a], arms[pr.b]
					if ca == nil && cb == nil {
						continue
					}
					sites++
					construct := fname + "#typeswitch{" + pr.a + "," + pr.b + "}"
					if ca == nil || cb == nil {
						missing := pr.a
						if cb == nil {
							missing = pr.b
						}
						o := c.Bad("E2.P1", construct, p.Pos(x.Pos()), "the type switch has an arm for one representation of a position but not for *"+missing+": the same position is answered differently depending on its representation")
						o.Expected = "arms for both *" + pr.a + " and *" + pr.b
						o.Observed = "no arm for *" + missing
						continue
					}
					// arm equality modulo accessor
					boundOf := func(cc *ast.CaseClause) types.Object { return info.Implicits[cc] }
					na := p.normArmBody(fnode.pkg, ca.Body, boundOf(ca))
					nb := p.normArmBody(fnode.pkg, cb.Body, boundOf(cb))
					if ca == cb || na == nb {
						c.OK("E2.P1", construct, p.Pos(x.Pos()), "both representations have arms that agree modulo the position accessor")
					} else if fname == "geojson.IsPoint" {
						// audited exception: IsPoint reports the Z value, which a SimplePoint does not have (0 by definition)
						c.OK("E2.P1", construct, p.Pos(x.Pos()), "both arms present; bodies differ by design (Z of a SimplePoint is 0) — audited exception")
					} else {
						o := c.Bad("E2.P1", construct, p.Pos(x.Pos()), "the *"+pr.a+" and *"+pr.b+" arms differ by more than the position accessor")
						o.Expected, o.Observed = na, nb
					}
				}
			case *ast.TypeAssertExpr:
				if x.Type == nil {
					return true
				}
				t := info.TypeOf(x.Type)
				pt, ok := t.(*types.Pointer)
				if !ok {
					return true
				}
				nt, ok := types.Unalias(pt.Elem()).(*types.Named)
				if !ok || nt.Obj().Pkg() != p.Geojson.Types {
					return true
				}
				for _, pr := range reprPairs {
					if nt.Obj().Name() != pr.a && nt.Obj().Name() != pr.b {
						continue
					}
					sites++
					other := pr.a
					if nt.Obj().Name() == pr.a {
						other = pr.b
					}
					// is there a sibling assertion on the same operand in the same function?
					found := false
					opnd := types.ExprString(x.X)
					ast.Inspect(fnode.fd.Body, func(m ast.Node) bool {
						if y, ok := m.(*ast.TypeAssertExpr); ok && y.Type != nil && y != x && types.ExprString(y.X) == opnd {
							if pt2, ok := info.TypeOf(y.Type).(*types.Pointer); ok {
								if n2, ok := types.Unalias(pt2.Elem()).(*types.Named); ok && n2.Obj().Name() == other {
									found = true
								}
							}
						}
						return true
					})
					construct := fname + "#assert(*" + nt.Obj().Name() + ")"
					if found {
						c.OK("E2.P1", construct, p.Pos(x.Pos()), "sibling assertion on *"+other+" present")
					} else {
						o := c.Bad("E2.P1", construct, p.Pos(x.Pos()), "the code tests for *"+nt.Obj().Name()+" only; a position parsed as *"+other+" (same value, other representation) takes a different path")
						o.Expected = "both *" + pr.a + " and *" + pr.b + " recognised"
						o.Observed = "only *" + nt.Obj().Name()
					}
				}
			}
			return true
		})
	}
	c.Count("representation_pair_sites", sites)
	c.Floor("E2.P1", sites, 3, "type tests on a representation pair")
}

// ---- P2: sibling switches ----

func (p *Program) switchArmTypes(fn *types.Func) (map[string]bool, token.Pos) {
	fd, pkg := p.Decl(fn), p.DeclPkg(fn)
	if fd == nil {
		return nil, token.NoPos
	}
	var out map[string]bool
	var pos token.Pos
	ast.Inspect(fd.Body, func(n ast.Node) bool {
		if ts, ok := n.(*ast.TypeSwitchStmt); ok && out == nil {
			out = map[string]bool{}
			pos = ts.Pos()
			for _, cl := range ts.Body.List {
				for _, te := range cl.(*ast.CaseClause).List {
					out[typeStr(pkg.TypesInfo.TypeOf(te))] = true
				}
			}
			return false
		}
		return true
	})
	return out, pos
}

func keys(m map[string]bool) []string {
	var out []string
	for k := range m {
		out = append(out, k)
	}
	sort.Strings(out)
	return out
}

func (p *Program) ruleP2(c *Check) {
	a := p.Method("geojson", "Circle", "Contains")
	b := p.Method("geojson", "Circle", "Intersects")
	if a == nil || b == nil {
		c.Undecided("E2.P2", "anchor:geojson.Circle.Contains/Intersects", "", "methods not found")
		return
	}
	sa, posa := p.switchArmTypes(a)
	sb, _ := p.switchArmTypes(b)
	if sa == nil || sb == nil {
		c.Undecided("E2.P2", FuncName(a)+"~"+FuncName(b), p.declPos(a), "the sibling relations no longer dispatch by type switch; arm agreement cannot be decided")
		return
	}
	ka, kb := strings.Join(keys(sa), ","), strings.Join(keys(sb), ",")
	construct := FuncName(a) + "~" + FuncName(b)
	if ka == kb {
		c.OK("E2.P2", construct, p.Pos(posa), "same case types in both relations: {"+ka+"}")
	} else {
		o := c.Bad("E2.P2", construct, p.Pos(posa), "Circle.Contains and Circle.Intersects special-case different operand kinds: an operand kind that one relation answers exactly falls to the polygon approximation in the other")
		o.Expected, o.Observed = "{"+ka+"}", "{"+kb+"}"
	}
	for _, want := range []string{"*geojson.Point", "*geojson.SimplePoint", "*geojson.Circle", "*geojson.Feature", "geojson.Collection"} {
		for _, pr := range []struct {
			fn *types.Func
			s  map[string]bool
		}{{a, sa}, {b, sb}} {
			c.Expect(pr.s[want], "E2.P2", FuncName(pr.fn)+"#arm("+want+")", p.declPos(pr.fn),
				"exact arm present", "the relation has no arm for "+want+" (C13: points by exact distance whatever their representation, circles by radii, features and collections unwrapped)")
		}
	}
}

// ---- M2: polarity ----

type signedAtom struct {
	what string
	sign int
}

func (p *Program) polarityAtoms(info *types.Info, e ast.Expr, sign int, recvObj, otherObj types.Object, out *[]signedAtom) {
	switch x := ast.Unparen(e).(type) {
	case *ast.BinaryExpr:
		switch x.Op {
		case token.ADD:
			p.polarityAtoms(info, x.X, sign, recvObj, otherObj, out)
			p.polarityAtoms(info, x.Y, sign, recvObj, otherObj, out)
			return
		case token.SUB:
			p.polarityAtoms(info, x.X, sign, recvObj, otherObj, out)
			p.polarityAtoms(info, x.Y, -sign, recvObj, otherObj, out)
			return
		}
	case *ast.UnaryExpr:
		if x.Op == token.SUB {
			p.polarityAtoms(info, x.X, -sign, recvObj, otherObj, out)
			return
		}
	case *ast.SelectorExpr:
		if id, ok := x.X.(*ast.Ident); ok && (x.Sel.Name == "meters" || x.Sel.Name == "haversine") {
			switch info.Uses[id] {
			case recvObj:
				*out = append(*out, signedAtom{"recv." + x.Sel.Name, sign})
				return
			case otherObj:
				*out = append(*out, signedAtom{"other." + x.Sel.Name, sign})
				return
			}
		}
	case *ast.CallExpr:
		if fn, ok := typeutil.Callee(info, x).(*types.Func); ok {
			switch fn.Name() {
			case "Distance", "DistanceTo", "geoDistancePoints", "Haversine", "HaversineTo":
				*out = append(*out, signedAtom{"distance", sign})
				return
			case "Meters":
				*out = append(*out, signedAtom{"radius-accessor", sign})
				return
			}
		}
	}
	*out = append(*out, signedAtom{"?" + types.ExprString(e), sign})
}

func (p *Program) ruleM2(c *Check) {
	circle := p.Named("geojson", "Circle")
	for _, rel := range []string{"Contains", "Intersects"} {
		fn := p.Method("geojson", "Circle", rel)
		fd, pkg := p.Decl(fn), p.DeclPkg(fn)
		construct := "(*geojson.Circle)." + rel + "#arm(*Circle)"
		if fd == nil || circle == nil {
			c.Undecided("E2.M2", construct, "", "method not found")
			continue
		}
		info := pkg.TypesInfo
		var recvObj types.Object
		if fd.Recv != nil && len(fd.Recv.List) > 0 && len(fd.Recv.List[0].Names) > 0 {
			recvObj = info.Defs[fd.Recv.List[0].Names[0]]
		}
		var arm *ast.CaseClause
		ast.Inspect(fd.Body, func(n ast.Node) bool {
			if ts, ok := n.(*ast.TypeSwitchStmt); ok {
				for _, cl := range ts.Body.List {
					cc := cl.(*ast.CaseClause)
					for _, te := range cc.List {
						if types.Identical(info.TypeOf(te), types.NewPointer(circle)) && len(cc.List) == 1 {
							arm = cc
						}
					}
				}
			}
			return true
		})
		if arm == nil {
			continue // reported by P2
		}
		if len(arm.Body) != 1 {
			c.Undecided("E2.M2", construct, p.Pos(arm.Pos()), "the *Circle arm is not a single return of a comparison")
			continue
		}
		ret, ok := arm.Body[0].(*ast.ReturnStmt)
		var cmp *ast.BinaryExpr
		otherObj := info.Implicits[arm]
		if ok && len(ret.Results) == 1 {
			cmp, _ = ast.Unparen(ret.Results[0]).(*ast.BinaryExpr)
			// the comparison may live in a helper method: return g.helper(other)
			for depth := 0; cmp == nil && depth < 2; depth++ {
				call, isCall := ast.Unparen(ret.Results[0]).(*ast.CallExpr)
				if !isCall || len(call.Args) != 1 {
					break
				}
				callee, _ := typeutil.Callee(info, call).(*types.Func)
				hfd, hpkg := p.Decl(callee), p.DeclPkg(callee)
				if hfd == nil || hfd.Recv == nil || len(hfd.Body.List) != 1 || len(hfd.Type.Params.List) != 1 || len(hfd.Type.Params.List[0].Names) != 1 {
					break
				}
				hret, isRet := hfd.Body.List[0].(*ast.ReturnStmt)
				if !isRet || len(hret.Results) != 1 {
					break
				}
				info = hpkg.TypesInfo
				recvObj = info.Defs[hfd.Recv.List[0].Names[0]]
				otherObj = info.Defs[hfd.Type.Params.List[0].Names[0]]
				ret = hret
				cmp, _ = ast.Unparen(hret.Results[0]).(*ast.BinaryExpr)
			}
		}
		if cmp == nil || !(cmp.Op == token.LSS || cmp.Op == token.LEQ || cmp.Op == token.GTR || cmp.Op == token.GEQ) {
			c.Undecided("E2.M2", construct, p.Pos(arm.Pos()), "the *Circle arm is not a single return of an order comparison")
			continue
		}
		l, r, op := cmp.X, cmp.Y, cmp.Op
		if f, ok := flipCmp(op); ok {
			l, r, op = r, l, f
		}
		var atoms []signedAtom
		p.polarityAtoms(info, l, -1, recvObj, otherObj, &atoms)
		p.polarityAtoms(info, r, +1, recvObj, otherObj, &atoms)
		got := map[string]int{}
		unknown := ""
		for _, a := range atoms {
			if strings.HasPrefix(a.what, "?") {
				unknown = a.what
			}
			got[a.what] += a.sign
		}
		want := map[string]int{"distance": -1, "recv.meters": +1, "other.meters": +1}
		wantTxt := "centre distance <= radius + other radius"
		if rel == "Contains" {
			want["other.meters"] = -1
			wantTxt = "centre distance + other radius <= radius"
		}
		render := func(m map[string]int) string {
			var ks []string
			for k := range m {
				ks = append(ks, k)
			}
			sort.Strings(ks)
			var parts []string
			for _, k := range ks {
				parts = append(parts, fmt.Sprintf("%s:%+d", k, m[k]))
			}
			return strings.Join(parts, " ")
		}
		if unknown != "" {
			c.Undecided("E2.M2", construct, p.Pos(cmp.Pos()), "unrecognised term "+unknown+" in the circle/circle comparison")
			continue
		}
		same := len(got) == len(want)
		for k, v := range want {
			if got[k] != v {
				same = false
			}
		}
		if same && op == token.LEQ {
			c.OK("E2.M2", construct, p.Pos(cmp.Pos()), "polarity and inclusiveness match: "+wantTxt)
		} else {
			o := c.Bad("E2.M2", construct, p.Pos(cmp.Pos()), "the circle/circle test has the wrong monotonicity or strictness for '"+rel+"' (C13: "+wantTxt+")")
			o.Expected = render(want) + " with <="
			o.Observed = render(got) + " with " + op.String()
		}
	}
	// containsPoint: h(p, centre) <= haversine, nothing else
	cp := p.Method("geojson", "Circle", "containsPoint")
	if cp == nil {
		c.Undecided("E2.M2", "anchor:(*geojson.Circle).containsPoint", "", "method not found")
		return
	}
	sh, ok := p.shapeOf(cp)
	construct := FuncName(cp)
	if !ok || !sh.pureForwarder() {
		c.Bad("E2.M2", construct, p.declPos(cp), "containsPoint must be the single great-circle comparison; an early return or extra condition makes membership depend on something other than the distance to the centre (C13)")
		return
	}
	t := p.inlineIn(sh.final(), 3, p.Geojson.Types)
	// canonical comparison: (>= a b) is (<= b a)
	if t.Kind == "op" && t.Name == ">=" && len(t.Args) == 2 {
		t = tOp("<=", t.Args[1], t.Args[0])
	}
	center := p.Field("geojson", "Circle", "center")
	hav := p.Field("geojson", "Circle", "haversine")
	met := p.Field("geojson", "Circle", "meters")
	px, py := p.Field("geometry", "Point", "X"), p.Field("geometry", "Point", "Y")
	cy, cx := tField(tField(tRecv(), center), py), tField(tField(tRecv(), center), px)
	qy, qx := tField(tParam(0), py), tField(tParam(0), px)
	okForm := false
	for _, cand := range []struct {
		fn  *types.Func
		rad *types.Var
	}{{p.Func("geo", "Haversine"), hav}, {p.Func("geo", "DistanceTo"), met}} {
		if cand.fn == nil || cand.rad == nil {
			continue
		}
		for _, args := range [][]*Term{{qy, qx, cy, cx}, {cy, cx, qy, qx}} {
			want := tOp("<=", tCall(cand.fn, nil, args...), tField(tRecv(), cand.rad))
			if t.String() == want.String() {
				okForm = true
			}
		}
	}
	if okForm {
		c.OK("E2.M2", construct, p.declPos(cp), "point membership is distance(point, centre) <= radius: "+t.String())
	} else {
		o := c.Bad("E2.M2", construct, p.declPos(cp), "point membership is not the inclusive great-circle comparison against the circle's own centre and radius")
		o.Expected = "geo.Haversine(p.Y, p.X, center.Y, center.X) <= haversine  (or DistanceTo … <= meters)"
		o.Observed = t.String()
	}
	// Point / SimplePoint arms go through containsPoint on the operand's position
	for _, rel := range []string{"Contains", "Intersects"} {
		fn := p.Method("geojson", "Circle", rel)
		fd, pkg := p.Decl(fn), p.DeclPkg(fn)
		if fd == nil {
			continue
		}
		info := pkg.TypesInfo
		ast.Inspect(fd.Body, func(n ast.Node) bool {
			ts, ok := n.(*ast.TypeSwitchStmt)
			if !ok {
				return true
			}
			for _, cl := range ts.Body.List {
				cc := cl.(*ast.CaseClause)
				for _, te := range cc.List {
					ts := typeStr(info.TypeOf(te))
					if ts != "*geojson.Point" && ts != "*geojson.SimplePoint" {
						continue
					}
					con := "(*geojson.Circle)." + rel + "#arm(" + ts + ")"
					good := false
					if len(cc.Body) == 1 {
						if ret, ok := cc.Body[0].(*ast.ReturnStmt); ok && len(ret.Results) == 1 {
							if call, ok := ast.Unparen(ret.Results[0]).(*ast.CallExpr); ok {
								if callee, _ := typeutil.Callee(info, call).(*types.Func); callee == cp && len(call.Args) == 1 {
									arg := types.ExprString(call.Args[0])
									bound := ""
									if o := info.Implicits[cc]; o != nil {
										bound = o.Name()
									}
									if arg == bound+".Center()" || arg == bound+".base" || arg == bound+".Point" || arg == bound+".Base()" {
										good = true
									}
								}
							}
						}
					}
					c.Expect(good, "E2.M2", con, p.Pos(cc.Pos()), "the point arm is containsPoint(position of the operand)",
						"the point arm must return containsPoint(<position of the operand>)")
				}
			}
			return false
		})
	}
}

// ---- B1: boundary polarity of ring tests ----

var ringKernels = []string{"ringContainsPoint", "ringIntersectsPoint", "ringContainsSegment", "ringIntersectsSegment",
	"ringContainsRing", "ringIntersectsRing", "ringContainsLine", "ringIntersectsLine"}

// ringProvenance classifies an expression used as a ring argument.
func ringProvenance(info *types.Info, e ast.Expr, rangeOf map[types.Object]ast.Expr, geomRect *types.Named) string {
	return ringProvenanceP(info, e, rangeOf, geomRect, nil)
}

// ringProvenanceP: paramProv (optional) tells what the caller(s) pass for a parameter.
func ringProvenanceP(info *types.Info, e ast.Expr, rangeOf map[types.Object]ast.Expr, geomRect *types.Named, paramProv func(types.Object) string) string {
	e = ast.Unparen(e)
	switch x := e.(type) {
	case *ast.SelectorExpr:
		if x.Sel.Name == "Exterior" {
			return "exterior"
		}
		if x.Sel.Name == "Holes" {
			return "holes"
		}
	case *ast.Ident:
		if o := info.Uses[x]; o != nil {
			if src, ok := rangeOf[o]; ok {
				if sel, ok := ast.Unparen(src).(*ast.SelectorExpr); ok && sel.Sel.Name == "Holes" {
					return "hole"
				}
				// ranging over a parameter that the callers fill with a polygon's holes
				if id, ok := ast.Unparen(src).(*ast.Ident); ok && paramProv != nil {
					if po := info.Uses[id]; po != nil && paramProv(po) == "holes" {
						return "hole"
					}
				}
			}
			if paramProv != nil {
				if pv := paramProv(o); pv == "exterior" || pv == "hole" || pv == "rect" {
					return pv
				}
			}
			if nt, ok := types.Unalias(o.Type()).(*types.Named); ok && nt == geomRect {
				return "rect"
			}
		}
	case *ast.CallExpr:
		// conversions Ring(x)
		if len(x.Args) == 1 {
			if tv, ok := info.Types[x.Fun]; ok && tv.IsType() {
				return ringProvenance(info, x.Args[0], rangeOf, geomRect)
			}
		}
	case *ast.IndexExpr:
		if sel, ok := ast.Unparen(x.X).(*ast.SelectorExpr); ok && sel.Sel.Name == "Holes" {
			return "hole"
		}
		// indexing a parameter that the callers fill with a polygon's holes
		if id, ok := ast.Unparen(x.X).(*ast.Ident); ok && paramProv != nil {
			if po := info.Uses[id]; po != nil && paramProv(po) == "holes" {
				return "hole"
			}
		}
	}
	return "unknown"
}

func (p *Program) ruleB1(c *Check, onlyKernels map[string]bool) {
	kern := map[*types.Func]bool{}
	for _, k := range ringKernels {
		if f := p.Func("geometry", k); f != nil {
			kern[f] = true
		}
	}
	geomRect := p.Named("geometry", "Rect")
	sites := 0
	for _, fnode := range p.repoFuncNodes() {
		if fnode.pkg != p.Geom {
			continue
		}
		info := fnode.pkg.TypesInfo
		fname := FuncName(fnode.fn)
		// parameter named allowOnEdge of the enclosing function (ring.go pass-through)
		var flagParam types.Object
		for _, f := range fnode.fd.Type.Params.List {
			for _, n := range f.Names {
				if b, ok := info.TypeOf(f.Type).(*types.Basic); ok && b.Kind() == types.Bool {
					flagParam = info.Defs[n]
				}
			}
		}
		rangeOf := map[types.Object]ast.Expr{}
		ast.Inspect(fnode.fd.Body, func(n ast.Node) bool {
			if rs, ok := n.(*ast.RangeStmt); ok {
				if id, ok := rs.Value.(*ast.Ident); ok {
					if o := info.Defs[id]; o != nil {
						rangeOf[o] = rs.X
					}
				}
			}
			return true
		})
		idx := map[string]int{}
		ast.Inspect(fnode.fd.Body, func(n ast.Node) bool {
			call, ok := n.(*ast.CallExpr)
			if !ok {
				return true
			}
			callee, _ := typeutil.Callee(info, call).(*types.Func)
			if callee == nil || !kern[callee] || len(call.Args) != 3 {
				return true
			}
			if onlyKernels != nil && !onlyKernels[callee.Name()] {
				return true
			}
			sites++
			idx[callee.Name()]++
			flag := ast.Unparen(call.Args[2])
			construct := fmt.Sprintf("%s: %s(%s, %s)", fname, callee.Name(), types.ExprString(call.Args[0]), types.ExprString(call.Args[1]))
			if kern[fnode.fn] || (flagParam != nil && fnode.fn.Name() != "ContainsPoly") && isRingHelper(fnode.fn) {
				// inside the ring kernels the flag must be passed through unchanged
				id, ok := flag.(*ast.Ident)
				if ok && flagParam != nil && info.Uses[id] == flagParam {
					c.OK("E2.B1", construct, p.Pos(call.Pos()), "allowOnEdge passed through unchanged")
				} else {
					o := c.Bad("E2.B1", construct, p.Pos(call.Pos()), "a ring kernel must hand its own allowOnEdge flag to the kernels it calls; a constant or modified flag changes the boundary convention half-way down")
					o.Expected, o.Observed = "allowOnEdge", types.ExprString(flag)
				}
				return true
			}
			tv := info.Types[flag]
			if tv.Value == nil {
				c.Undecided("E2.B1", construct, p.Pos(call.Pos()), "allowOnEdge is not a constant at this call site; the boundary convention cannot be decided")
				return true
			}
			got := tv.Value.ExactString() == "true"
			pp := p.paramProvenance(fnode, geomRect)
			p0 := ringProvenanceP(info, call.Args[0], rangeOf, geomRect, pp)
			p1 := ringProvenanceP(info, call.Args[1], rangeOf, geomRect, pp)
			var want bool
			var why string
			switch {
			case p0 == "hole" && p1 == "hole":
				want, why = true, "a hole of the contained polygon may cover a hole of the container inclusively"
			case p0 == "hole":
				want, why = false, "holes are open: their boundary belongs to the polygon"
			case p0 == "exterior" || p0 == "rect":
				want, why = true, "exterior rings (and rectangles) are closed"
			default:
				c.Undecided("E2.B1", construct, p.Pos(call.Pos()), "cannot tell whether the ring operand is an exterior or a hole")
				return true
			}
			if got == want {
				c.OK("E2.B1", construct, p.Pos(call.Pos()), fmt.Sprintf("allowOnEdge=%v: %s", got, why))
			} else {
				o := c.Bad("E2.B1", construct, p.Pos(call.Pos()), "wrong boundary convention: "+why)
				o.Expected, o.Observed = fmt.Sprint(want), fmt.Sprint(got)
			}
			return true
		})
	}
	c.Count("ring_kernel_call_sites", sites)
	if onlyKernels == nil {
		c.Floor("E2.B1", sites, 20, "ring-kernel call sites")
	}
}

func isRingHelper(fn *types.Func) bool {
	return strings.HasPrefix(fn.Name(), "ring") || fn.Name() == "containsPointSearcher"
}

// ruleB1Searcher: the parity accumulator of point-in-ring, judged by what it
// does for every outcome of the ray cast (the function is run abstractly
// with Raycast as an opaque atom): 'on' => result = allowOnEdge, the index
// of the edge is reported and the scan stops; 'in' => the parity toggles and
// the scan goes on; otherwise nothing changes.
func (p *Program) ruleB1Searcher(c *Check) {
	raycast := p.Method("geometry", "Segment", "Raycast")
	n := 0
	for _, fnode := range p.repoFuncNodes() {
		if fnode.pkg != p.Geom || raycast == nil {
			continue
		}
		info := fnode.pkg.TypesInfo
		var boolPtr, flag, idxPtr types.Object
		var boolPtrIdx, flagIdx int
		i := 0
		for _, f := range fnode.fd.Type.Params.List {
			t := info.TypeOf(f.Type)
			for _, nm := range f.Names {
				if pt, ok := t.(*types.Pointer); ok {
					if b, ok := pt.Elem().(*types.Basic); ok {
						if b.Kind() == types.Bool {
							boolPtr, boolPtrIdx = info.Defs[nm], i
						} else if b.Info()&types.IsInteger != 0 {
							idxPtr = info.Defs[nm]
						}
					}
				}
				if b, ok := t.(*types.Basic); ok && b.Kind() == types.Bool {
					flag, flagIdx = info.Defs[nm], i
				}
				i++
			}
		}
		if boolPtr == nil || flag == nil {
			continue
		}
		calls := mentions(fnode.fd.Body, func(m ast.Node) bool {
			call, ok := m.(*ast.CallExpr)
			if !ok {
				return false
			}
			callee, _ := typeutil.Callee(info, call).(*types.Func)
			return callee == raycast
		})
		if !calls {
			continue
		}
		n++
		_ = idxPtr
		fname := FuncName(fnode.fn)
		inName, flagName := fmt.Sprintf("p%d", boolPtrIdx), fmt.Sprintf("p%d", flagIdx)
		row := &e8row{id: fname, fn: fnode.fn, opaque: map[*types.Func]bool{raycast: true},
			what: "ray-cast accumulator: on the boundary the result is the allowOnEdge flag and the scan stops; a crossing toggles the parity and the scan continues; otherwise nothing changes",
			spec: func(a *e8assign, n *e8names, out *e8out) string {
				var onB, inB string
				for _, b := range n.bools {
					if strings.HasPrefix(b, "Raycast(") && strings.HasSuffix(b, ".On") {
						onB = b
					}
					if strings.HasPrefix(b, "Raycast(") && strings.HasSuffix(b, ".In") {
						inB = b
					}
				}
				if onB == "" || inB == "" {
					return "the On/In results of the ray cast are not both consulted"
				}
				cont, ok := retBool(out)
				if !ok {
					return "the accumulator does not return whether to continue"
				}
				res := out.fr.vars[boolPtr]
				if res == nil || res.k != kBool {
					return "the result flag is not a boolean"
				}
				now := res.b
				if res.name != "" {
					now = a.B(res.name)
				}
				before, flagV := a.B(inName), a.B(flagName)
				switch {
				case a.B(onB):
					if now != flagV {
						return "on the boundary the result is not the allowOnEdge flag"
					}
					if cont {
						return "the scan continues after a boundary hit (later crossings would toggle the result)"
					}
				case a.B(inB):
					if now != !before {
						return "a crossing does not toggle the parity"
					}
					if !cont {
						return "the scan stops after a crossing"
					}
				default:
					if now != before {
						return "the parity changes without a crossing"
					}
					if !cont {
						return "the scan stops although nothing was hit"
					}
				}
				return ""
			}}
		// the result flag is read through the pointer: make sure both booleans are enumerated
		row.atoms = nil
		before := len(c.Obs)
		p.runE8(c, row)
		for _, o := range c.Obs[before:] {
			o.Rule = "E2.B1p"
		}
	}
	c.Floor("E2.B1p", n, 1, "ray-cast parity accumulators")
}

// ---- M1: mirrored branches ----

// swapCandidate finds, in a condition, the first comparison of the same field
// of two different identifiers (a.Y < b.Y) and returns the identifier names.
func swapCandidate(cond ast.Expr) (string, string, bool) {
	cond = ast.Unparen(cond)
	if b, ok := cond.(*ast.BinaryExpr); ok {
		if b.Op == token.LAND {
			return swapCandidate(b.X)
		}
		if isCmp(b.Op) {
			l, ok1 := ast.Unparen(b.X).(*ast.SelectorExpr)
			r, ok2 := ast.Unparen(b.Y).(*ast.SelectorExpr)
			if ok1 && ok2 && l.Sel.Name == r.Sel.Name {
				li, ok3 := l.X.(*ast.Ident)
				ri, ok4 := r.X.(*ast.Ident)
				if ok3 && ok4 && li.Name != ri.Name {
					return li.Name, ri.Name, true
				}
			}
		}
	}
	return "", "", false
}

func (p *Program) compareMirror(c *Check, construct string, pos token.Pos, a, b *skel, what string) bool {
	if a.namesKey() != b.namesKey() {
		return false // not a mirror instance
	}
	if a.opsKey() == b.opsKey() {
		c.OK("E2.M1", construct, p.Pos(pos), what+": exact mirror")
		return true
	}
	// names agree, operators/constants differ: a contradiction between siblings
	diff := ""
	at := pos
	for i := range a.ops {
		if i < len(b.ops) && a.ops[i] != b.ops[i] {
			diff = fmt.Sprintf("%q vs %q", a.ops[i], b.ops[i])
			if i < len(b.pos) {
				at = b.pos[i]
			}
			break
		}
	}
	o := c.Bad("E2.M1", construct, p.Pos(at), what+": the two halves are the same code up to the swap, except for an operator or constant ("+diff+"): one side handles a case its mirror does not")
	o.Expected, o.Observed = a.opsKey(), b.opsKey()
	return true
}

func (p *Program) ruleM1(c *Check, fnNames map[string]bool) {
	n := 0
	for _, fnode := range p.repoFuncNodes() {
		if !p.IsRepoPkg(fnode.fn.Pkg()) {
			continue
		}
		fname := FuncName(fnode.fn)
		if fnNames != nil && !fnNames[fname] {
			continue
		}
		counter := 0
		ast.Inspect(fnode.fd.Body, func(nd ast.Node) bool {
			switch x := nd.(type) {
			case *ast.IfStmt:
				if x.Else == nil || x.Init != nil {
					return true
				}
				u, v, ok := swapCandidate(x.Cond)
				if !ok {
					return true
				}
				rn := swapRenamer("id", u, v)
				counter++
				construct := fmt.Sprintf("%s#mirror%d[%s<->%s]", fname, counter, u, v)
				switch e := x.Else.(type) {
				case *ast.BlockStmt:
					if p.compareMirror(c, construct, x.Pos(), skelOfStmt(x.Body, rn), skelOfStmt(e, identity), "then/else under "+u+"<->"+v) {
						n++
					}
				case *ast.IfStmt:
					if e.Else != nil || e.Init != nil {
						return true
					}
					a, b := &skel{}, &skel{}
					a.expr(x.Cond, rn)
					a.block(x.Body, rn)
					b.expr(e.Cond, identity)
					b.block(e.Body, identity)
					if p.compareMirror(c, construct, x.Pos(), a, b, "if/else-if under "+u+"<->"+v) {
						n++
					}
				}
			case *ast.BlockStmt:
				// axis pairs: statement S that mentions only .X and a later
				// statement T that mentions only .Y with S[X->Y] == T by names
				for i, s := range x.List {
					if _, ok := s.(*ast.IfStmt); !ok {
						if _, ok := s.(*ast.AssignStmt); !ok {
							continue
						}
					}
					m := mentionsFields(s, "X", "Y")
					if !(m["X"] && !m["Y"]) {
						continue
					}
					a := skelOfStmt(s, swapRenamer("field", "X", "Y"))
					for _, t := range x.List[i+1:] {
						mt := mentionsFields(t, "X", "Y")
						if !(mt["Y"] && !mt["X"]) {
							continue
						}
						b := skelOfStmt(t, identity)
						if a.namesKey() != b.namesKey() {
							continue
						}
						counter++
						construct := fmt.Sprintf("%s#axis%d[X<->Y]", fname, counter)
						if p.compareMirror(c, construct, t.Pos(), a, b, "X statement and its Y twin") {
							n++
						}
						break
					}
				}
			}
			return true
		})
	}
	c.Count("mirror_instances", n)
}

// paramProvenance: what the callers of a helper pass for its ring-typed (or
// []Ring-typed) parameters: "exterior", "hole", "holes", "rect" — when all call
// sites agree — else "".
func (p *Program) paramProvenance(fnode funcNode, geomRect *types.Named) func(types.Object) string {
	info := fnode.pkg.TypesInfo
	params := map[types.Object]int{}
	i := 0
	for _, f := range fnode.fd.Type.Params.List {
		for _, n := range f.Names {
			params[info.Defs[n]] = i
			i++
		}
	}
	cache := map[types.Object]string{}
	return func(o types.Object) string {
		idx, ok := params[o]
		if !ok {
			return ""
		}
		if v, ok := cache[o]; ok {
			return v
		}
		cache[o] = ""
		res := ""
		first := true
		for _, other := range p.repoFuncNodes() {
			if other.pkg != fnode.pkg {
				continue
			}
			oinfo := other.pkg.TypesInfo
			rangeOf := map[types.Object]ast.Expr{}
			ast.Inspect(other.fd.Body, func(n ast.Node) bool {
				if rs, ok := n.(*ast.RangeStmt); ok {
					if id, ok := rs.Value.(*ast.Ident); ok {
						if ob := oinfo.Defs[id]; ob != nil {
							rangeOf[ob] = rs.X
						}
					}
				}
				return true
			})
			ast.Inspect(other.fd.Body, func(n ast.Node) bool {
				call, ok := n.(*ast.CallExpr)
				if !ok {
					return true
				}
				callee, _ := typeutil.Callee(oinfo, call).(*types.Func)
				if callee != fnode.fn || idx >= len(call.Args) {
					return true
				}
				pv := ringProvenance(oinfo, call.Args[idx], rangeOf, geomRect)
				if first {
					res, first = pv, false
				} else if res != pv {
					res = "unknown"
				}
				return true
			})
		}
		if res == "unknown" {
			res = ""
		}
		cache[o] = res
		return res
	}
}
