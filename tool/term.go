package main

import (
	"fmt"
	"go/ast"
	"go/constant"
	"go/token"
	"go/types"
	"strings"

	"golang.org/x/tools/go/packages"
	"golang.org/x/tools/go/types/typeutil"
)

// Term is a symbolic expression over the receiver and parameters of a
// function (E1 return terms).  Two terms are compared by their canonical
// string, which names functions and fields by their resolved objects.
type Term struct {
	Kind    string // recv param role field addr deref call lit const conv assert op opaque
	Name    string // param name, role name, const value, operator, opaque text
	Idx     int    // param index
	Fn      *types.Func
	Var     *types.Var
	Type    types.Type
	Args    []*Term // call: receiver first when HasRecv
	Keys    []string
	HasRecv bool
}

func tRecv() *Term          { return &Term{Kind: "recv"} }
func tParam(i int) *Term    { return &Term{Kind: "param", Idx: i} }
func tRole(n string) *Term  { return &Term{Kind: "role", Name: n} }
func tAddr(x *Term) *Term   { return &Term{Kind: "addr", Args: []*Term{x}} }
func tConst(v string) *Term { return &Term{Kind: "const", Name: v} }
func tField(x *Term, v *types.Var) *Term {
	return &Term{Kind: "field", Var: v, Args: []*Term{x}}
}
func tCall(fn *types.Func, recv *Term, args ...*Term) *Term {
	t := &Term{Kind: "call", Fn: fn}
	if recv != nil {
		t.HasRecv = true
		t.Args = append(t.Args, recv)
	}
	t.Args = append(t.Args, args...)
	return t
}
func tOp(op string, args ...*Term) *Term { return &Term{Kind: "op", Name: op, Args: args} }

func typeStr(t types.Type) string {
	return types.TypeString(t, func(p *types.Package) string { return p.Name() })
}

func fieldStr(v *types.Var) string {
	if v == nil {
		return "?"
	}
	return v.Name()
}

func (t *Term) String() string {
	if t == nil {
		return "<nil>"
	}
	switch t.Kind {
	case "recv":
		return "recv"
	case "param":
		return fmt.Sprintf("p%d", t.Idx)
	case "role":
		return "<" + t.Name + ">"
	case "field":
		return t.Args[0].String() + "." + fieldStr(t.Var)
	case "addr":
		return "&" + t.Args[0].String()
	case "deref":
		return "*" + t.Args[0].String()
	case "const":
		return t.Name
	case "conv":
		return typeStr(t.Type) + "(" + t.Args[0].String() + ")"
	case "assert":
		return t.Args[0].String() + ".(" + typeStr(t.Type) + ")"
	case "lit":
		var parts []string
		for i, a := range t.Args {
			k := ""
			if i < len(t.Keys) && t.Keys[i] != "" {
				k = t.Keys[i] + ":"
			}
			parts = append(parts, k+a.String())
		}
		return typeStr(t.Type) + "{" + strings.Join(parts, ",") + "}"
	case "op":
		var parts []string
		for _, a := range t.Args {
			parts = append(parts, a.String())
		}
		return "(" + t.Name + " " + strings.Join(parts, " ") + ")"
	case "call":
		var parts []string
		for _, a := range t.Args {
			parts = append(parts, a.String())
		}
		return FuncName(t.Fn) + "(" + strings.Join(parts, ", ") + ")"
	case "opaque":
		return "?[" + t.Name + "]"
	}
	return "?" + t.Kind
}

func (t *Term) HasOpaque() bool {
	if t == nil {
		return true
	}
	if t.Kind == "opaque" {
		return true
	}
	for _, a := range t.Args {
		if a.HasOpaque() {
			return true
		}
	}
	return false
}

// subst replaces recv/param leaves.
func (t *Term) subst(recv *Term, params []*Term) *Term {
	switch t.Kind {
	case "recv":
		if recv != nil {
			return recv
		}
		return t
	case "param":
		if t.Idx < len(params) && params[t.Idx] != nil {
			return params[t.Idx]
		}
		return t
	}
	if len(t.Args) == 0 {
		return t
	}
	n := *t
	n.Args = make([]*Term, len(t.Args))
	for i, a := range t.Args {
		n.Args[i] = a.subst(recv, params)
	}
	return &n
}

// termEnv maps objects (receiver, parameters, locally bound names) to terms.
type termEnv struct {
	info *types.Info
	bind map[types.Object]*Term
}

func newTermEnv(pkg *packages.Package, fd *ast.FuncDecl) *termEnv {
	env := &termEnv{info: pkg.TypesInfo, bind: map[types.Object]*Term{}}
	if fd.Recv != nil {
		for _, f := range fd.Recv.List {
			for _, n := range f.Names {
				if o := pkg.TypesInfo.Defs[n]; o != nil {
					env.bind[o] = tRecv()
				}
			}
		}
	}
	i := 0
	for _, f := range fd.Type.Params.List {
		if len(f.Names) == 0 {
			i++
			continue
		}
		for _, n := range f.Names {
			if o := pkg.TypesInfo.Defs[n]; o != nil {
				env.bind[o] = tParam(i)
			}
			i++
		}
	}
	return env
}

func exprText(e ast.Expr) string { return types.ExprString(e) }

func (env *termEnv) term(e ast.Expr) *Term {
	info := env.info
	if tv, ok := info.Types[e]; ok && tv.Value != nil {
		return tConst(tv.Value.ExactString())
	}
	switch x := e.(type) {
	case *ast.ParenExpr:
		return env.term(x.X)
	case *ast.Ident:
		o := info.Uses[x]
		if o == nil {
			o = info.Defs[x]
		}
		if t, ok := env.bind[o]; ok {
			return t
		}
		switch o := o.(type) {
		case *types.Nil:
			return tConst("nil")
		case *types.Const:
			return tConst(o.Val().ExactString())
		case *types.Var:
			if o.Pkg() != nil && o.Parent() == o.Pkg().Scope() {
				return &Term{Kind: "opaque", Name: "global " + o.Pkg().Name() + "." + o.Name()}
			}
		}
		return &Term{Kind: "opaque", Name: x.Name}
	case *ast.SelectorExpr:
		if sel, ok := info.Selections[x]; ok {
			switch sel.Kind() {
			case types.FieldVal:
				base := env.term(x.X)
				// walk the (possibly promoted) path
				t := sel.Recv()
				for _, idx := range sel.Index() {
					if p, ok := t.Underlying().(*types.Pointer); ok {
						t = p.Elem()
					}
					st, ok := t.Underlying().(*types.Struct)
					if !ok {
						return &Term{Kind: "opaque", Name: exprText(e)}
					}
					f := st.Field(idx)
					base = tField(base, f)
					t = f.Type()
				}
				return base
			case types.MethodVal:
				return &Term{Kind: "opaque", Name: "methodvalue " + exprText(e)}
			}
		}
		if o, ok := info.Uses[x.Sel]; ok {
			switch o := o.(type) {
			case *types.Const:
				return tConst(o.Val().ExactString())
			case *types.Var:
				return &Term{Kind: "opaque", Name: "global " + exprText(e)}
			}
		}
		return &Term{Kind: "opaque", Name: exprText(e)}
	case *ast.StarExpr:
		return &Term{Kind: "deref", Args: []*Term{env.term(x.X)}}
	case *ast.UnaryExpr:
		if x.Op == token.AND {
			return tAddr(env.term(x.X))
		}
		return tOp(x.Op.String(), env.term(x.X))
	case *ast.BinaryExpr:
		return tOp(x.Op.String(), env.term(x.X), env.term(x.Y))
	case *ast.TypeAssertExpr:
		if x.Type == nil {
			return &Term{Kind: "opaque", Name: exprText(e)}
		}
		return &Term{Kind: "assert", Type: info.TypeOf(x.Type), Args: []*Term{env.term(x.X)}}
	case *ast.CompositeLit:
		t := &Term{Kind: "lit", Type: info.TypeOf(x)}
		for _, el := range x.Elts {
			if kv, ok := el.(*ast.KeyValueExpr); ok {
				t.Keys = append(t.Keys, exprText(kv.Key))
				t.Args = append(t.Args, env.term(kv.Value))
			} else {
				t.Keys = append(t.Keys, "")
				t.Args = append(t.Args, env.term(el))
			}
		}
		return t
	case *ast.BasicLit:
		return tConst(x.Value)
	case *ast.CallExpr:
		if tv, ok := info.Types[x.Fun]; ok && tv.IsType() {
			if len(x.Args) == 1 {
				return &Term{Kind: "conv", Type: tv.Type, Args: []*Term{env.term(x.Args[0])}}
			}
		}
		callee := typeutil.Callee(info, x)
		fn, ok := callee.(*types.Func)
		if !ok {
			if b, ok := callee.(*types.Builtin); ok {
				args := []*Term{}
				for _, a := range x.Args {
					args = append(args, env.term(a))
				}
				return tOp("builtin:"+b.Name(), args...)
			}
			return &Term{Kind: "opaque", Name: "dyncall " + exprText(x.Fun)}
		}
		var recv *Term
		if sel, ok := ast.Unparen(x.Fun).(*ast.SelectorExpr); ok {
			if s, ok := info.Selections[sel]; ok && s.Kind() == types.MethodVal {
				recv = env.term(sel.X)
				// normalise implicit & and * on the receiver so that
				// g.base.M() and (&g.base).M() are the same term
				if sig, ok := fn.Type().(*types.Signature); ok && sig.Recv() != nil {
					_, wantPtr := sig.Recv().Type().(*types.Pointer)
					_, isIface := sig.Recv().Type().Underlying().(*types.Interface)
					_, havePtr := info.TypeOf(sel.X).Underlying().(*types.Pointer)
					if !isIface && len(s.Index()) == 1 {
						if wantPtr && !havePtr {
							recv = tAddr(recv)
						} else if !wantPtr && havePtr {
							recv = &Term{Kind: "deref", Args: []*Term{recv}}
						}
					}
				}
			}
		}
		var args []*Term
		for _, a := range x.Args {
			args = append(args, env.term(a))
		}
		return tCall(fn, recv, args...)
	case *ast.FuncLit:
		return &Term{Kind: "opaque", Name: "funclit"}
	case *ast.IndexExpr:
		return tOp("index", env.term(x.X), env.term(x.Index))
	}
	return &Term{Kind: "opaque", Name: exprText(e)}
}

// arm is one conditional or final return of a "shaped" function body.
type arm struct {
	Kind string // nil-guard | assert | final
	Cond *Term
	Ret  []*Term
	Pos  token.Pos
}

type funcShape struct {
	Fn   *types.Func
	Arms []arm
}

func isConstBool(t *Term, v bool) bool {
	return t != nil && t.Kind == "const" && t.Name == constant.MakeBool(v).ExactString()
}

// nilDisjunction reports whether cond is a disjunction of `x == nil` tests.
func nilDisjunction(t *Term) bool {
	if t.Kind != "op" {
		return false
	}
	switch t.Name {
	case "||":
		return nilDisjunction(t.Args[0]) && nilDisjunction(t.Args[1])
	case "==":
		return (t.Args[1].Kind == "const" && t.Args[1].Name == "nil") || (t.Args[0].Kind == "const" && t.Args[0].Name == "nil")
	}
	return false
}

// shapeOf recognises bodies of the form
//
//	{ if x == nil [|| …] { return false } }*
//	{ if v, ok := x.(T); ok { return E } }*
//	return E
//
// which is the forwarding idiom of the object layer.  Anything else is not a
// forwarder (ok=false).
func (p *Program) shapeOf(fn *types.Func) (*funcShape, bool) {
	fd := p.Decl(fn)
	pkg := p.DeclPkg(fn)
	if fd == nil || fd.Body == nil || pkg == nil {
		return nil, false
	}
	env := newTermEnv(pkg, fd)
	sh := &funcShape{Fn: fn}
	stmts := fd.Body.List
	for i, st := range stmts {
		last := i == len(stmts)-1
		switch s := st.(type) {
		case *ast.ReturnStmt:
			if !last {
				return nil, false
			}
			a := arm{Kind: "final", Pos: s.Pos()}
			for _, r := range s.Results {
				a.Ret = append(a.Ret, env.term(r))
			}
			sh.Arms = append(sh.Arms, a)
			return sh, true
		case *ast.IfStmt:
			if s.Else != nil || len(s.Body.List) != 1 {
				return nil, false
			}
			ret, ok := s.Body.List[0].(*ast.ReturnStmt)
			if !ok {
				return nil, false
			}
			if s.Init != nil {
				// v, ok := x.(T); ok
				as, ok := s.Init.(*ast.AssignStmt)
				if !ok || as.Tok != token.DEFINE || len(as.Lhs) != 2 || len(as.Rhs) != 1 {
					return nil, false
				}
				ta, ok := ast.Unparen(as.Rhs[0]).(*ast.TypeAssertExpr)
				if !ok || ta.Type == nil {
					return nil, false
				}
				okId, ok1 := as.Lhs[1].(*ast.Ident)
				vId, ok2 := as.Lhs[0].(*ast.Ident)
				condId, ok3 := s.Cond.(*ast.Ident)
				if !ok1 || !ok2 || !ok3 || pkg.TypesInfo.Uses[condId] != pkg.TypesInfo.Defs[okId] {
					return nil, false
				}
				at := env.term(ta)
				inner := &termEnv{info: env.info, bind: map[types.Object]*Term{}}
				for k, v := range env.bind {
					inner.bind[k] = v
				}
				if o := pkg.TypesInfo.Defs[vId]; o != nil {
					inner.bind[o] = at
				}
				a := arm{Kind: "assert", Cond: at, Pos: s.Pos()}
				for _, r := range ret.Results {
					a.Ret = append(a.Ret, inner.term(r))
				}
				sh.Arms = append(sh.Arms, a)
				continue
			}
			cond := env.term(s.Cond)
			if !nilDisjunction(cond) {
				return nil, false
			}
			a := arm{Kind: "nil-guard", Cond: cond, Pos: s.Pos()}
			for _, r := range ret.Results {
				a.Ret = append(a.Ret, env.term(r))
			}
			sh.Arms = append(sh.Arms, a)
		case *ast.TypeSwitchStmt:
			// switch v := x.(type) { case T: return E1; default: return E2 } as the last statement:
			// the same as `if v, ok := x.(T); ok { return E1 }; return E2`
			if !last || s.Init != nil {
				return nil, false
			}
			var operand ast.Expr
			switch a := s.Assign.(type) {
			case *ast.AssignStmt:
				if len(a.Rhs) == 1 {
					if ta, ok := ast.Unparen(a.Rhs[0]).(*ast.TypeAssertExpr); ok {
						operand = ta.X
					}
				}
			case *ast.ExprStmt:
				if ta, ok := ast.Unparen(a.X).(*ast.TypeAssertExpr); ok {
					operand = ta.X
				}
			}
			if operand == nil {
				return nil, false
			}
			var def *ast.CaseClause
			for _, cl := range s.Body.List {
				cc := cl.(*ast.CaseClause)
				if len(cc.Body) != 1 {
					return nil, false
				}
				ret, ok := cc.Body[0].(*ast.ReturnStmt)
				if !ok {
					return nil, false
				}
				if cc.List == nil {
					def = cc
					continue
				}
				if len(cc.List) != 1 {
					return nil, false
				}
				at := &Term{Kind: "assert", Type: pkg.TypesInfo.TypeOf(cc.List[0]), Args: []*Term{env.term(operand)}}
				inner := &termEnv{info: env.info, bind: map[types.Object]*Term{}}
				for k, v := range env.bind {
					inner.bind[k] = v
				}
				if o := pkg.TypesInfo.Implicits[cc]; o != nil {
					inner.bind[o] = at
				}
				a := arm{Kind: "assert", Cond: at, Pos: cc.Pos()}
				for _, r := range ret.Results {
					a.Ret = append(a.Ret, inner.term(r))
				}
				sh.Arms = append(sh.Arms, a)
			}
			if def == nil {
				return nil, false
			}
			inner := &termEnv{info: env.info, bind: map[types.Object]*Term{}}
			for k, v := range env.bind {
				inner.bind[k] = v
			}
			if o := pkg.TypesInfo.Implicits[def]; o != nil {
				inner.bind[o] = env.term(operand)
			}
			fa := arm{Kind: "final", Pos: def.Pos()}
			for _, r := range def.Body[0].(*ast.ReturnStmt).Results {
				fa.Ret = append(fa.Ret, inner.term(r))
			}
			sh.Arms = append(sh.Arms, fa)
			return sh, true
		case *ast.AssignStmt:
			// let-binding: x := <pure expression>
			if last || s.Tok != token.DEFINE || len(s.Lhs) != len(s.Rhs) {
				return nil, false
			}
			for j, l := range s.Lhs {
				id, ok := l.(*ast.Ident)
				if !ok {
					return nil, false
				}
				if o := pkg.TypesInfo.Defs[id]; o != nil {
					env.bind[o] = env.term(s.Rhs[j])
				}
			}
		default:
			return nil, false
		}
	}
	return nil, false
}

// final returns the single-result final arm of a shape, or nil.
func (sh *funcShape) final() *Term {
	if sh == nil || len(sh.Arms) == 0 {
		return nil
	}
	a := sh.Arms[len(sh.Arms)-1]
	if a.Kind != "final" || len(a.Ret) != 1 {
		return nil
	}
	return a.Ret[0]
}

// pureForwarder: only nil guards returning false, then a final single term
// without opaque parts.
func (sh *funcShape) pureForwarder() bool {
	if sh == nil {
		return false
	}
	for i, a := range sh.Arms {
		if i == len(sh.Arms)-1 {
			return a.Kind == "final" && len(a.Ret) == 1 && !a.Ret[0].HasOpaque()
		}
		if a.Kind != "nil-guard" || len(a.Ret) != 1 || !isConstBool(a.Ret[0], false) {
			return false
		}
	}
	return false
}

// inline expands calls to repository functions that are pure forwarders
// (static callees only), to the given depth.
func (p *Program) inline(t *Term, depth int) *Term {
	return p.inlineIn(t, depth, nil)
}

// inlineIn expands forwarders of one package only (only != nil).
func (p *Program) inlineIn(t *Term, depth int, only *types.Package) *Term {
	if t == nil || depth < 0 {
		return t
	}
	if len(t.Args) > 0 {
		n := *t
		n.Args = make([]*Term, len(t.Args))
		for i, a := range t.Args {
			n.Args[i] = p.inlineIn(a, depth, only)
		}
		t = &n
	}
	if t.Kind != "call" || depth == 0 || t.Fn == nil || !p.IsRepoPkg(t.Fn.Pkg()) || (only != nil && t.Fn.Pkg() != only) {
		return t
	}
	sig := t.Fn.Type().(*types.Signature)
	if sig.Recv() != nil {
		if _, isIface := sig.Recv().Type().Underlying().(*types.Interface); isIface {
			return t
		}
	}
	sh, ok := p.shapeOf(t.Fn)
	if !ok || !sh.pureForwarder() {
		return t
	}
	var recv *Term
	args := t.Args
	if t.HasRecv {
		recv = args[0]
		args = args[1:]
	}
	body := sh.final().subst(recv, args)
	return p.inlineIn(body, depth-1, only)
}
