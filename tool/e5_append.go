package main

import (
	"fmt"
	"go/constant"
	"go/token"
	"go/types"
	"sort"
	"strings"

	"golang.org/x/tools/go/ssa"
)

// E5 — append typestate for serialisers.  See DESIGN.md §3/E5.

func isByteSlice(t types.Type) bool {
	sl, ok := t.Underlying().(*types.Slice)
	if !ok {
		return false
	}
	b, ok := sl.Elem().Underlying().(*types.Basic)
	return ok && b.Kind() == types.Byte
}

// appendFamily: functions with a []byte destination as first (non-receiver)
// parameter whose first result is []byte.
func (p *Program) appendFamily() map[*ssa.Function]int {
	out := map[*ssa.Function]int{}
	for _, fn := range p.RepoSourceFuncs() {
		if fn.Parent() != nil || fn.Pkg == nil || fn.Pkg.Pkg != p.Geojson.Types {
			continue
		}
		res := fn.Signature.Results()
		if res.Len() == 0 || !isByteSlice(res.At(0).Type()) {
			continue
		}
		for i, prm := range fn.Params {
			if i == 0 && fn.Signature.Recv() != nil {
				continue
			}
			if isByteSlice(prm.Type()) {
				out[fn] = i
			}
			break
		}
	}
	// only the writers of the serialisation layer are held to the append contract: the functions of
	// this shape that an AppendJSON method reaches through static calls (a helper of the parser that
	// builds member text, say, may legitimately look at what it has collected so far)
	reach := map[*ssa.Function]bool{}
	var work []*ssa.Function
	for fn := range out {
		if fn.Name() == "AppendJSON" && fn.Signature.Recv() != nil {
			reach[fn] = true
			work = append(work, fn)
		}
	}
	for len(work) > 0 {
		fn := work[len(work)-1]
		work = work[:len(work)-1]
		for _, b := range fn.Blocks {
			for _, in := range b.Instrs {
				if call, ok := in.(ssa.CallInstruction); ok {
					if sc := call.Common().StaticCallee(); sc != nil && !reach[sc] {
						if _, isW := out[sc]; isW {
							reach[sc] = true
							work = append(work, sc)
						}
					}
				}
			}
		}
	}
	for fn := range out {
		if !reach[fn] {
			delete(out, fn)
		}
	}
	return out
}

type chainUse struct {
	in   ssa.Instruction
	blk  *ssa.BasicBlock // where the use is reached (phi: the end of the predecessor, i.e. the edge)
	idx  int
	oblk *ssa.BasicBlock // where control continues after the use (phi: the start of the phi's block)
	oidx int
	desc string
}

func instrIndex(in ssa.Instruction) int {
	for i, x := range in.Block().Instrs {
		if x == in {
			return i
		}
	}
	return -1
}

// reachableAvoiding: is there a path from `from` (leaving it) to `to` that
// does not enter `avoid` (the block that defines the value: entering it
// creates a new instance of the value)?
func reachableAvoiding(from, to, avoid *ssa.BasicBlock) bool {
	seen := map[*ssa.BasicBlock]bool{}
	var st []*ssa.BasicBlock
	st = append(st, from.Succs...)
	for len(st) > 0 {
		b := st[len(st)-1]
		st = st[:len(st)-1]
		if seen[b] || b == avoid {
			continue
		}
		seen[b] = true
		if b == to {
			return true
		}
		st = append(st, b.Succs...)
	}
	return false
}

func reachable(from, to *ssa.BasicBlock) bool {
	seen := map[*ssa.BasicBlock]bool{}
	var st []*ssa.BasicBlock
	st = append(st, from.Succs...)
	for len(st) > 0 {
		b := st[len(st)-1]
		st = st[:len(st)-1]
		if seen[b] {
			continue
		}
		seen[b] = true
		if b == to {
			return true
		}
		st = append(st, b.Succs...)
	}
	return false
}

func (p *Program) ruleAppendTypestate(c *Check) {
	fam := p.appendFamily()
	objAppend := p.IfaceMethod("geojson", "Object", "AppendJSON")
	var fns []*ssa.Function
	for fn := range fam {
		fns = append(fns, fn)
	}
	sort.Slice(fns, func(i, j int) bool { return SSAName(fns[i]) < SSAName(fns[j]) })
	for _, fn := range fns {
		name := SSAName(fn)
		dst := fn.Params[fam[fn]]
		chain := map[ssa.Value]bool{dst: true}
		var problems []string
		var probPos token.Pos
		note := func(pos token.Pos, s string) {
			if len(problems) == 0 {
				probPos = pos
			}
			problems = append(problems, s)
		}
		// producer: is `in` a consumer of chain value v that yields the next chain value?
		isDstArg := func(call *ssa.CallCommon, v ssa.Value) bool {
			if b, ok := call.Value.(*ssa.Builtin); ok {
				return b.Name() == "append" && len(call.Args) > 0 && call.Args[0] == v
			}
			if call.IsInvoke() {
				return objAppend != nil && call.Method.Name() == "AppendJSON" && len(call.Args) == 1 && call.Args[0] == v
			}
			sc := call.StaticCallee()
			if sc == nil {
				return false
			}
			if i, ok := fam[sc]; ok {
				// argument index: receiver is Args[0] for static method calls
				return i < len(call.Args) && call.Args[i] == v
			}
			if n := sc.String(); n == "strconv.AppendFloat" || n == "strconv.AppendInt" || n == "strconv.AppendQuote" {
				return len(call.Args) > 0 && call.Args[0] == v
			}
			return false
		}
		changed := true
		for changed {
			changed = false
			for _, b := range fn.Blocks {
				for _, in := range b.Instrs {
					switch x := in.(type) {
					case *ssa.Call:
						for v := range chain {
							if isDstArg(&x.Call, v) {
								if _, isTuple := x.Type().(*types.Tuple); isTuple {
									for _, r := range *x.Referrers() {
										if ex, ok := r.(*ssa.Extract); ok && ex.Index == 0 && !chain[ex] {
											chain[ex] = true
											changed = true
										}
									}
								} else if !chain[x] {
									chain[x] = true
									changed = true
								}
							}
						}
					case *ssa.Phi:
						for _, e := range x.Edges {
							if chain[e] && !chain[x] {
								chain[x] = true
								changed = true
							}
						}
					}
				}
			}
		}
		// uses of chain values
		for v := range chain {
			refs := v.Referrers()
			if refs == nil {
				continue
			}
			var uses []chainUse
			for _, r := range *refs {
				switch x := r.(type) {
				case *ssa.Call:
					if isDstArg(&x.Call, v) {
						uses = append(uses, chainUse{x, x.Block(), instrIndex(x), x.Block(), instrIndex(x), "passed on at " + p.Pos(x.Pos())})
					} else {
						what := "a call"
						if b, ok := x.Call.Value.(*ssa.Builtin); ok {
							what = b.Name() + "()"
						} else if sc := x.Call.StaticCallee(); sc != nil {
							what = sc.Name()
						}
						note(x.Pos(), "the destination buffer is handed to "+what+", which is not an append-style continuation (the output would depend on, or overwrite, the prefix)")
					}
				case *ssa.Phi:
					if ssa.Value(x) == v {
						continue // a loop-carried value that is simply kept (continue): no consumption
					}
					for i, e := range x.Edges {
						if e == v {
							pred := x.Block().Preds[i]
							uses = append(uses, chainUse{x, pred, len(pred.Instrs), x.Block(), -1, "merged at " + p.Pos(x.Pos())})
						}
					}
				case *ssa.Return:
					uses = append(uses, chainUse{x, x.Block(), instrIndex(x), x.Block(), instrIndex(x), "returned"})
				case *ssa.DebugRef:
				case *ssa.Extract:
				case *ssa.Slice:
					note(x.Pos(), "the destination buffer is re-sliced (dst[a:b]): the prefix is truncated or overwritten")
				case *ssa.IndexAddr:
					note(x.Pos(), "the destination buffer is indexed: the prefix is read or overwritten")
				case *ssa.Store:
					// spilled to a local (defer/closure): follow is not supported
					note(x.Pos(), "the destination buffer is stored in memory; the append chain cannot be followed")
				default:
					note(r.Pos(), fmt.Sprintf("the destination buffer is used by %T, which is not part of an append chain", r))
				}
			}
			// stale use: consumed at u1 and again at u2 reachable from u1
			for i, u1 := range uses {
				for j, u2 := range uses {
					if i == j {
						continue
					}
					var defBlk *ssa.BasicBlock
					if in, ok := v.(ssa.Instruction); ok {
						defBlk = in.Block()
					}
					after := false
					if u1.oblk == u2.blk && u2.idx > u1.oidx {
						after = true
					} else if u1.oblk != defBlk || u1.oidx >= 0 {
						after = reachableAvoiding(u1.oblk, u2.blk, defBlk)
					} else {
						after = reachableAvoiding(u1.oblk, u2.blk, defBlk)
					}
					if _, isPhi := u1.in.(*ssa.Phi); isPhi && u1.in == u2.in {
						continue
					}
					if after {
						note(u2.in.Pos(), "a stale buffer is used: the value "+u1.desc+" is used again ("+u2.desc+") after it was already extended; with spare capacity the earlier output is overwritten, without it it is lost")
					}
				}
			}
		}
		// every return returns a chain value
		for _, b := range fn.Blocks {
			if ret, ok := b.Instrs[len(b.Instrs)-1].(*ssa.Return); ok && len(ret.Results) > 0 {
				if !chain[ret.Results[0]] {
					note(ret.Pos(), "the function returns a buffer that does not continue the caller's dst")
				}
			}
		}
		pos := ""
		if o, ok := fn.Object().(*types.Func); ok {
			pos = p.declPos(o)
		}
		if len(problems) == 0 {
			c.OK("E5.append", name, pos, fmt.Sprintf("append-only on dst: %d chain values, each consumed once per path, never sliced, indexed or inspected; every return continues the chain", len(chain)))
		} else {
			sort.Strings(problems)
			o := c.Bad("E5.append", name, p.Pos(probPos), problems[0])
			o.Path = problems
		}
	}
	c.Floor("E5.append", len(fns), 15, "append-style writers")
}

// rulePositionIndex: the running position index threaded through the series
// writer: every call receives the index returned by the calls that produced
// its dst (or the constant 0 when there are none).
func (p *Program) rulePositionIndex(c *Check) {
	n := 0
	for _, fn := range p.RepoSourceFuncs() {
		for _, b := range fn.Blocks {
			for _, in := range b.Instrs {
				call, ok := in.(*ssa.Call)
				if !ok {
					continue
				}
				sc := call.Call.StaticCallee()
				if sc == nil || !p.IsRepoFn(sc) {
					continue
				}
				res := sc.Signature.Results()
				if res.Len() != 2 || !isByteSlice(res.At(0).Type()) {
					continue
				}
				if b, ok := res.At(1).Type().Underlying().(*types.Basic); !ok || b.Info()&types.IsInteger == 0 {
					continue
				}
				// integer index parameter = last int parameter
				ip := -1
				for i, prm := range sc.Params {
					if bb, ok := prm.Type().Underlying().(*types.Basic); ok && bb.Info()&types.IsInteger != 0 {
						ip = i
					}
				}
				dp := -1
				for i, prm := range sc.Params {
					if isByteSlice(prm.Type()) {
						dp = i
						break
					}
				}
				if ip < 0 || dp < 0 {
					continue
				}
				n++
				con := fmt.Sprintf("%s: %s(…, idx)", SSAName(fn), sc.Name())
				// producers of dst: nearest calls of the same writer up the chain
				prod := map[*ssa.Call]bool{}
				seen := map[ssa.Value]bool{}
				var up func(v ssa.Value)
				up = func(v ssa.Value) {
					if seen[v] {
						return
					}
					seen[v] = true
					switch x := v.(type) {
					case *ssa.Extract:
						if cl, ok := x.Tuple.(*ssa.Call); ok && cl.Call.StaticCallee() == sc {
							prod[cl] = true
							return
						}
						up(x.Tuple)
					case *ssa.Call:
						if len(x.Call.Args) > 0 {
							for _, a := range x.Call.Args {
								if isByteSlice(a.Type()) {
									up(a)
									break
								}
							}
						}
					case *ssa.Phi:
						for _, e := range x.Edges {
							up(e)
						}
					}
				}
				up(call.Call.Args[dp])
				// origins of the index argument
				idxFrom := map[*ssa.Call]bool{}
				constZero, other := false, ""
				seen2 := map[ssa.Value]bool{}
				var upi func(v ssa.Value)
				upi = func(v ssa.Value) {
					if seen2[v] {
						return
					}
					seen2[v] = true
					switch x := v.(type) {
					case *ssa.Extract:
						if cl, ok := x.Tuple.(*ssa.Call); ok && cl.Call.StaticCallee() == sc && x.Index == 1 {
							idxFrom[cl] = true
							return
						}
						other = "a value that is not the writer's returned index"
					case *ssa.Const:
						if x.Value != nil && constant.Sign(x.Value) == 0 {
							constZero = true
						} else {
							other = "a non-zero constant"
						}
					case *ssa.Phi:
						for _, e := range x.Edges {
							upi(e)
						}
					default:
						other = "a value that is not the writer's returned index"
					}
				}
				upi(call.Call.Args[ip])
				good := other == ""
				if good {
					if len(prod) == 0 {
						good = constZero && len(idxFrom) == 0
					} else {
						good = len(idxFrom) == len(prod)
						for cl := range prod {
							if !idxFrom[cl] {
								good = false
							}
						}
					}
				}
				if good {
					c.OK("E5.pidx", con, p.Pos(call.Pos()), "the position index continues from the calls that produced dst (or starts at 0)")
				} else {
					d := "the position index passed here does not continue from the previous ring's end: the z/m values of later rings are read at the wrong offset"
					if other != "" {
						d += " (" + other + ")"
					}
					c.Bad("E5.pidx", con, p.Pos(call.Pos()), d)
				}
			}
		}
	}
	c.Floor("E5.pidx", n, 3, "calls of the series writer")
}

// ruleThreeViews: JSON(), String() and MarshalJSON() are AppendJSON(nil).
func (p *Program) ruleThreeViews(c *Check) {
	n := 0
	for _, k := range objectKinds {
		ap := p.Method("geojson", k, "AppendJSON")
		if ap == nil {
			c.Undecided("E5.views", "anchor:geojson."+k+".AppendJSON", "", "method not found")
			continue
		}
		for _, view := range []string{"JSON", "String", "MarshalJSON"} {
			m := p.Method("geojson", k, view)
			con := "(*geojson." + k + ")." + view
			if m == nil {
				c.Undecided("E5.views", con, "", "method not found")
				continue
			}
			n++
			sh, ok := p.shapeOf(m)
			if !ok || len(sh.Arms) != 1 {
				c.Undecided("E5.views", con, p.declPos(m), "the view is not a single return")
				continue
			}
			// the AppendJSON that a call on the receiver resolves to
			recvT := m.Type().(*types.Signature).Recv().Type()
			obj, _, _ := types.LookupFieldOrMethod(recvT, true, p.Geojson.Types, "AppendJSON")
			apm, _ := obj.(*types.Func)
			call := tCall(apm, tRecv(), tConst("nil"))
			ret := sh.Arms[0].Ret
			good := false
			switch view {
			case "MarshalJSON":
				good = len(ret) == 2 && ret[0].String() == call.String() && ret[1].String() == "nil"
			default:
				good = len(ret) == 1 && ret[0].Kind == "conv" && ret[0].Args[0].String() == call.String()
			}
			if !good && view != "MarshalJSON" && len(ret) == 1 {
				// delegation to the sibling string view of the same receiver
				// (String() { return g.JSON() }), itself AppendJSON(nil)
				sib := "JSON"
				if view == "JSON" {
					sib = "String"
				}
				if so, _, _ := types.LookupFieldOrMethod(recvT, true, p.Geojson.Types, sib); so != nil {
					if sf, _ := so.(*types.Func); sf != nil && ret[0].String() == tCall(sf, tRecv()).String() {
						if ssh, ok := p.shapeOf(sf); ok && len(ssh.Arms) == 1 && len(ssh.Arms[0].Ret) == 1 {
							r := ssh.Arms[0].Ret[0]
							// the sibling's receiver type decides which AppendJSON it resolves to
							sobj, _, _ := types.LookupFieldOrMethod(sf.Type().(*types.Signature).Recv().Type(), true, p.Geojson.Types, "AppendJSON")
							sapm, _ := sobj.(*types.Func)
							good = sapm == apm && r.Kind == "conv" && r.Args[0].String() == call.String()
						}
					}
				}
			}
			if good {
				c.OK("E5.views", con, p.declPos(m), "is AppendJSON(nil) of the receiver")
			} else {
				o := c.Bad("E5.views", con, p.declPos(m), "the view is not the bytes of AppendJSON(nil) of the same object")
				o.Expected = call.String()
				var parts []string
				for _, r := range ret {
					parts = append(parts, r.String())
				}
				o.Observed = strings.Join(parts, ", ")
			}
		}
	}
	c.Floor("E5.views", n, 36, "string views")
}

// ruleFloatFormat: the only formatter of floats is appendJSONFloat, guarded
// against NaN/Inf and configured for shortest round-trippable output.
func (p *Program) ruleFloatFormat(c *Check) {
	af := p.Func("geojson", "appendJSONFloat")
	if af == nil {
		c.Undecided("E5.float", "anchor:geojson.appendJSONFloat", "", "function not found")
		return
	}
	n := 0
	for _, fn := range p.RepoSourceFuncs() {
		if fn.Pkg == nil && fn.Parent() == nil {
			continue
		}
		for _, b := range fn.Blocks {
			for _, in := range b.Instrs {
				call, ok := in.(ssa.CallInstruction)
				if !ok {
					continue
				}
				sc := call.Common().StaticCallee()
				if sc == nil {
					continue
				}
				name := sc.String()
				isFmt := name == "strconv.AppendFloat" || name == "strconv.FormatFloat" || strings.HasPrefix(name, "fmt.Sprint") || strings.HasPrefix(name, "fmt.Append") || strings.HasPrefix(name, "fmt.Fprint")
				if !isFmt {
					continue
				}
				// does it format a float?
				hasFloat := false
				for _, a := range call.Common().Args {
					if bt, ok := a.Type().Underlying().(*types.Basic); ok && bt.Info()&types.IsFloat != 0 {
						hasFloat = true
					}
					if mi, ok := a.(*ssa.MakeInterface); ok {
						if bt, ok := mi.X.Type().Underlying().(*types.Basic); ok && bt.Info()&types.IsFloat != 0 {
							hasFloat = true
						}
					}
				}
				if !hasFloat && !strings.HasPrefix(name, "strconv.") {
					continue
				}
				n++
				con := SSAName(fn) + " calls " + name
				if fn.Object() != af {
					c.Bad("E5.float", con, p.Pos(in.Pos()), "a float is formatted outside appendJSONFloat: it bypasses the NaN/Inf guard (non-finite ordinates would be written as bare NaN/Inf tokens) and the shortest round-trip format")
					continue
				}
				if name != "strconv.AppendFloat" {
					c.Bad("E5.float", con, p.Pos(in.Pos()), "appendJSONFloat must format with strconv.AppendFloat")
					continue
				}
				args := call.Common().Args
				okFmt := false
				if f, ok := args[2].(*ssa.Const); ok {
					if ch, ok := constant.Int64Val(f.Value); ok && (ch == 'f' || ch == 'g' || ch == 'e') {
						if pr, ok := args[3].(*ssa.Const); ok && pr.Int64() == -1 {
							if bs, ok := args[4].(*ssa.Const); ok && bs.Int64() == 64 {
								okFmt = true
							}
						}
					}
				}
				if okFmt {
					c.OK("E5.float", con, p.Pos(in.Pos()), "shortest round-trippable format (-1, 64)")
				} else {
					c.Bad("E5.float", con, p.Pos(in.Pos()), "the format is not ('f'|'g'|'e', -1, 64): ordinates would not round-trip bit for bit")
				}
			}
		}
	}
	c.Floor("E5.float", n, 1, "float formatting calls")
	// the guard, decided by running the formatter abstractly for every outcome of
	// the NaN and Inf tests (helpers are entered, so the tests may live anywhere)
	row := &e8row{id: "geojson.appendJSONFloat#guard", fn: af,
		what: "a finite value is formatted by strconv.AppendFloat, a NaN or an infinity is written as null; nothing else is appended",
		spec: func(a *e8assign, n *e8names, out *e8out) string {
			nan, inf := "", ""
			for _, b := range n.bools {
				if strings.HasPrefix(b, "math.IsNaN(") {
					nan = b
				}
				if strings.HasPrefix(b, "math.IsInf(") {
					inf = b
				}
			}
			if nan == "" || inf == "" {
				return "the value is not tested with both math.IsNaN and math.IsInf"
			}
			finite := !a.B(nan) && !a.B(inf)
			fmts := out.in.called("AppendFloat")
			apps := out.in.called("append")
			nulls := 0
			for _, ap := range apps {
				if len(ap.args) == 2 && ap.args[1] != nil && ap.args[1].name == `"null"` {
					nulls++
				}
			}
			switch {
			case finite && (len(fmts) != 1 || len(apps) != 0):
				return "a finite value is not written by exactly one strconv.AppendFloat"
			case !finite && (len(fmts) != 0 || nulls != 1 || len(apps) != 1):
				return "a NaN/Inf value is not written as the single token null"
			}
			if finite && (len(fmts[0].args) < 2 || fmts[0].args[1] == nil || fmts[0].args[1].name != "p1") {
				return "the formatted value is not the function's argument"
			}
			return ""
		}}
	p.runE8(c, row)
}
