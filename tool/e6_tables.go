package main

import (
	"encoding/json"
	"fmt"
	"go/ast"
	"go/constant"
	"go/token"
	"go/types"
	"regexp"
	"sort"
	"strconv"
	"strings"

	"golang.org/x/tools/go/ssa"
	"golang.org/x/tools/go/types/typeutil"
)

// E6 — writer/reader tables.  See DESIGN.md §3/E6.

// expectedType: the GeoJSON type each kind must write (from the property
// statement: "type" names the object's GeoJSON type; Rect is the equivalent
// Polygon, SimplePoint the equivalent Point, Circle the Feature convention).
var expectedType = map[string]string{
	"Point": "Point", "SimplePoint": "Point", "LineString": "LineString", "Polygon": "Polygon", "Rect": "Polygon",
	"Circle": "Feature", "MultiPoint": "MultiPoint", "MultiLineString": "MultiLineString", "MultiPolygon": "MultiPolygon",
	"GeometryCollection": "GeometryCollection", "Feature": "Feature", "FeatureCollection": "FeatureCollection",
}

var typeKeyOf = map[string]string{
	"Point": "coordinates", "LineString": "coordinates", "Polygon": "coordinates", "MultiPoint": "coordinates",
	"MultiLineString": "coordinates", "MultiPolygon": "coordinates", "Feature": "geometry",
	"GeometryCollection": "geometries", "FeatureCollection": "features",
}

// constantsAppended: the constant strings appended to dst by a writer, in
// instruction order, following whole-body delegation to another writer.
func (p *Program) constantsAppended(fn *ssa.Function, depth int) []string {
	var out []string
	if fn == nil || depth > 3 {
		return nil
	}
	for _, b := range fn.Blocks {
		for _, in := range b.Instrs {
			cl, ok := in.(*ssa.Call)
			if !ok {
				continue
			}
			if bi, ok := cl.Call.Value.(*ssa.Builtin); ok && bi.Name() == "append" && len(cl.Call.Args) == 2 {
				if k, ok := cl.Call.Args[1].(*ssa.Const); ok && k.Value != nil && k.Value.Kind() == constant.String {
					out = append(out, constant.StringVal(k.Value))
				}
			}
		}
	}
	if len(out) == 0 {
		// delegation: return X.AppendJSON(dst)
		for _, b := range fn.Blocks {
			for _, in := range b.Instrs {
				cl, ok := in.(*ssa.Call)
				if !ok {
					continue
				}
				if sc := cl.Call.StaticCallee(); sc != nil && sc.Name() == "AppendJSON" && sc != fn {
					return p.constantsAppended(sc, depth+1)
				}
				if !cl.Call.IsInvoke() || cl.Call.Method.Name() != "AppendJSON" {
					continue
				}
				// receiver produced by a call returning a concrete kind
				if src, ok := cl.Call.Value.(*ssa.Call); ok {
					if sc := src.Call.StaticCallee(); sc != nil {
						for _, k := range p.returnedKinds(sc, 0) {
							if m := p.Method("geojson", k, "AppendJSON"); m != nil {
								return p.constantsAppended(p.SSAFunc(m), depth+1)
							}
						}
					}
				}
			}
		}
	}
	return out
}

// returnedKinds: names of the concrete geojson kinds a function can return as
// its first result.
func (p *Program) returnedKinds(fn *ssa.Function, depth int) []string {
	set := map[string]bool{}
	seen := map[ssa.Value]bool{}
	var visit func(v ssa.Value)
	visit = func(v ssa.Value) {
		if v == nil || seen[v] {
			return
		}
		seen[v] = true
		switch x := v.(type) {
		case *ssa.MakeInterface:
			if pt, ok := x.X.Type().(*types.Pointer); ok {
				if nt, ok := types.Unalias(pt.Elem()).(*types.Named); ok && nt.Obj().Pkg() == p.Geojson.Types {
					set[nt.Obj().Name()] = true
				}
			}
		case *ssa.Phi:
			for _, e := range x.Edges {
				visit(e)
			}
		case *ssa.UnOp:
			if a, ok := x.X.(*ssa.Alloc); ok && x.Op == token.MUL {
				for _, r := range *a.Referrers() {
					if st, ok := r.(*ssa.Store); ok && st.Addr == a {
						visit(st.Val)
					}
				}
			}
		case *ssa.Extract:
			if cl, ok := x.Tuple.(*ssa.Call); ok && x.Index == 0 && depth < 3 {
				if sc := cl.Call.StaticCallee(); sc != nil && p.IsRepoFn(sc) {
					for _, k := range p.returnedKinds(sc, depth+1) {
						set[k] = true
					}
				}
			}
		case *ssa.Call:
			if sc := x.Call.StaticCallee(); sc != nil && p.IsRepoFn(sc) && depth < 3 {
				for _, k := range p.returnedKinds(sc, depth+1) {
					set[k] = true
				}
			}
		case *ssa.Alloc:
			if nt, ok := types.Unalias(x.Type().(*types.Pointer).Elem()).(*types.Named); ok && nt.Obj().Pkg() == p.Geojson.Types {
				set[nt.Obj().Name()] = true
			}
		}
	}
	for _, b := range fn.Blocks {
		if ret, ok := b.Instrs[len(b.Instrs)-1].(*ssa.Return); ok && len(ret.Results) > 0 {
			visit(ret.Results[0])
		}
	}
	var out []string
	for k := range set {
		out = append(out, k)
	}
	sort.Strings(out)
	return out
}

var reType = regexp.MustCompile(`^\{"type":"([A-Za-z]+)"(?:,"([a-z]+)":)?`)

func (p *Program) ruleTypeTables(c *Check, scanTargets map[string]string) {
	// writers
	writerType := map[string]string{}
	writerKey := map[string]string{}
	for _, k := range objectKinds {
		m := p.Method("geojson", k, "AppendJSON")
		con := "(*geojson." + k + ").AppendJSON#type"
		consts := p.constantsAppended(p.SSAFunc(m), 0)
		if len(consts) == 0 {
			c.Undecided("E6.type", con, p.declPos(m), "the writer appends no leading constant (and does not delegate to another writer)")
			continue
		}
		mm := reType.FindStringSubmatch(consts[0])
		if mm == nil {
			c.Bad("E6.type", con, p.declPos(m), "the output does not start with {\"type\":\"…\": "+consts[0])
			continue
		}
		writerType[k], writerKey[k] = mm[1], mm[2]
		want := expectedType[k]
		if mm[1] == want {
			c.OK("E6.type", con, p.declPos(m), "writes \"type\":\""+mm[1]+"\"")
		} else {
			o := c.Bad("E6.type", con, p.declPos(m), "the \"type\" written does not name the object's GeoJSON type")
			o.Expected, o.Observed = want, mm[1]
		}
		if wk := typeKeyOf[want]; wk != "" {
			c.Expect(mm[2] == wk, "E6.key", "(*geojson."+k+").AppendJSON#member", p.declPos(m),
				"the payload member is \""+wk+"\"", "the payload member written after the type is \""+mm[2]+"\", GeoJSON requires \""+wk+"\" for "+want)
		}
	}
	// reader dispatch: switch rType.String() { case "T": return parseJSONX(...) }
	pj := p.Func("geojson", "parseJSON")
	fd, pkg := p.Decl(pj), p.DeclPkg(pj)
	if fd == nil {
		c.Undecided("E6.type", "anchor:geojson.parseJSON", "", "function not found")
		return
	}
	info := pkg.TypesInfo
	dispatch := map[string]*types.Func{}
	// the dispatch switch lives in parseJSON or in a helper it hands the type string to
	var switches []*ast.SwitchStmt
	seenFn := map[*types.Func]bool{pj: true}
	var collect func(body *ast.BlockStmt, depth int)
	collect = func(body *ast.BlockStmt, depth int) {
		ast.Inspect(body, func(n ast.Node) bool {
			switch x := n.(type) {
			case *ast.SwitchStmt:
				switches = append(switches, x)
			case *ast.CallExpr:
				if id, ok := x.Fun.(*ast.Ident); ok {
					if f, ok := info.Uses[id].(*types.Func); ok && f.Pkg() == pj.Pkg() && !seenFn[f] && depth < 1 {
						seenFn[f] = true
						if hd := p.Decl(f); hd != nil && hd.Body != nil {
							collect(hd.Body, depth+1)
						}
					}
				}
			}
			return true
		})
	}
	collect(fd.Body, 0)
	for _, sw := range switches {
		for _, cl := range sw.Body.List {
			cc := cl.(*ast.CaseClause)
			for _, e := range cc.List {
				tv := info.Types[e]
				if tv.Value == nil || tv.Value.Kind() != constant.String {
					continue
				}
				ast.Inspect(&ast.BlockStmt{List: cc.Body}, func(n ast.Node) bool {
					if call, ok := n.(*ast.CallExpr); ok {
						if id, ok := call.Fun.(*ast.Ident); ok {
							if f, ok := info.Uses[id].(*types.Func); ok {
								// a typed parser: returns (Object, error)
								if sig, ok := f.Type().(*types.Signature); ok && sig.Results().Len() == 2 && sig.Results().At(1).Type().String() == "error" {
									dispatch[constant.StringVal(tv.Value)] = f
								}
							}
						}
					}
					return true
				})
			}
		}
	}
	var ts []string
	for t := range dispatch {
		ts = append(ts, t)
	}
	sort.Strings(ts)
	for _, t := range ts {
		f := dispatch[t]
		kinds := p.returnedKinds(p.SSAFunc(f), 0)
		con := "geojson.parseJSON: \"" + t + "\" -> " + f.Name()
		if len(kinds) == 0 {
			c.Undecided("E6.type", con, p.declPos(f), "cannot tell which kinds the parser returns")
			continue
		}
		bad := ""
		for _, k := range kinds {
			if writerType[k] != t {
				bad = fmt.Sprintf("the parser for \"%s\" returns a %s, whose writer emits \"%s\": Parse(JSON(x)) would not give back the same type", t, k, writerType[k])
			}
		}
		if bad == "" {
			c.OK("E6.type", con, p.declPos(f), "returns "+strings.Join(kinds, ", ")+", all of which write \""+t+"\"")
		} else {
			c.Bad("E6.type", con, p.declPos(f), bad)
		}
		// member key: the parser reads the parseKeys field the scan fills from the key the writer emits
		wk := typeKeyOf[t]
		tgt := scanTargets[wk]
		if wk == "" || tgt == "" {
			continue
		}
		field := tgt[strings.LastIndex(tgt, ".")+1:]
		reads := p.keysFieldsRead(p.SSAFunc(f), 0, map[*ssa.Function]bool{})
		c.Expect(reads[field], "E6.key", "geojson."+f.Name()+"#reads("+wk+")", p.declPos(f),
			"reads the member \""+wk+"\" ("+field+") that the writer emits", "the parser does not read the member \""+wk+"\" that the matching writer emits")
	}
	c.Floor("E6.type", len(ts), 9, "GeoJSON type strings dispatched by parseJSON")
	for _, want := range []string{"Point", "LineString", "Polygon", "MultiPoint", "MultiLineString", "MultiPolygon", "GeometryCollection", "Feature", "FeatureCollection"} {
		c.Expect(dispatch[want] != nil, "E6.type", "geojson.parseJSON#accepts("+want+")", p.declPos(pj), "dispatched", "the standard type "+want+" is not dispatched")
	}
}

func (p *Program) keysFieldsRead(fn *ssa.Function, depth int, seen map[*ssa.Function]bool) map[string]bool {
	out := map[string]bool{}
	if fn == nil || seen[fn] || depth > 3 {
		return out
	}
	seen[fn] = true
	pk := p.Named("geojson", "parseKeys")
	var walk func(f *ssa.Function)
	walk = func(f *ssa.Function) {
		for _, b := range f.Blocks {
			for _, in := range b.Instrs {
				switch x := in.(type) {
				case *ssa.FieldAddr:
					if pt, ok := x.X.Type().Underlying().(*types.Pointer); ok && pk != nil && types.Identical(pt.Elem(), pk) {
						out[pk.Underlying().(*types.Struct).Field(x.Field).Name()] = true
					}
				case *ssa.Call:
					if sc := x.Call.StaticCallee(); sc != nil && p.IsRepoFn(sc) && strings.Contains(sc.Name(), "Coords") {
						for k := range p.keysFieldsRead(sc, depth+1, seen) {
							out[k] = true
						}
					}
				case *ssa.MakeClosure:
					walk(x.Fn.(*ssa.Function))
				}
			}
		}
	}
	walk(fn)
	return out
}

// ruleCircleConvention: the writer's constant skeleton and the reader's paths agree.
func (p *Program) ruleCircleConvention(c *Check) {
	m := p.Method("geojson", "Circle", "AppendJSON")
	sfn := p.SSAFunc(m)
	if sfn == nil {
		c.Undecided("E6.circle", "anchor:(*geojson.Circle).AppendJSON", "", "writer not found")
		return
	}
	// straight-line skeleton: constants with 0 for every number written
	var sb strings.Builder
	straight := len(sfn.Blocks) == 1
	for _, b := range sfn.Blocks {
		for _, in := range b.Instrs {
			cl, ok := in.(*ssa.Call)
			if !ok {
				continue
			}
			if bi, ok := cl.Call.Value.(*ssa.Builtin); ok && bi.Name() == "append" && len(cl.Call.Args) == 2 {
				if k, ok := cl.Call.Args[1].(*ssa.Const); ok && k.Value != nil && k.Value.Kind() == constant.String {
					sb.WriteString(constant.StringVal(k.Value))
				} else if bs, ok := constBytesOf(cl.Call.Args[1]); ok {
					sb.WriteString(bs)
				} else {
					straight = false
				}
			} else if sc := cl.Call.StaticCallee(); sc != nil && len(sc.Params) > 0 && isByteSlice(sc.Params[0].Type()) && sc.Signature.Results().Len() == 1 && isByteSlice(sc.Signature.Results().At(0).Type()) {
				// a writer of the append family emits one JSON value (that it does is E5.json's business): a placeholder
				ph := "0"
				for _, prm := range sc.Params[1:] {
					if nt, ok := types.Unalias(prm.Type()).(*types.Named); ok && nt.Obj().Name() == "Point" && nt.Obj().Pkg() == p.Geom.Types {
						ph = `"<position>"` // the position writer
					}
				}
				sb.WriteString(ph)
			} else if bi, ok := cl.Call.Value.(*ssa.Builtin); ok && bi.Name() == "append" {
				for _, a := range cl.Call.Args[1:] {
					if k, ok := a.(*ssa.Const); ok && k.Value != nil {
						sb.WriteString(string(rune(k.Int64())))
					} else {
						straight = false
					}
				}
			}
		}
	}
	con := "(*geojson.Circle).AppendJSON#skeleton"
	var doc map[string]interface{}
	if !straight || json.Unmarshal([]byte(sb.String()), &doc) != nil {
		c.Bad("E6.circle", con, p.declPos(m), "the constant skeleton of the Circle writer (numbers replaced by 0) is not one JSON object: "+sb.String())
		return
	}
	get := func(path ...string) interface{} {
		var cur interface{} = doc
		for _, k := range path {
			mm, ok := cur.(map[string]interface{})
			if !ok {
				return nil
			}
			cur = mm[k]
		}
		return cur
	}
	good := get("type") == "Feature" && get("geometry", "type") == "Point" && get("properties", "type") == "Circle" &&
		get("properties", "radius_units") == "m" && get("properties", "radius") != nil
	if arr, ok := get("geometry", "coordinates").([]interface{}); !ok || len(arr) != 2 {
		if get("geometry", "coordinates") != "<position>" {
			good = false
		}
	}
	c.Expect(good, "E6.circle", con, p.declPos(m), "Feature/Point/properties{type:Circle,radius,radius_units:m}: "+sb.String(),
		"the Circle writer does not emit the Feature/Point/properties{type:Circle,radius,radius_units:m} form: "+sb.String())
	// reader: parseJSONFeature is run abstractly (Parse and NewCircle are not entered; helpers are):
	// whenever it builds a Circle it has read the three members the writer emits, the
	// radius is taken unscaled for "m" (and for a missing unit) and times 1000 for "km",
	// any other unit is an error, and the centre is the parsed point's position
	pf := p.Func("geojson", "parseJSONFeature")
	parse, newCircle := p.Func("geojson", "Parse"), p.Func("geojson", "NewCircle")
	if pf == nil || parse == nil || newCircle == nil {
		c.Undecided("E6.circle", "anchor:geojson.parseJSONFeature", "", "reader not found")
		return
	}
	before := len(c.Obs)
	circlesBuilt := 0
	p.runE8(c, &e8row{id: "geojson.parseJSONFeature#circle", fn: pf, opaque: map[*types.Func]bool{parse: true, newCircle: true}, maxBools: 16,
		what: "the reader of the Circle convention uses the members the writer emits (properties.type/radius/radius_units), reads \"m\" unscaled and \"km\" times 1000, rejects other units, and centres the circle on the parsed point",
		spec: func(a *e8assign, n *e8names, out *e8out) string {
			// string atoms of one variable are mutually exclusive
			byVar := map[string]int{}
			for _, b := range n.bools {
				if i := strings.Index(b, "=="); i > 0 && a.B(b) {
					l, r := b[:i], b[i+2:]
					v := r
					if !strings.HasPrefix(l, `"`) {
						v = l
					}
					byVar[v]++
				}
			}
			for _, k := range byVar {
				if k > 1 {
					return "" // infeasible: one string equal to two different constants
				}
			}
			circles := out.in.called("NewCircle")
			circlesBuilt += len(circles)
			if len(circles) == 0 {
				// completeness: a point feature that carries the convention must be read back as a Circle,
				// whatever the representation options are (only DisableCircleType may turn this off)
				holds := func(sub ...string) (bool, bool) {
					for _, b := range n.bools {
						all := true
						for _, s := range sub {
							if !strings.Contains(b, s) {
								all = false
							}
						}
						if all {
							return a.B(b), true
						}
					}
					return false, false
				}
				isP, _ := holds("is(geojson.Parse(", "*geojson.Point)")
				isS, _ := holds("is(geojson.Parse(", "*geojson.SimplePoint)")
				if isP && isS {
					return "" // infeasible
				}
				noErr, hasErr := holds("isnil(geojson.Parse(", "#1)")
				exists, hasExists := holds("Exists(p0.rGeometry)")
				noMembers, _ := holds(`""==p0.members`)
				isCircle, _ := holds(`"Circle"==`, "properties.type")
				uEmpty, _ := holds(`""==`, "radius_units")
				uM, _ := holds(`"m"==`, "radius_units")
				uKm, _ := holds(`"km"==`, "radius_units")
				disabled, _ := holds("DisableCircleType")
				if (isP || isS) && (!hasErr || noErr) && (!hasExists || exists) && !noMembers && isCircle && (uEmpty || uM || uKm) && !disabled {
					return fmt.Sprintf("a feature whose geometry is a point (Point=%v, SimplePoint=%v) and whose properties carry the Circle convention is not read back as a Circle: the writer's output would not round-trip, and the meaning would depend on parse options", isP, isS)
				}
				return ""
			}
			got := map[string]bool{}
			var unitsVar string
			for _, cl := range out.in.trace {
				if strings.HasSuffix(cl.fn, "Get") {
					for _, ag := range cl.args {
						if ag != nil && strings.HasPrefix(ag.name, `"properties.`) {
							got[strings.Trim(ag.name, `"`)] = true
						}
					}
				}
			}
			for _, w := range []string{"properties.type", "properties.radius", "properties.radius_units"} {
				if !got[w] {
					return "a Circle is built without reading \"" + w + "\", which the writer emits"
				}
			}
			unit := func(u string) bool {
				for _, b := range n.bools {
					if (strings.HasPrefix(b, `"`+u+`"==`) || strings.HasSuffix(b, `=="`+u+`"`)) && strings.Contains(b, "radius_units") && a.B(b) {
						return true
					}
				}
				return false
			}
			_ = unitsVar
			rad := circles[0].args[1]
			if rad == nil || rad.k != kScalar || !strings.Contains(rad.name, "properties.radius") {
				return "the Circle's radius is not the parsed properties.radius: " + in_valdesc(rad)
			}
			scaled := strings.Contains(rad.name, "*1000") || strings.Contains(rad.name, "1000*")
			switch {
			case unit("km"):
				if !scaled {
					return "radius_units \"km\" is not scaled to metres"
				}
			case unit("m") || unit(""):
				if scaled || strings.HasPrefix(rad.name, "(") {
					return "radius_units \"m\" (the unit the writer emits) is not read back unscaled: " + rad.name
				}
			default:
				return "a Circle is built although radius_units is neither \"\", \"m\" nor \"km\""
			}
			ctr := circles[0].args[0]
			if ctr == nil || ctr.k != kStruct || ctr.f["X"] == nil || !(strings.HasSuffix(ctr.f["X"].name, ".base.X") || strings.HasSuffix(ctr.f["X"].name, ".Point.X")) {
				return "the Circle is not centred on the parsed point's position"
			}
			return ""
		}})
	for _, o := range c.Obs[before:] {
		o.Rule = "E6.circle"
	}
	if circlesBuilt == 0 {
		c.Undecided("E6.circle", "geojson.parseJSONFeature#circle-reader-found", p.declPos(pf), "on no abstract run does the Feature parser build a Circle: the reader of the Circle convention is not written in a form the engine can follow (members read through a callback, for instance), so writer/reader agreement is not decided")
	} else {
		c.OK("E6.circle", "geojson.parseJSONFeature#circle-reader-found", p.declPos(pf), "the reader of the Circle convention is exercised by the abstract runs")
	}
}

// ruleFeatureProperties: a Feature always emits a properties member.
func (p *Program) ruleFeatureProperties(c *Check) {
	m := p.Method("geojson", "Feature", "AppendJSON")
	ex := p.Method("geojson", "extra", "appendJSONExtra")
	sfn, sex := p.SSAFunc(m), p.SSAFunc(ex)
	if sfn == nil || sex == nil {
		c.Undecided("E6.props", "anchor:Feature.AppendJSON/appendJSONExtra", "", "not found")
		return
	}
	okCall := false
	for _, b := range sfn.Blocks {
		for _, in := range b.Instrs {
			if cl, ok := in.(*ssa.Call); ok && cl.Call.StaticCallee() == sex {
				if k, ok := cl.Call.Args[len(cl.Call.Args)-1].(*ssa.Const); ok && k.Value != nil && constant.BoolVal(k.Value) {
					okCall = true
				}
			}
		}
	}
	c.Expect(okCall, "E6.props", "(*geojson.Feature).AppendJSON#propertiesRequired", p.declPos(m), "asks the member writer for a properties member", "Feature.AppendJSON does not request the mandatory properties member")
	// in appendJSONExtra: every path with propertiesRequired appends the default unless members contain one
	n := 0
	for _, b := range sex.Blocks {
		for _, in := range b.Instrs {
			if cl, ok := in.(*ssa.Call); ok {
				if bi, ok := cl.Call.Value.(*ssa.Builtin); ok && bi.Name() == "append" && len(cl.Call.Args) == 2 {
					if k, ok := cl.Call.Args[1].(*ssa.Const); ok && k.Value != nil && k.Value.Kind() == constant.String && strings.Contains(constant.StringVal(k.Value), `"properties":{}`) {
						n++
					}
				}
			}
		}
	}
	c.Expect(n >= 1, "E6.props", "(*geojson.extra).appendJSONExtra#default", p.declPos(ex), "the default properties member is written by the member writer", "the default \"properties\":{} is never written")
	// the decision, run for every combination of (no extra block, no members, propertiesRequired, members hold a top-level "properties")
	before := len(c.Obs)
	p.runE8(c, &e8row{id: "(*geojson.extra).appendJSONExtra#decision", fn: ex,
		what: "the default \"properties\":{} is appended exactly when a properties member is required and the stored members do not hold one at their top level (gjson.Get(members, \"properties\")); nothing else (the destination buffer, nested keys) takes part in the decision",
		spec: func(a *e8assign, n *e8names, out *e8out) string {
			var lookup, req string
			var others []string
			for _, b := range n.bools {
				switch {
				case strings.Contains(b, "gjson.Get(recv.members,") && strings.Contains(b, "properties"):
					lookup = b
				case b == "p1":
					req = b
				case strings.HasPrefix(b, "isnil(") || strings.Contains(b, "==recv.members") || strings.Contains(b, "recv.members=="):
				default:
					others = append(others, b)
				}
			}
			if req == "" {
				return "propertiesRequired is never consulted"
			}
			if len(others) > 0 {
				return "the decision consults " + others[0] + ": whether a Feature gets the default properties member must depend only on a top-level lookup of its own members"
			}
			appended := 0
			for _, cl := range out.in.called("append") {
				if len(cl.args) >= 2 && cl.args[1] != nil && cl.args[1].str {
					if u, err := strconv.Unquote(cl.args[1].name); err == nil && strings.Contains(u, `"properties":{}`) {
						appended++
					}
				}
			}
			hasMembers := true
			for _, b := range n.bools {
				if strings.HasPrefix(b, "isnil(recv") && a.B(b) {
					hasMembers = false
				}
				if (strings.Contains(b, "==recv.members") || strings.Contains(b, "recv.members==")) && a.B(b) {
					hasMembers = false
				}
			}
			if hasMembers && lookup == "" && a.B(req) {
				return "with members present, their top-level properties member is not looked up"
			}
			want := a.B(req) && !(hasMembers && lookup != "" && a.B(lookup))
			if want != (appended == 1) || appended > 1 {
				return fmt.Sprintf("the default is appended %d times when required=%v, members present=%v, members hold properties=%v", appended, a.B(req), hasMembers, lookup != "" && a.B(lookup))
			}
			return ""
		}})
	for _, o := range c.Obs[before:] {
		o.Rule = "E6.props"
	}
}

// constBytesOf: the bytes of a variadic literal append(dst, 'a', 'b'): a slice
// of a fresh array whose elements are constant stores.
func constBytesOf(v ssa.Value) (string, bool) {
	sl, ok := v.(*ssa.Slice)
	if !ok {
		return "", false
	}
	al, ok := sl.X.(*ssa.Alloc)
	if !ok {
		return "", false
	}
	arr, ok := al.Type().(*types.Pointer).Elem().Underlying().(*types.Array)
	if !ok {
		return "", false
	}
	buf := make([]byte, arr.Len())
	set := 0
	for _, r := range *al.Referrers() {
		ia, ok := r.(*ssa.IndexAddr)
		if !ok {
			continue
		}
		idx, ok := ia.Index.(*ssa.Const)
		if !ok {
			return "", false
		}
		for _, r2 := range *ia.Referrers() {
			if st, ok := r2.(*ssa.Store); ok {
				k, ok := st.Val.(*ssa.Const)
				if !ok || k.Value == nil {
					return "", false
				}
				buf[idx.Int64()] = byte(k.Int64())
				set++
			}
		}
	}
	if set != len(buf) {
		return "", false
	}
	return string(buf), true
}

// ruleMembersNonEmpty: the member text spliced into a Feature/geometry is the
// inside of a JSON object; an empty object would leave a dangling comma.  So
// every value stored as extra.members must be tested against "{}" *after* its
// last transformation (or come from the parser, which only stores non-empty
// member lists).
func (p *Program) ruleMembersNonEmpty(c *Check) {
	// constructor side: run NewFeature abstractly; whatever ends up as extra.members
	// must have been compared with "{}" (and found different) after its last transformation
	nf := p.Func("geojson", "NewFeature")
	if nf == nil {
		c.Undecided("E6.members", "anchor:geojson.NewFeature", "", "constructor not found")
	} else {
		row := &e8row{id: "geojson.NewFeature#members", fn: nf,
			what: "member text is stored only if, after its last transformation, it was compared with \"{}\" and differs (the writer splices its inside after a comma)",
			spec: func(a *e8assign, n *e8names, out *e8out) string {
				if !out.returned || len(out.ret) != 1 {
					return "no result"
				}
				ex := leaf(out.ret[0], "extra")
				if ex == nil || ex.k != kStruct {
					return "" // no members stored
				}
				m := leaf(ex, "members")
				if m == nil || m.k != kScalar {
					return "the stored member text is not a string value"
				}
				l, r := m.name, `"{}"`
				atom := l + "==" + r
				if r < l {
					atom = r + "==" + l
				}
				v, tested := a.bools[atom]
				if !tested {
					return "the stored member text (" + m.name + ") is never compared with \"{}\": an empty object (\"{ }\", or one whose only member was removed) would be stored and the output would contain `,,`"
				}
				if v {
					return "member text equal to \"{}\" is stored"
				}
				return ""
			}}
		p.runE8(c, row)
	}
	// parser side: the member list is only stored when at least one foreign member was collected
	pj := p.Func("geojson", "parseJSON")
	fd := p.Decl(pj)
	if fd != nil {
		ok := false
		ast.Inspect(fd.Body, func(n ast.Node) bool {
			is, isIf := n.(*ast.IfStmt)
			if !isIf {
				return true
			}
			cond := strings.ReplaceAll(types.ExprString(is.Cond), " ", "")
			if strings.HasPrefix(cond, "len(") && (strings.HasSuffix(cond, ")>0") || strings.HasSuffix(cond, ")!=0")) {
				ast.Inspect(is.Body, func(m ast.Node) bool {
					if as, isA := m.(*ast.AssignStmt); isA && len(as.Lhs) == 1 && strings.HasSuffix(types.ExprString(as.Lhs[0]), ".members") {
						ok = true
					}
					return true
				})
			}
			return true
		})
		c.Expect(ok, "E6.members", "geojson.parseJSON#members", p.declPos(pj), "the parser stores a member list only when it collected at least one foreign member", "the parser can store an empty member list")
	}
	// nobody else writes extra.members
	fv := p.Field("geojson", "extra", "members")
	for _, fn := range p.RepoSourceFuncs() {
		for _, b := range fn.Blocks {
			for _, in := range b.Instrs {
				st, ok := in.(*ssa.Store)
				if !ok {
					continue
				}
				fa, ok := st.Addr.(*ssa.FieldAddr)
				if !ok {
					continue
				}
				stt, ok := fa.X.Type().Underlying().(*types.Pointer).Elem().Underlying().(*types.Struct)
				if !ok || stt.Field(fa.Field) != fv {
					continue
				}
				name := SSAName(rootFn2(fn))
				// NewFeature (and the helpers it calls) and the parser's parseBBoxAndExtras are the two audited sources
				okSrc := name == "geojson.parseBBoxAndExtras" || p.onlyCalledFrom(name, []string{"geojson.NewFeature"}, 0)
				c.Expect(okSrc, "E6.members", name+" stores extra.members", p.Pos(st.Pos()), "one of the two checked sources of member text", "member text is stored from a place whose value is not checked to be a non-empty object")
			}
		}
	}
}

// ruleStride: the extra ordinates (z/m) are stored with one fixed stride:
// the reader appends exactly `dims` values per appended position, `dims` is
// fixed when the extra block is created at the first position, and the
// writer reads values[idx*dims+i] for i < dims with the same dims field.
func (p *Program) ruleStride(c *Check) {
	for _, fname := range []string{"parseJSONLineStringCoords", "parseJSONPolygonCoords"} {
		fn := p.Func("geojson", fname)
		fd := p.Decl(fn)
		con := "geojson." + fname + "#stride"
		if fd == nil {
			c.Undecided("E6.stride", con, "", "coordinate parser not found")
			continue
		}
		var problems []string
		posAppends, valueLoops, bulk, dimsAssign, firstGuard := 0, 0, 0, 0, 0
		var loopBound string
		var sliceLoops [][2]string
		ast.Inspect(fd.Body, func(n ast.Node) bool {
			switch x := n.(type) {
			case *ast.AssignStmt:
				for i, l := range x.Lhs {
					if i >= len(x.Rhs) {
						continue
					}
					call, ok := x.Rhs[i].(*ast.CallExpr)
					if ok && types.ExprString(call.Fun) == "append" && len(call.Args) >= 2 {
						lt := types.ExprString(l)
						if strings.HasSuffix(lt, ".values") {
							if call.Ellipsis.IsValid() || len(call.Args) != 2 {
								// X.values = append(X.values, s[lo:lo+D]...) is the value loop in one statement
								if sl, ok := ast.Unparen(call.Args[len(call.Args)-1]).(*ast.SliceExpr); ok && call.Ellipsis.IsValid() && len(call.Args) == 2 && sl.Low != nil && sl.High != nil {
									lo, hi := strings.ReplaceAll(types.ExprString(sl.Low), " ", ""), strings.ReplaceAll(types.ExprString(sl.High), " ", "")
									sliceLoops = append(sliceLoops, [2]string{lo, hi})
								} else {
									bulk++
								}
							}
						} else if cl, ok := call.Args[1].(*ast.CompositeLit); ok && (types.ExprString(cl.Type) == "geometry.Point" || types.ExprString(cl.Type) == "Point") {
							posAppends++
						}
					}
					if ok && strings.HasSuffix(types.ExprString(l), ".dims") && len(call.Args) == 1 && (types.ExprString(call.Fun) == "byte" || types.ExprString(call.Fun) == "uint8") {
						if _, isConst := call.Args[0].(*ast.BasicLit); !isConst {
							dimsAssign++
							if loopBound == "" {
								loopBound = types.ExprString(call.Args[0])
							}
						}
					}
					if ok && strings.HasPrefix(types.ExprString(x.Rhs[i]), "int(") && strings.HasSuffix(types.ExprString(call.Args[0]), ".dims") {
						dimsAssign++
						loopBoundCandidate := types.ExprString(l)
						if loopBound == "" {
							loopBound = loopBoundCandidate
						}
					}
				}
			case *ast.RangeStmt:
				// for _, v := range nums[2 : 2+D] { X.values = append(X.values, v) }
				if sl, ok := ast.Unparen(x.X).(*ast.SliceExpr); ok && sl.High != nil && len(x.Body.List) == 1 {
					if as, ok := x.Body.List[0].(*ast.AssignStmt); ok && len(as.Lhs) == 1 && strings.HasSuffix(types.ExprString(as.Lhs[0]), ".values") {
						if call, ok := as.Rhs[0].(*ast.CallExpr); ok && types.ExprString(call.Fun) == "append" && len(call.Args) == 2 && !call.Ellipsis.IsValid() {
							lo, hi := strings.ReplaceAll(types.ExprString(sl.Low), " ", ""), strings.ReplaceAll(types.ExprString(sl.High), " ", "")
							valueLoops++
							if loopBound != "" && hi != lo+"+"+loopBound && hi != loopBound+"+"+lo {
								problems = append(problems, "the value loop ranges over "+types.ExprString(x.X)+", whose length is not the stored dimension "+loopBound)
							}
						}
					}
				}
			case *ast.KeyValueExpr:
				// &extra{dims: byte(D)}: the stride is stored from the local D
				if id, ok := x.Key.(*ast.Ident); ok && id.Name == "dims" {
					if call, ok := ast.Unparen(x.Value).(*ast.CallExpr); ok && len(call.Args) == 1 && (types.ExprString(call.Fun) == "byte" || types.ExprString(call.Fun) == "uint8") {
						dimsAssign++
						if loopBound == "" {
							loopBound = types.ExprString(call.Args[0])
						}
					}
				}
			case *ast.ForStmt:
				// for i := 0; i < D; i++ { X.values = append(X.values, nums[2+i]) }
				if cond, ok := x.Cond.(*ast.BinaryExpr); ok && cond.Op == token.LSS && len(x.Body.List) == 1 {
					if as, ok := x.Body.List[0].(*ast.AssignStmt); ok && len(as.Lhs) == 1 && strings.HasSuffix(types.ExprString(as.Lhs[0]), ".values") {
						if call, ok := as.Rhs[0].(*ast.CallExpr); ok && types.ExprString(call.Fun) == "append" && len(call.Args) == 2 && !call.Ellipsis.IsValid() {
							valueLoops++
							if b := types.ExprString(cond.Y); loopBound != "" && b != loopBound {
								problems = append(problems, "the value loop runs to "+b+", not to the stored dimension "+loopBound)
							}
						}
					}
				}
			case *ast.IfStmt:
				cs := types.ExprString(x.Cond)
				if strings.Contains(cs, "len(") && strings.Contains(cs, "> 1") {
					firstGuard++
				}
			}
			return true
		})
		for _, sl := range sliceLoops {
			valueLoops++
			if loopBound != "" && sl[1] != sl[0]+"+"+loopBound && sl[1] != loopBound+"+"+sl[0] {
				problems = append(problems, "the values appended per position are "+sl[0]+":"+sl[1]+", whose length is not the stored dimension "+loopBound)
			}
		}
		if posAppends != 1 {
			problems = append(problems, fmt.Sprintf("%d position appends (expected one per parsed position, in one place)", posAppends))
		}
		if valueLoops != 1 {
			problems = append(problems, fmt.Sprintf("%d per-position value loops (expected exactly one `for i < dims { values = append(values, …) }`)", valueLoops))
		}
		if bulk > 0 {
			problems = append(problems, "extra values are appended in bulk (append(values, other...)): blocks parsed with different dimensions can be concatenated, so values[idx*dims+i] runs past the end or reads the wrong position")
		}
		if dimsAssign != 1 {
			problems = append(problems, fmt.Sprintf("the stride is fixed in %d places (expected once, from ex.dims)", dimsAssign))
		}
		if firstGuard < 1 {
			problems = append(problems, "no guard restricts the creation of the extra block to the first position")
		}
		if len(problems) == 0 {
			c.OK("E6.stride", con, p.declPos(fn), "one position append and one dims-bounded value loop per position; the stride is fixed once from ex.dims at the first position")
		} else {
			o := c.Bad("E6.stride", con, p.declPos(fn), problems[0])
			o.Path = problems
		}
	}
	// writer: in appendJSONPoint (or a helper it hands the extra block to) the extra ordinates of
	// position idx are read at values[idx*dims + i] for i < dims, dims being the stored stride —
	// decided on the normal form of the index expression (locals substituted, operand order free)
	wf := p.Func("geojson", "appendJSONPoint")
	if p.Decl(wf) == nil {
		c.Undecided("E6.stride", "geojson.appendJSONPoint#stride", "", "writer not found")
		return
	}
	good, why := false, "no read of the extra values inside a loop bounded by the stored stride was found"
	fns := []*types.Func{wf}
	if fd := p.Decl(wf); fd != nil {
		pkg := p.DeclPkg(wf)
		ast.Inspect(fd.Body, func(n ast.Node) bool {
			if call, ok := n.(*ast.CallExpr); ok {
				if f, ok := typeutil.Callee(pkg.TypesInfo, call).(*types.Func); ok && f.Pkg() == wf.Pkg() && f != wf && p.Decl(f) != nil {
					fns = append(fns, f)
				}
			}
			return true
		})
	}
	for _, f := range fns {
		fd, pkg := p.Decl(f), p.DeclPkg(f)
		info := pkg.TypesInfo
		casArgs = map[string]casApp{}
		env := &casEnv{info: info, vars: map[types.Object]*casPoly{}, tup: map[types.Object][]*casPoly{}}
		var intParams []*casPoly
		for _, fl := range fd.Type.Params.List {
			for _, nm := range fl.Names {
				o := info.Defs[nm]
				if bt, ok := o.Type().Underlying().(*types.Basic); ok && bt.Info()&types.IsInteger != 0 {
					env.vars[o] = casAtom(nm.Name)
					intParams = append(intParams, env.vars[o])
				}
			}
		}
		// integer locals defined once (dims := int(ex.dims), first := idx*dims), in source order
		ast.Inspect(fd.Body, func(n ast.Node) bool {
			as, ok := n.(*ast.AssignStmt)
			if !ok || as.Tok != token.DEFINE || len(as.Lhs) != len(as.Rhs) {
				return true
			}
			for i, l := range as.Lhs {
				id, ok := l.(*ast.Ident)
				if !ok || !isIntLocal(info, id) {
					continue
				}
				sub := &casEval{p: p}
				v := sub.expr(env, as.Rhs[i])
				if sub.err == "" {
					env.vars[info.Defs[id]] = v
				}
			}
			return true
		})
		ast.Inspect(fd.Body, func(n ast.Node) bool {
			fs, ok := n.(*ast.ForStmt)
			if !ok || good {
				return true
			}
			cond, ok := fs.Cond.(*ast.BinaryExpr)
			if !ok || cond.Op != token.LSS {
				return true
			}
			iv, ok := cond.X.(*ast.Ident)
			if !ok {
				return true
			}
			ceB := &casEval{p: p}
			bound := ceB.expr(env, cond.Y)
			if ceB.err != "" || !strings.Contains(bound.String(), ".dims") {
				return true
			}
			loopEnv := &casEnv{info: info, vars: map[types.Object]*casPoly{}, tup: env.tup}
			for k, v := range env.vars {
				loopEnv.vars[k] = v
			}
			loopEnv.vars[info.ObjectOf(iv)] = casAtom(iv.Name)
			ast.Inspect(fs.Body, func(m ast.Node) bool {
				ix, ok := m.(*ast.IndexExpr)
				if !ok || !strings.HasSuffix(types.ExprString(ix.X), ".values") {
					return true
				}
				ceI := &casEval{p: p}
				idx := ceI.expr(loopEnv, ix.Index)
				if ceI.err != "" {
					why = "the index of the extra values could not be brought to normal form (" + ceI.err + ")"
					return true
				}
				for _, prm := range intParams {
					want := casAdd(casAtom(iv.Name), casMul(prm, bound), 1)
					if casEqual(casNormalize(idx), casNormalize(want)) {
						good = true
					}
				}
				if !good {
					why = "the extra ordinates are read at values[" + idx.String() + "], not at values[idx*dims + i] with the stored stride " + bound.String()
				}
				return true
			})
			return true
		})
		if good {
			break
		}
	}
	c.Expect(good, "E6.stride", "geojson.appendJSONPoint#stride", p.declPos(wf), "reads values[idx*dims+i] for i < dims with dims the stored stride (normal form of the index)", why)
}

func in_valdesc(v *val) string {
	if v == nil {
		return "<nil>"
	}
	return fmt.Sprintf("kind=%d name=%q", v.k, v.name)
}
