package main

import (
	"fmt"
	"go/ast"
	"go/constant"
	"go/token"
	"go/types"
	"math/big"
	"sort"
	"strings"

	"golang.org/x/tools/go/types/typeutil"
)

// E14 (part 1) — a small symbolic algebra over Go float expressions.
//
// The spherical primitives of package geo are straight-line formulas.  Their
// mutual consistency (inverse pairs, symmetry, periodicity, constant
// relations) is a statement about those formulas as *terms*, which this file
// decides by bringing terms to a normal form: a polynomial with rational
// coefficients over atoms, where an atom is a variable, π, or an application
// f(normal form, …) of a function the algebra does not open.  Nothing is
// evaluated numerically and no solver is involved; two terms are equal when
// their normal forms are identical.  Rewrite rules used (all exact in real
// arithmetic, the last two on the stated domains):
//
//	sin(0)=0  cos(0)=1  asin(0)=0  sqrt(0)=0  sqrt(1)=1
//	sin(-t)=-sin(t)  cos(-t)=cos(t)  asin(-t)=-asin(t)
//	sin(asin(x))=x        (|x|<=1)
//	asin(sin(t))=t        (|t|<=π/2)
//	sqrt(x^2)=x           (x>=0)       sqrt(x)^2=x
//	mod(mod(x,c),c)=mod(x,c)

type casFactor struct {
	atom string
	exp  *big.Rat
}

type casTerm struct {
	coef *big.Rat
	mono []casFactor // sorted by atom
}

type casPoly struct {
	terms map[string]*casTerm // key: monomial string
}

func monoKey(m []casFactor) string {
	var sb strings.Builder
	for i, f := range m {
		if i > 0 {
			sb.WriteByte('*')
		}
		sb.WriteString(f.atom)
		if f.exp.Cmp(big.NewRat(1, 1)) != 0 {
			sb.WriteString("^" + f.exp.RatString())
		}
	}
	return sb.String()
}

func casConst(r *big.Rat) *casPoly {
	p := &casPoly{terms: map[string]*casTerm{}}
	if r.Sign() != 0 {
		p.terms[""] = &casTerm{coef: new(big.Rat).Set(r)}
	}
	return p
}

func casInt(n int64) *casPoly { return casConst(big.NewRat(n, 1)) }

func casAtom(name string) *casPoly {
	m := []casFactor{{atom: name, exp: big.NewRat(1, 1)}}
	return &casPoly{terms: map[string]*casTerm{monoKey(m): {coef: big.NewRat(1, 1), mono: m}}}
}

func (p *casPoly) isZero() bool { return len(p.terms) == 0 }

func (p *casPoly) constVal() (*big.Rat, bool) {
	if len(p.terms) == 0 {
		return new(big.Rat), true
	}
	if len(p.terms) == 1 {
		if t, ok := p.terms[""]; ok {
			return t.coef, true
		}
	}
	return nil, false
}

func (p *casPoly) String() string {
	if len(p.terms) == 0 {
		return "0"
	}
	var keys []string
	for k := range p.terms {
		keys = append(keys, k)
	}
	sort.Strings(keys)
	var parts []string
	for _, k := range keys {
		t := p.terms[k]
		switch {
		case k == "":
			parts = append(parts, t.coef.RatString())
		case t.coef.Cmp(big.NewRat(1, 1)) == 0:
			parts = append(parts, k)
		default:
			parts = append(parts, t.coef.RatString()+"*"+k)
		}
	}
	return strings.Join(parts, " + ")
}

func casAdd(a, b *casPoly, sign int64) *casPoly {
	out := &casPoly{terms: map[string]*casTerm{}}
	for k, t := range a.terms {
		out.terms[k] = &casTerm{coef: new(big.Rat).Set(t.coef), mono: t.mono}
	}
	s := big.NewRat(sign, 1)
	for k, t := range b.terms {
		c := new(big.Rat).Mul(t.coef, s)
		if o, ok := out.terms[k]; ok {
			o.coef.Add(o.coef, c)
			if o.coef.Sign() == 0 {
				delete(out.terms, k)
			}
		} else {
			out.terms[k] = &casTerm{coef: c, mono: t.mono}
		}
	}
	return out
}

func mulMono(a, b []casFactor) []casFactor {
	m := map[string]*big.Rat{}
	for _, f := range a {
		m[f.atom] = new(big.Rat).Set(f.exp)
	}
	for _, f := range b {
		if e, ok := m[f.atom]; ok {
			e.Add(e, f.exp)
		} else {
			m[f.atom] = new(big.Rat).Set(f.exp)
		}
	}
	var out []casFactor
	for k, e := range m {
		if e.Sign() != 0 {
			out = append(out, casFactor{k, e})
		}
	}
	sort.Slice(out, func(i, j int) bool { return out[i].atom < out[j].atom })
	return out
}

func casMul(a, b *casPoly) *casPoly {
	out := &casPoly{terms: map[string]*casTerm{}}
	for _, ta := range a.terms {
		for _, tb := range b.terms {
			m := mulMono(ta.mono, tb.mono)
			k := monoKey(m)
			c := new(big.Rat).Mul(ta.coef, tb.coef)
			if o, ok := out.terms[k]; ok {
				o.coef.Add(o.coef, c)
				if o.coef.Sign() == 0 {
					delete(out.terms, k)
				}
			} else if c.Sign() != 0 {
				out.terms[k] = &casTerm{coef: c, mono: m}
			}
		}
	}
	return out
}

func casNeg(a *casPoly) *casPoly { return casAdd(casInt(0), a, -1) }

func casEqual(a, b *casPoly) bool { return casAdd(a, b, -1).isZero() }

// single: the polynomial is one term.
func (p *casPoly) single() *casTerm {
	if len(p.terms) == 1 {
		for _, t := range p.terms {
			return t
		}
	}
	return nil
}

func casDiv(a, b *casPoly) (*casPoly, bool) {
	if b.isZero() {
		return nil, false
	}
	if t := b.single(); t != nil {
		inv := make([]casFactor, len(t.mono))
		for i, f := range t.mono {
			inv[i] = casFactor{f.atom, new(big.Rat).Neg(f.exp)}
		}
		ip := &casPoly{terms: map[string]*casTerm{monoKey(inv): {coef: new(big.Rat).Inv(t.coef), mono: inv}}}
		return casMul(a, ip), true
	}
	// proportional polynomials
	if len(a.terms) == len(b.terms) {
		var ratio *big.Rat
		ok := true
		for k, tb := range b.terms {
			ta, has := a.terms[k]
			if !has {
				ok = false
				break
			}
			r := new(big.Rat).Quo(ta.coef, tb.coef)
			if ratio == nil {
				ratio = r
			} else if ratio.Cmp(r) != 0 {
				ok = false
				break
			}
		}
		if ok && ratio != nil {
			return casConst(ratio), true
		}
	}
	// a multi-term denominator becomes an atom with exponent -1 (x/x still cancels through the exponent)
	at := casAtom("(" + b.String() + ")")
	for _, t := range at.terms {
		t.mono[0].exp = big.NewRat(-1, 1)
	}
	at2 := &casPoly{terms: map[string]*casTerm{}}
	for _, t := range at.terms {
		at2.terms[monoKey(t.mono)] = t
	}
	return casMul(a, at2), true
}

// leadingNegative: the canonical sign of an odd/even function's argument.
func (p *casPoly) leadingNegative() bool {
	var keys []string
	for k := range p.terms {
		keys = append(keys, k)
	}
	sort.Strings(keys)
	if len(keys) == 0 {
		return false
	}
	return p.terms[keys[len(keys)-1]].coef.Sign() < 0
}

func ratSqrt(r *big.Rat) (*big.Rat, bool) {
	if r.Sign() < 0 {
		return nil, false
	}
	n, d := new(big.Int).Sqrt(r.Num()), new(big.Int).Sqrt(r.Denom())
	if new(big.Int).Mul(n, n).Cmp(r.Num()) == 0 && new(big.Int).Mul(d, d).Cmp(r.Denom()) == 0 {
		return new(big.Rat).SetFrac(n, d), true
	}
	return nil, false
}

// casApply: f(args) with the rewrite rules above.
func casApply(f string, args ...*casPoly) *casPoly {
	for i, a := range args {
		if a == nil {
			args[i] = casAtom("?")
		}
	}
	inner := func(p *casPoly, g string) (*casPoly, bool) {
		// p is exactly the atom g(<x>): return x's string is not enough, so atoms of
		// applications carry their argument in casArgs
		if t := p.single(); t != nil && len(t.mono) == 1 && t.coef.Cmp(big.NewRat(1, 1)) == 0 && t.mono[0].exp.Cmp(big.NewRat(1, 1)) == 0 {
			if a, ok := casArgs[t.mono[0].atom]; ok && a.f == g && len(a.args) == 1 {
				return a.args[0], true
			}
		}
		return nil, false
	}
	// sin(t + nπ) = (-1)^n sin(t), cos likewise
	if f == "sin" || f == "cos" {
		if t, ok := args[0].terms["π"]; ok && t.coef.IsInt() && len(args[0].terms) > 1 {
			rest := casAdd(args[0], &casPoly{terms: map[string]*casTerm{"π": t}}, -1)
			r := casApply(f, rest)
			if new(big.Int).And(new(big.Int).Abs(t.coef.Num()), big.NewInt(1)).Sign() != 0 {
				return casNeg(r)
			}
			return r
		}
	}
	switch f {
	case "sin", "asin", "tan", "atan":
		if args[0].isZero() {
			return casInt(0)
		}
		if args[0].leadingNegative() {
			return casNeg(casApply(f, casNeg(args[0])))
		}
		if f == "sin" {
			if x, ok := inner(args[0], "asin"); ok {
				return x
			}
		}
		if f == "asin" {
			if x, ok := inner(args[0], "sin"); ok {
				return x
			}
		}
	case "cos":
		if args[0].isZero() {
			return casInt(1)
		}
		if args[0].leadingNegative() {
			return casApply(f, casNeg(args[0]))
		}
	case "abs":
		if args[0].leadingNegative() {
			return casApply(f, casNeg(args[0]))
		}
	case "sqrt":
		if args[0].isZero() {
			return casInt(0)
		}
		if t := args[0].single(); t != nil {
			if c, ok := ratSqrt(t.coef); ok {
				half := make([]casFactor, len(t.mono))
				for i, fc := range t.mono {
					half[i] = casFactor{fc.atom, new(big.Rat).Mul(fc.exp, big.NewRat(1, 2))}
				}
				return &casPoly{terms: map[string]*casTerm{monoKey(half): {coef: c, mono: half}}}
			}
		}
		// sqrt(p) is the atom (p)^(1/2) so that sqrt(p)*sqrt(p) = p by exponent arithmetic
		name := "(" + args[0].String() + ")"
		casArgs[name] = casApp{f: "id", args: args}
		m := []casFactor{{atom: name, exp: big.NewRat(1, 2)}}
		return &casPoly{terms: map[string]*casTerm{monoKey(m): {coef: big.NewRat(1, 1), mono: m}}}
	case "mod":
		if x, ok := inner2(args[0], "mod"); ok && casEqual(x[1], args[1]) {
			return args[0]
		}
	}
	var names []string
	for _, a := range args {
		names = append(names, a.String())
	}
	name := f + "(" + strings.Join(names, ", ") + ")"
	casArgs[name] = casApp{f: f, args: args}
	return casAtom(name)
}

type casApp struct {
	f    string
	args []*casPoly
}

// casArgs remembers the arguments of application atoms (keyed by the atom's canonical name).
var casArgs = map[string]casApp{}

func inner2(p *casPoly, g string) ([]*casPoly, bool) {
	if t := p.single(); t != nil && len(t.mono) == 1 && t.coef.Cmp(big.NewRat(1, 1)) == 0 && t.mono[0].exp.Cmp(big.NewRat(1, 1)) == 0 {
		if a, ok := casArgs[t.mono[0].atom]; ok && a.f == g {
			return a.args, true
		}
	}
	return nil, false
}

// expand (p)^n atoms with integer n >= 2 created by sqrt: (p)^1 is p itself.
func casNormalize(p *casPoly) *casPoly {
	out := casInt(0)
	for _, t := range p.terms {
		cur := casConst(t.coef)
		for _, f := range t.mono {
			app, isApp := casArgs[f.atom]
			if isApp && app.f == "id" && f.exp.IsInt() && f.exp.Sign() > 0 {
				n := f.exp.Num().Int64()
				for i := int64(0); i < n; i++ {
					cur = casMul(cur, casNormalize(app.args[0]))
				}
				continue
			}
			m := []casFactor{{f.atom, f.exp}}
			cur = casMul(cur, &casPoly{terms: map[string]*casTerm{monoKey(m): {coef: big.NewRat(1, 1), mono: m}}})
		}
		out = casAdd(out, cur, 1)
	}
	return out
}

// ---- Go expressions to terms ------------------------------------------------

type casEval struct {
	p      *Program
	depth  int
	err    string
	opaque map[*types.Func]bool // repository functions kept as applications name#i(args)
}

type casEnv struct {
	info    *types.Info
	vars    map[types.Object]*casPoly
	tup     map[types.Object][]*casPoly
	structs map[types.Object]*casStruct
}

// casStruct: a struct value whose leaves are terms.
type casStruct struct {
	f map[string]interface{} // *casPoly or *casStruct
}

var mathFuncs = map[string]string{"Sin": "sin", "Cos": "cos", "Tan": "tan", "Asin": "asin", "Acos": "acos", "Atan": "atan", "Atan2": "atan2", "Sqrt": "sqrt", "Mod": "mod", "Abs": "abs"}

func (ce *casEval) fail(format string, a ...interface{}) *casPoly {
	if ce.err == "" {
		ce.err = fmt.Sprintf(format, a...)
	}
	return casAtom("?")
}

func ratOfConst(v constant.Value) (*big.Rat, bool) {
	switch v.Kind() {
	case constant.Int, constant.Float:
		n, d := constant.Num(v), constant.Denom(v)
		if n.Kind() != constant.Int || d.Kind() != constant.Int {
			return nil, false
		}
		nb, ok1 := new(big.Int).SetString(n.ExactString(), 10)
		db, ok2 := new(big.Int).SetString(d.ExactString(), 10)
		if !ok1 || !ok2 || db.Sign() == 0 {
			return nil, false
		}
		return new(big.Rat).SetFrac(nb, db), true
	}
	return nil, false
}

func (ce *casEval) expr(env *casEnv, e ast.Expr) *casPoly {
	info := env.info
	// a constant expression that does not involve π is its exact rational value
	if tv, ok := info.Types[e]; ok && tv.Value != nil {
		_, isLit := ast.Unparen(e).(*ast.BasicLit)
		_, isId := ast.Unparen(e).(*ast.Ident)
		_, isSel := ast.Unparen(e).(*ast.SelectorExpr)
		// (a named constant is read through its definition: at a use site its value is already rounded to the operand type)
		if !isLit && !isId && !isSel && !ce.mentionsNamedConst(info, e) {
			if r, ok := ratOfConst(tv.Value); ok {
				return casConst(r)
			}
		}
	}
	switch x := ast.Unparen(e).(type) {
	case *ast.BasicLit:
		if tv, ok := info.Types[x]; ok && tv.Value != nil {
			if r, ok := ratOfConst(tv.Value); ok {
				return casConst(r)
			}
		}
		return ce.fail("literal %s", x.Value)
	case *ast.Ident:
		o := info.ObjectOf(x)
		if v, ok := env.vars[o]; ok {
			return v
		}
		if k, ok := o.(*types.Const); ok {
			return ce.constant(k)
		}
		return ce.fail("unbound identifier %s", x.Name)
	case *ast.SelectorExpr:
		if o, ok := info.ObjectOf(x.Sel).(*types.Const); ok {
			return ce.constant(o)
		}
		if sv := ce.structOf(env, x.X); sv != nil {
			if leaf, ok := sv.f[x.Sel.Name].(*casPoly); ok {
				return leaf
			}
		}
		// a field of a variable that is not itself tracked: an atom named by its source text
		if id, ok := ast.Unparen(x.X).(*ast.Ident); ok {
			if _, isVar := info.ObjectOf(id).(*types.Var); isVar {
				return casAtom(id.Name + "." + x.Sel.Name)
			}
		}
		return ce.fail("selector %s", types.ExprString(x))
	case *ast.UnaryExpr:
		v := ce.expr(env, x.X)
		switch x.Op {
		case token.SUB:
			return casNeg(v)
		case token.ADD:
			return v
		}
		return ce.fail("unary %s", x.Op)
	case *ast.BinaryExpr:
		a, b := ce.expr(env, x.X), ce.expr(env, x.Y)
		switch x.Op {
		case token.ADD:
			return casAdd(a, b, 1)
		case token.SUB:
			return casAdd(a, b, -1)
		case token.MUL:
			return casMul(a, b)
		case token.QUO:
			if q, ok := casDiv(a, b); ok {
				return q
			}
			return ce.fail("division by zero")
		}
		return ce.fail("operator %s", x.Op)
	case *ast.CallExpr:
		if tv, ok := info.Types[x.Fun]; ok && tv.IsType() && len(x.Args) == 1 {
			return ce.expr(env, x.Args[0]) // numeric conversions are transparent (real-arithmetic reading)
		}
		callee, _ := typeutil.Callee(info, x).(*types.Func)
		if callee == nil || callee.Pkg() == nil {
			return ce.fail("call %s", types.ExprString(x.Fun))
		}
		var args []*casPoly
		if callee.Pkg().Path() == "math" || ce.opaque[callee] {
			for _, a := range x.Args {
				args = append(args, ce.expr(env, a))
			}
		}
		if callee.Pkg().Path() == "math" {
			if callee.Name() == "Pow" && len(args) == 2 {
				if b, ok := args[0].constVal(); ok {
					if n, ok := args[1].constVal(); ok && n.IsInt() && n.Num().IsInt64() && n.Num().Int64() >= 0 && n.Num().Int64() < 64 {
						r := big.NewRat(1, 1)
						for i := int64(0); i < n.Num().Int64(); i++ {
							r.Mul(r, b)
						}
						return casConst(r)
					}
				}
			}
			if f, ok := mathFuncs[callee.Name()]; ok {
				return casApply(f, args...)
			}
			return casApply("math."+callee.Name(), args...)
		}
		if ce.opaque[callee] {
			return casApply(callee.Pkg().Name()+"."+callee.Name()+"#0", args...)
		}
		if ce.p.IsRepoPkg(callee.Pkg()) {
			res := ce.callFn(env, x, callee)
			if len(res) >= 1 {
				return res[0]
			}
		}
		return ce.fail("call %s", callee.FullName())
	}
	return ce.fail("expression %s", types.ExprString(e))
}

// constant: package-level constants are read through their defining
// expression, so that math.Pi stays the symbol π.
func (ce *casEval) constant(k *types.Const) *casPoly {
	if k.Pkg() != nil && k.Pkg().Path() == "math" && k.Name() == "Pi" {
		return casAtom("π")
	}
	if k.Pkg() != nil && ce.p.IsRepoPkg(k.Pkg()) {
		for _, pkg := range []*types.Package{k.Pkg()} {
			pp := ce.p.ByPath[pkg.Path()]
			if pp == nil {
				continue
			}
			for _, f := range pp.Syntax {
				for _, d := range f.Decls {
					gd, ok := d.(*ast.GenDecl)
					if !ok || gd.Tok != token.CONST {
						continue
					}
					for _, sp := range gd.Specs {
						vs := sp.(*ast.ValueSpec)
						for i, nm := range vs.Names {
							if pp.TypesInfo.Defs[nm] == k && i < len(vs.Values) {
								return ce.expr(&casEnv{info: pp.TypesInfo, vars: map[types.Object]*casPoly{}}, vs.Values[i])
							}
						}
					}
				}
			}
		}
	}
	if r, ok := ratOfConst(k.Val()); ok {
		return casConst(r)
	}
	return ce.fail("constant %s", k.Name())
}

// fn: the results of a straight-line repository function as terms over args.
func (ce *casEval) fn(f *types.Func, args []*casPoly) []*casPoly {
	fd, pkg := ce.p.Decl(f), ce.p.DeclPkg(f)
	if fd == nil || fd.Body == nil || ce.depth > 6 {
		ce.fail("no body for %s", f.Name())
		return nil
	}
	env := &casEnv{info: pkg.TypesInfo, vars: map[types.Object]*casPoly{}, tup: map[types.Object][]*casPoly{}}
	i := 0
	for _, fl := range fd.Type.Params.List {
		for _, nm := range fl.Names {
			if i < len(args) {
				env.vars[pkg.TypesInfo.Defs[nm]] = args[i]
			}
			i++
		}
	}
	var results []types.Object
	if fd.Type.Results != nil {
		for _, fl := range fd.Type.Results.List {
			for _, nm := range fl.Names {
				o := pkg.TypesInfo.Defs[nm]
				results = append(results, o)
				env.vars[o] = casInt(0)
			}
		}
	}
	ce.depth++
	defer func() { ce.depth-- }()
	return ce.stmts(env, fd.Body.List, results, f.Name())
}

// stmts: straight-line statements; returns the results at a return statement (or the named results at the end).
func (ce *casEval) stmts(env *casEnv, list []ast.Stmt, results []types.Object, fname string) []*casPoly {
	for _, st := range list {
		switch s := st.(type) {
		case *ast.AssignStmt:
			if len(s.Lhs) == 1 && len(s.Rhs) == 1 && (s.Tok == token.DEFINE || s.Tok == token.ASSIGN) {
				if id, ok := s.Lhs[0].(*ast.Ident); ok && isStructType(env.info.TypeOf(s.Rhs[0])) {
					if sv := ce.structOf(env, s.Rhs[0]); sv != nil {
						if env.structs == nil {
							env.structs = map[types.Object]*casStruct{}
						}
						env.structs[env.info.ObjectOf(id)] = sv
						continue
					}
				}
			}
			if len(s.Lhs) == len(s.Rhs) {
				vals := make([]*casPoly, len(s.Rhs))
				for i, r := range s.Rhs {
					v := ce.expr(env, r)
					switch s.Tok {
					case token.ASSIGN, token.DEFINE:
					case token.ADD_ASSIGN:
						v = casAdd(ce.expr(env, s.Lhs[i]), v, 1)
					case token.SUB_ASSIGN:
						v = casAdd(ce.expr(env, s.Lhs[i]), v, -1)
					case token.MUL_ASSIGN:
						v = casMul(ce.expr(env, s.Lhs[i]), v)
					case token.QUO_ASSIGN:
						v, _ = casDiv(ce.expr(env, s.Lhs[i]), v)
					default:
						ce.fail("assignment %s", s.Tok)
					}
					vals[i] = v
				}
				for i, l := range s.Lhs {
					if id, ok := l.(*ast.Ident); ok {
						if id.Name != "_" {
							env.vars[env.info.ObjectOf(id)] = vals[i]
						}
					} else {
						ce.fail("assignment target %s", types.ExprString(l))
					}
				}
			} else if len(s.Rhs) == 1 {
				call, ok := ast.Unparen(s.Rhs[0]).(*ast.CallExpr)
				if !ok {
					ce.fail("tuple assignment")
					return nil
				}
				callee, _ := typeutil.Callee(env.info, call).(*types.Func)
				var res []*casPoly
				if callee != nil && callee.Pkg() != nil && callee.Pkg().Path() == "math" && callee.Name() == "Sincos" && len(call.Args) == 1 {
					a0 := ce.expr(env, call.Args[0])
					res = []*casPoly{casApply("sin", a0), casApply("cos", a0)}
				} else if callee != nil && ce.opaque[callee] {
					var cargs []*casPoly
					for _, a := range call.Args {
						cargs = append(cargs, ce.expr(env, a))
					}
					for k := range s.Lhs {
						res = append(res, casApply(fmt.Sprintf("%s.%s#%d", callee.Pkg().Name(), callee.Name(), k), cargs...))
					}
				} else if callee != nil && ce.p.IsRepoPkg(callee.Pkg()) {
					res = ce.callFn(env, call, callee)
				}
				if len(res) != len(s.Lhs) {
					ce.fail("tuple call %s", types.ExprString(call.Fun))
					return nil
				}
				for i, l := range s.Lhs {
					if id, ok := l.(*ast.Ident); ok && id.Name != "_" {
						env.vars[env.info.ObjectOf(id)] = res[i]
					}
				}
			}
		case *ast.DeclStmt:
			gd, ok := s.Decl.(*ast.GenDecl)
			if !ok {
				ce.fail("declaration")
				return nil
			}
			for _, sp := range gd.Specs {
				if vs, ok := sp.(*ast.ValueSpec); ok {
					for i, nm := range vs.Names {
						if i < len(vs.Values) {
							env.vars[env.info.Defs[nm]] = ce.expr(env, vs.Values[i])
						} else {
							env.vars[env.info.Defs[nm]] = casInt(0)
						}
					}
				}
			}
		case *ast.ReturnStmt:
			if len(s.Results) == 0 {
				var out []*casPoly
				for _, o := range results {
					out = append(out, env.vars[o])
				}
				return out
			}
			var out []*casPoly
			for _, r := range s.Results {
				out = append(out, ce.expr(env, r))
			}
			return out
		default:
			ce.fail("%s is not a straight-line formula (statement at %s)", fname, ce.p.Pos(st.Pos()))
			return nil
		}
	}
	var out []*casPoly
	for _, o := range results {
		out = append(out, env.vars[o])
	}
	return out
}

func bigRat(a, b int64) *big.Rat { return big.NewRat(a, b) }

func isStructType(t types.Type) bool {
	if t == nil {
		return false
	}
	_, ok := derefType(t).Underlying().(*types.Struct)
	return ok
}

// structOf: the value of a struct-typed expression (variable, composite
// literal, selection, or a straight-line repository function returning one).
func (ce *casEval) structOf(env *casEnv, e ast.Expr) *casStruct {
	switch x := ast.Unparen(e).(type) {
	case *ast.Ident:
		if env.structs != nil {
			return env.structs[env.info.ObjectOf(x)]
		}
	case *ast.UnaryExpr:
		if x.Op == token.AND {
			return ce.structOf(env, x.X)
		}
	case *ast.SelectorExpr:
		if sv := ce.structOf(env, x.X); sv != nil {
			if inner, ok := sv.f[x.Sel.Name].(*casStruct); ok {
				return inner
			}
		}
	case *ast.CompositeLit:
		return ce.compositeOf(env, x, env.info.TypeOf(x))
	case *ast.CallExpr:
		callee, _ := typeutil.Callee(env.info, x).(*types.Func)
		if callee == nil || !ce.p.IsRepoPkg(callee.Pkg()) || ce.depth > 6 {
			return nil
		}
		fd, pkg := ce.p.Decl(callee), ce.p.DeclPkg(callee)
		if fd == nil || fd.Body == nil || len(fd.Body.List) == 0 {
			return nil
		}
		nenv := &casEnv{info: pkg.TypesInfo, vars: map[types.Object]*casPoly{}, tup: map[types.Object][]*casPoly{}, structs: map[types.Object]*casStruct{}}
		if sel, ok := ast.Unparen(x.Fun).(*ast.SelectorExpr); ok && fd.Recv != nil && len(fd.Recv.List) > 0 && len(fd.Recv.List[0].Names) > 0 {
			ro := pkg.TypesInfo.Defs[fd.Recv.List[0].Names[0]]
			if rv := ce.structOf(env, sel.X); rv != nil {
				nenv.structs[ro] = rv
			} else {
				return nil
			}
		}
		i := 0
		for _, fl := range fd.Type.Params.List {
			for _, nm := range fl.Names {
				if i < len(x.Args) {
					o := pkg.TypesInfo.Defs[nm]
					if isStructType(o.Type()) {
						nenv.structs[o] = ce.structOf(env, x.Args[i])
					} else {
						nenv.vars[o] = ce.expr(env, x.Args[i])
					}
				}
				i++
			}
		}
		// straight-line body ending in `return <struct expression>`
		ce.depth++
		defer func() { ce.depth-- }()
		last := fd.Body.List[len(fd.Body.List)-1]
		ret, ok := last.(*ast.ReturnStmt)
		if !ok || len(ret.Results) != 1 {
			return nil
		}
		if len(fd.Body.List) > 1 {
			ce.stmts(nenv, fd.Body.List[:len(fd.Body.List)-1], nil, callee.Name())
		}
		return ce.structOf(nenv, ret.Results[0])
	}
	return nil
}

func (ce *casEval) compositeOf(env *casEnv, x *ast.CompositeLit, t types.Type) *casStruct {
	if t == nil {
		return nil
	}
	st, ok := derefType(t).Underlying().(*types.Struct)
	if !ok {
		return nil
	}
	out := &casStruct{f: map[string]interface{}{}}
	for i := 0; i < st.NumFields(); i++ {
		if isStructType(st.Field(i).Type()) {
			out.f[st.Field(i).Name()] = &casStruct{f: map[string]interface{}{}}
		} else {
			out.f[st.Field(i).Name()] = casInt(0)
		}
	}
	for i, el := range x.Elts {
		var field *types.Var
		val := el
		if kv, ok := el.(*ast.KeyValueExpr); ok {
			id, ok := kv.Key.(*ast.Ident)
			if !ok {
				return nil
			}
			for k := 0; k < st.NumFields(); k++ {
				if st.Field(k).Name() == id.Name {
					field = st.Field(k)
				}
			}
			val = kv.Value
		} else if i < st.NumFields() {
			field = st.Field(i)
		}
		if field == nil {
			return nil
		}
		if isStructType(field.Type()) {
			var sv *casStruct
			if cl, ok := ast.Unparen(val).(*ast.CompositeLit); ok {
				sv = ce.compositeOf(env, cl, field.Type())
			} else {
				sv = ce.structOf(env, val)
			}
			if sv == nil {
				// an untracked struct variable: its fields are atoms named by their source text
				sv = &casStruct{f: map[string]interface{}{}}
				if fst, ok := derefType(field.Type()).Underlying().(*types.Struct); ok {
					for k := 0; k < fst.NumFields(); k++ {
						sv.f[fst.Field(k).Name()] = casAtom(types.ExprString(val) + "." + fst.Field(k).Name())
					}
				}
			}
			out.f[field.Name()] = sv
		} else {
			out.f[field.Name()] = ce.expr(env, val)
		}
	}
	return out
}

// casAtomStruct: a struct input whose leaves are atoms named path.field.
func casAtomStruct(path string, t types.Type, depth int) *casStruct {
	st, ok := derefType(t).Underlying().(*types.Struct)
	if !ok || depth > 3 {
		return nil
	}
	out := &casStruct{f: map[string]interface{}{}}
	for i := 0; i < st.NumFields(); i++ {
		f := st.Field(i)
		if isStructType(f.Type()) {
			if sv := casAtomStruct(path+"."+f.Name(), f.Type(), depth+1); sv != nil {
				out.f[f.Name()] = sv
			}
		} else if b, ok := f.Type().Underlying().(*types.Basic); ok && b.Info()&types.IsNumeric != 0 {
			out.f[f.Name()] = casAtom(path + "." + f.Name())
		}
	}
	return out
}

// callFn: a call of a straight-line repository function whose parameters may be structs.
func (ce *casEval) callFn(env *casEnv, call *ast.CallExpr, callee *types.Func) []*casPoly {
	fd, pkg := ce.p.Decl(callee), ce.p.DeclPkg(callee)
	if fd == nil || fd.Body == nil || ce.depth > 6 {
		ce.fail("no body for %s", callee.Name())
		return nil
	}
	nenv := &casEnv{info: pkg.TypesInfo, vars: map[types.Object]*casPoly{}, tup: map[types.Object][]*casPoly{}, structs: map[types.Object]*casStruct{}}
	if sel, ok := ast.Unparen(call.Fun).(*ast.SelectorExpr); ok && fd.Recv != nil && len(fd.Recv.List) > 0 && len(fd.Recv.List[0].Names) > 0 {
		ro := pkg.TypesInfo.Defs[fd.Recv.List[0].Names[0]]
		if isStructType(ro.Type()) {
			if rv := ce.structOf(env, sel.X); rv != nil {
				nenv.structs[ro] = rv
			}
		} else {
			nenv.vars[ro] = ce.expr(env, sel.X)
		}
	}
	i := 0
	for _, fl := range fd.Type.Params.List {
		for _, nm := range fl.Names {
			if i < len(call.Args) {
				o := pkg.TypesInfo.Defs[nm]
				if isStructType(o.Type()) {
					sv := ce.structOf(env, call.Args[i])
					if sv == nil {
						ce.fail("struct argument %s of %s", types.ExprString(call.Args[i]), callee.Name())
					}
					nenv.structs[o] = sv
				} else if b, ok := o.Type().Underlying().(*types.Basic); ok && b.Info()&types.IsNumeric != 0 {
					nenv.vars[o] = ce.expr(env, call.Args[i])
				}
			}
			i++
		}
	}
	var results []types.Object
	if fd.Type.Results != nil {
		for _, fl := range fd.Type.Results.List {
			for _, nm := range fl.Names {
				o := pkg.TypesInfo.Defs[nm]
				results = append(results, o)
				nenv.vars[o] = casInt(0)
			}
		}
	}
	ce.depth++
	defer func() { ce.depth-- }()
	return ce.stmts(nenv, fd.Body.List, results, callee.Name())
}

// mentionsPi: the constant expression refers (through repository constants) to math.Pi.
func (ce *casEval) mentionsPi(info *types.Info, e ast.Expr, depth int) bool {
	found := false
	ast.Inspect(e, func(n ast.Node) bool {
		id, ok := n.(*ast.Ident)
		if !ok || found {
			return !found
		}
		k, ok := info.ObjectOf(id).(*types.Const)
		if !ok || k.Pkg() == nil {
			return true
		}
		if k.Pkg().Path() == "math" && k.Name() == "Pi" {
			found = true
			return false
		}
		if ce.p.IsRepoPkg(k.Pkg()) && depth < 6 {
			if pp := ce.p.ByPath[k.Pkg().Path()]; pp != nil {
				for _, f := range pp.Syntax {
					for _, d := range f.Decls {
						gd, ok := d.(*ast.GenDecl)
						if !ok || gd.Tok != token.CONST {
							continue
						}
						for _, sp := range gd.Specs {
							vs := sp.(*ast.ValueSpec)
							for i, nm := range vs.Names {
								if pp.TypesInfo.Defs[nm] == k && i < len(vs.Values) && ce.mentionsPi(pp.TypesInfo, vs.Values[i], depth+1) {
									found = true
								}
							}
						}
					}
				}
			}
		}
		return true
	})
	return found
}

// mentionsNamedConst: the expression refers to a declared constant (whose exact
// value must be taken from its definition, not from the typed use site).
func (ce *casEval) mentionsNamedConst(info *types.Info, e ast.Expr) bool {
	found := false
	ast.Inspect(e, func(n ast.Node) bool {
		if id, ok := n.(*ast.Ident); ok {
			if _, isConst := info.ObjectOf(id).(*types.Const); isConst {
				found = true
			}
		}
		return !found
	})
	return found
}
