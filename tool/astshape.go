package main

import (
	"fmt"
	"go/ast"
	"go/token"
	"go/types"
	"strings"
)

// skel renders a syntax tree as two parallel token streams: "names" (the
// structure with identifiers, fields, calls and literals) and "ops" (the
// comparison operators and constants met in the same walk).  Comparisons are
// canonicalised first: x > y is y < x, x >= y is y <= x.  rename maps
// identifier / field names (used for the a<->b and X<->Y mirrors).
type skel struct {
	names []string
	ops   []string
	pos   []token.Pos // position of each op
}

type renamer func(kind, name string) string

func (s *skel) n(t string) { s.names = append(s.names, t) }

func flipCmp(op token.Token) (token.Token, bool) {
	switch op {
	case token.GTR:
		return token.LSS, true
	case token.GEQ:
		return token.LEQ, true
	}
	return op, false
}

func isCmp(op token.Token) bool {
	switch op {
	case token.LSS, token.LEQ, token.GTR, token.GEQ, token.EQL, token.NEQ:
		return true
	}
	return false
}

func (s *skel) expr(e ast.Expr, rn renamer) {
	switch x := e.(type) {
	case nil:
		s.n("nil")
	case *ast.ParenExpr:
		s.expr(x.X, rn)
	case *ast.Ident:
		s.n(rn("id", x.Name))
	case *ast.BasicLit:
		s.n("lit")
		s.ops = append(s.ops, x.Value)
		s.pos = append(s.pos, x.Pos())
	case *ast.SelectorExpr:
		s.n("(sel")
		s.expr(x.X, rn)
		s.n(rn("field", x.Sel.Name))
		s.n(")")
	case *ast.StarExpr:
		s.n("(*")
		s.expr(x.X, rn)
		s.n(")")
	case *ast.UnaryExpr:
		s.n("(u" + x.Op.String())
		s.expr(x.X, rn)
		s.n(")")
	case *ast.BinaryExpr:
		l, r, op := x.X, x.Y, x.Op
		if f, ok := flipCmp(op); ok {
			l, r, op = r, l, f
		}
		if isCmp(op) {
			s.n("(cmp")
			s.ops = append(s.ops, op.String())
			s.pos = append(s.pos, x.OpPos)
		} else {
			s.n("(" + op.String())
		}
		s.expr(l, rn)
		s.expr(r, rn)
		s.n(")")
	case *ast.CallExpr:
		s.n("(call")
		s.expr(x.Fun, rn)
		for _, a := range x.Args {
			s.expr(a, rn)
		}
		s.n(")")
	case *ast.IndexExpr:
		s.n("(idx")
		s.expr(x.X, rn)
		s.expr(x.Index, rn)
		s.n(")")
	case *ast.CompositeLit:
		s.n("(clit")
		if x.Type != nil {
			s.n(types.ExprString(x.Type))
		}
		for _, el := range x.Elts {
			s.expr(el, rn)
		}
		s.n(")")
	case *ast.KeyValueExpr:
		s.n("(kv")
		s.expr(x.Key, rn)
		s.expr(x.Value, rn)
		s.n(")")
	case *ast.FuncLit:
		s.n("(func")
		s.block(x.Body, rn)
		s.n(")")
	default:
		s.n("?" + types.ExprString(e))
	}
}

func (s *skel) block(b *ast.BlockStmt, rn renamer) {
	s.n("{")
	if b != nil {
		for _, st := range b.List {
			s.stmt(st, rn)
		}
	}
	s.n("}")
}

func (s *skel) stmt(st ast.Stmt, rn renamer) {
	switch x := st.(type) {
	case nil:
	case *ast.BlockStmt:
		s.block(x, rn)
	case *ast.ExprStmt:
		s.expr(x.X, rn)
	case *ast.ReturnStmt:
		s.n("(ret")
		for _, r := range x.Results {
			s.expr(r, rn)
		}
		s.n(")")
	case *ast.AssignStmt:
		s.n("(" + x.Tok.String())
		for _, l := range x.Lhs {
			s.expr(l, rn)
		}
		s.n("<-")
		for _, r := range x.Rhs {
			s.expr(r, rn)
		}
		s.n(")")
	case *ast.IncDecStmt:
		s.n("(" + x.Tok.String())
		s.expr(x.X, rn)
		s.n(")")
	case *ast.IfStmt:
		s.n("(if")
		s.stmt(x.Init, rn)
		s.expr(x.Cond, rn)
		s.block(x.Body, rn)
		if x.Else != nil {
			s.n("else")
			s.stmt(x.Else, rn)
		}
		s.n(")")
	case *ast.ForStmt:
		s.n("(for")
		s.stmt(x.Init, rn)
		if x.Cond != nil {
			s.expr(x.Cond, rn)
		}
		s.stmt(x.Post, rn)
		s.block(x.Body, rn)
		s.n(")")
	case *ast.RangeStmt:
		s.n("(range")
		if x.Key != nil {
			s.expr(x.Key, rn)
		}
		if x.Value != nil {
			s.expr(x.Value, rn)
		}
		s.expr(x.X, rn)
		s.block(x.Body, rn)
		s.n(")")
	case *ast.BranchStmt:
		s.n("(" + x.Tok.String() + ")")
	case *ast.DeclStmt:
		s.n("(decl " + fmt.Sprint(x.Decl.(*ast.GenDecl).Tok) + ")")
	default:
		s.n(fmt.Sprintf("?stmt%T", st))
	}
}

func skelOfStmt(st ast.Stmt, rn renamer) *skel {
	s := &skel{}
	s.stmt(st, rn)
	return s
}

func skelOfExpr(e ast.Expr, rn renamer) *skel {
	s := &skel{}
	s.expr(e, rn)
	return s
}

func identity(kind, name string) string { return name }

func (s *skel) namesKey() string { return strings.Join(s.names, " ") }
func (s *skel) opsKey() string   { return strings.Join(s.ops, " ") }

// swapRenamer exchanges two names of one kind.
func swapRenamer(kind, a, b string) renamer {
	return func(k, name string) string {
		if k == kind {
			if name == a {
				return b
			}
			if name == b {
				return a
			}
		}
		return name
	}
}

// mentions reports which of the given field names occur in the statement.
func mentionsFields(n ast.Node, fields ...string) map[string]bool {
	out := map[string]bool{}
	ast.Inspect(n, func(x ast.Node) bool {
		if sel, ok := x.(*ast.SelectorExpr); ok {
			for _, f := range fields {
				if sel.Sel.Name == f {
					out[f] = true
				}
			}
		}
		return true
	})
	return out
}
