package main

import (
	"fmt"
	"go/types"
	"sort"
	"strings"

	"golang.org/x/tools/go/ssa"
)

// Who-may-read / who-may-write tables for the accelerator fields.  An index
// may influence observable behaviour only through Search: so only the search
// machinery may read it, only the builders may write it, and what is written
// must have been built for this very series (never shared with another one).

type fieldRule struct {
	pkg, typ, field string
	readers, writers []string // canonical function names
	why              string
}

var accelFields = []fieldRule{
	{"geometry", "baseSeries", "index",
		[]string{"(*geometry.baseSeries).Index", "(*geometry.baseSeries).Search", "(*geometry.baseSeries).buildIndex"},
		[]string{"(*geometry.baseSeries).setCompressed", "(*geometry.baseSeries).clearIndex"},
		"the compressed segment index is read by Search (and the already-built test) and written only by the builder"},
	{"geometry", "baseSeries", "indexKind",
		[]string{"(*geometry.baseSeries).buildIndex", "(*geometry.baseSeries).Move"},
		[]string{"geometry.makeSeries", "(*geometry.baseSeries).Move"},
		"the index kind selects the builder; nothing else may depend on it"},
	{"geojson", "collection", "tree",
		[]string{"(*geojson.collection).Search", "(*geojson.collection).Indexed", "(*geojson.collection).parseInitRectIndex"},
		[]string{"(*geojson.collection).parseInitRectIndex"},
		"the child R-tree is consulted by Search/Indexed only and built once at construction"},
}

// callers of Series.Index() / (*baseSeries).Index(): deciding anything on
// the presence of an index makes answers depend on the index configuration.
var indexMethodCallers = []string{"(*geometry.baseSeries).Move"}

func inList(l []string, s string) bool {
	for _, x := range l {
		if x == s {
			return true
		}
	}
	return false
}

func (p *Program) ruleAccelTables(c *Check, ea *effAnalysis) {
	for _, fr := range accelFields {
		fv := p.Field(fr.pkg, fr.typ, fr.field)
		if fv == nil {
			c.Undecided("E3.own", "anchor:"+fr.pkg+"."+fr.typ+"."+fr.field, "", "field not found")
			continue
		}
		readers, writers := map[string]string{}, map[string]string{}
		for _, fn := range p.RepoSourceFuncs() {
			for _, b := range fn.Blocks {
				for _, in := range b.Instrs {
					var isField bool
					var refs *[]ssa.Instruction
					switch x := in.(type) {
					case *ssa.FieldAddr:
						st, ok := x.X.Type().Underlying().(*types.Pointer).Elem().Underlying().(*types.Struct)
						isField = ok && st.Field(x.Field) == fv
						refs = x.Referrers()
					case *ssa.Field:
						st, ok := x.X.Type().Underlying().(*types.Struct)
						isField = ok && st.Field(x.Field) == fv
						if isField {
							readers[SSAName(rootFn2(fn))] = p.Pos(x.Pos())
						}
						continue
					}
					if !isField {
						continue
					}
					name := SSAName(rootFn2(fn))
					for _, r := range *refs {
						if s, ok := r.(*ssa.Store); ok && s.Addr == in.(ssa.Value) {
							writers[name] = p.Pos(s.Pos())
						} else {
							readers[name] = p.Pos(r.Pos())
						}
					}
				}
			}
		}
		fname := fr.pkg + "." + fr.typ + "." + fr.field
		for _, kind := range []struct {
			got     map[string]string
			allowed []string
			verb    string
		}{{readers, fr.readers, "reads"}, {writers, fr.writers, "writes"}} {
			var names []string
			for n := range kind.got {
				names = append(names, n)
			}
			sort.Strings(names)
			for _, n := range names {
				con := fmt.Sprintf("%s %s %s", n, kind.verb, fname)
				if inList(kind.allowed, n) {
					c.OK("E3.own", con, kind.got[n], "in the audited "+kind.verb+" set: "+fr.why)
				} else {
					o := c.Bad("E3.own", con, kind.got[n], n+" "+kind.verb+" the accelerator field "+fname+": "+fr.why+"; an access from here lets an index (or its absence) influence an answer other than through Search")
					o.Expected = kind.verb + " only from {" + strings.Join(kind.allowed, ", ") + "}"
					o.Observed = n
				}
			}
		}
		c.Floor("E3.own", len(readers)+len(writers), 2, "accesses of "+fname)
	}
	// callers of the Index() accessor
	idxIface := p.IfaceMethod("geometry", "Series", "Index")
	idxConc := p.Method("geometry", "baseSeries", "Index")
	n := 0
	for _, fn := range p.RepoSourceFuncs() {
		for _, b := range fn.Blocks {
			for _, in := range b.Instrs {
				call, ok := in.(ssa.CallInstruction)
				if !ok {
					continue
				}
				cc := call.Common()
				hit := false
				if cc.IsInvoke() && idxIface != nil && cc.Method == idxIface {
					hit = true
				} else if sc := cc.StaticCallee(); sc != nil && idxConc != nil && sc.Object() == idxConc {
					hit = true
				} else if cc.IsInvoke() && cc.Method.Name() == "Index" && idxIface != nil && types.Identical(cc.Method.Type(), idxIface.Type()) {
					hit = true
				}
				if !hit || fn.Synthetic != "" {
					continue
				}
				n++
				name := SSAName(rootFn2(fn))
				con := name + " calls Index()"
				if inList(indexMethodCallers, name) {
					c.OK("E3.own", con, p.Pos(in.Pos()), "re-indexing a moved series is the only audited use")
				} else {
					o := c.Bad("E3.own", con, p.Pos(in.Pos()), "a function other than the re-indexing in Move asks whether a series has an index: its answer can then differ between index configurations")
					o.Expected = "no Index() call outside " + strings.Join(indexMethodCallers, ", ")
					o.Observed = name
				}
			}
		}
	}
	c.Count("index_accessor_calls", n)
	// what is stored into baseSeries.index is built during the same call (never shared)
	if ea != nil {
		fv := p.Field("geometry", "baseSeries", "index")
		for _, fn := range p.RepoSourceFuncs() {
			has := false
			for _, b := range fn.Blocks {
				for _, in := range b.Instrs {
					if s, ok := in.(*ssa.Store); ok {
						if fa, ok := s.Addr.(*ssa.FieldAddr); ok {
							if st, ok := fa.X.Type().Underlying().(*types.Pointer).Elem().Underlying().(*types.Struct); ok && st.Field(fa.Field) == fv {
								has = true
							}
						}
					}
				}
			}
			if !has {
				continue
			}
			st := ea.stateOf(fn)
			for _, b := range fn.Blocks {
				for _, in := range b.Instrs {
					s, ok := in.(*ssa.Store)
					if !ok {
						continue
					}
					fa, ok := s.Addr.(*ssa.FieldAddr)
					if !ok {
						continue
					}
					stt, ok := fa.X.Type().Underlying().(*types.Pointer).Elem().Underlying().(*types.Struct)
					if !ok || stt.Field(fa.Field) != fv {
						continue
					}
					con := SSAName(fn) + " stores baseSeries.index"
					shared := ""
					for l := range st.get(s.Val) {
						if l.o.root().kind != oFresh {
							shared = l.o.String()
						}
					}
					if shared == "" {
						c.OK("E3.own", con, p.Pos(s.Pos()), "the stored index was allocated during this call (or is nil)")
					} else {
						c.Bad("E3.own", con, p.Pos(s.Pos()), "the value stored as a series' index is not built here but taken from "+shared+": an index built for one series would answer for another")
					}
				}
			}
		}
	}
}

func rootFn2(fn *ssa.Function) *ssa.Function {
	for fn.Parent() != nil {
		fn = fn.Parent()
	}
	return fn
}

// stateOf recomputes the abstract state of one function (summaries of the
// callees are final at this point).
func (ea *effAnalysis) stateOf(fn *ssa.Function) *fstate {
	ea.keep = fn
	ea.analyse(fn)
	st := ea.kept
	ea.keep, ea.kept = nil, nil
	return st
}
