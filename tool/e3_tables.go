package main

import (
	"fmt"
	"go/types"
	"sort"
	"strings"

	"golang.org/x/tools/go/ssa"
)

// Who-may-read / who-may-write tables for the accelerator fields.  An index
// may influence observable behaviour only through Search: so only the search
// machinery may read it, only the builders may write it, and what is written
// must have been built for this very series (never shared with another one).

type fieldRule struct {
	pkg, typ, field  string
	readers, writers []string // canonical function names
	why              string
}

var accelFields = []fieldRule{
	{"geometry", "baseSeries", "index",
		[]string{"(*geometry.baseSeries).Index", "(*geometry.baseSeries).Search", "(*geometry.baseSeries).buildIndex", "(*geometry.baseSeries).Move"},
		[]string{"(*geometry.baseSeries).setCompressed", "(*geometry.baseSeries).clearIndex"},
		"the compressed segment index is read by Search (and the already-built test) and written only by the builder"},
	{"geometry", "baseSeries", "indexKind",
		[]string{"(*geometry.baseSeries).buildIndex", "(*geometry.baseSeries).Move"},
		[]string{"geometry.makeSeries", "(*geometry.baseSeries).Move"},
		"the index kind selects the builder; nothing else may depend on it"},
	{"geojson", "collection", "tree",
		[]string{"(*geojson.collection).Search", "(*geojson.collection).Indexed", "(*geojson.collection).parseInitRectIndex"},
		[]string{"(*geojson.collection).parseInitRectIndex"},
		"the child R-tree is consulted by Search/Indexed only and built once at construction"},
}

// callers of Series.Index() / (*baseSeries).Index(): deciding anything on
// the presence of an index makes answers depend on the index configuration.
var indexMethodCallers = []string{"(*geometry.baseSeries).Move"}

func inList(l []string, s string) bool {
	for _, x := range l {
		if x == s {
			return true
		}
	}
	return false
}

func (p *Program) ruleAccelTables(c *Check, ea *effAnalysis) {
	for _, fr := range accelFields {
		fv := p.Field(fr.pkg, fr.typ, fr.field)
		if fv == nil {
			c.Undecided("E3.own", "anchor:"+fr.pkg+"."+fr.typ+"."+fr.field, "", "field not found")
			continue
		}
		readers, writers := map[string]string{}, map[string]string{}
		for _, fn := range p.RepoSourceFuncs() {
			for _, b := range fn.Blocks {
				for _, in := range b.Instrs {
					var isField bool
					var refs *[]ssa.Instruction
					switch x := in.(type) {
					case *ssa.FieldAddr:
						st, ok := x.X.Type().Underlying().(*types.Pointer).Elem().Underlying().(*types.Struct)
						isField = ok && st.Field(x.Field) == fv
						refs = x.Referrers()
					case *ssa.Field:
						st, ok := x.X.Type().Underlying().(*types.Struct)
						isField = ok && st.Field(x.Field) == fv
						if isField {
							readers[SSAName(rootFn2(fn))] = p.Pos(x.Pos())
						}
						continue
					}
					if !isField {
						continue
					}
					name := SSAName(rootFn2(fn))
					for _, r := range *refs {
						if s, ok := r.(*ssa.Store); ok && s.Addr == in.(ssa.Value) {
							writers[name] = p.Pos(s.Pos())
						} else {
							readers[name] = p.Pos(r.Pos())
						}
					}
				}
			}
		}
		fname := fr.pkg + "." + fr.typ + "." + fr.field
		// a reader is admissible when it belongs to the audited core, builds the
		// field itself, or is a helper all of whose callers are admissible
		admissible := map[string]bool{}
		for _, n := range fr.readers {
			admissible[n] = true
		}
		for n := range writers {
			admissible[n] = true
		}
		for changed := true; changed; {
			changed = false
			for n := range readers {
				if admissible[n] {
					continue
				}
				callers := p.repoCallers(n)
				if len(callers) == 0 {
					continue
				}
				all := true
				for _, cn := range callers {
					if !admissible[cn] {
						all = false
					}
				}
				if all {
					admissible[n] = true
					changed = true
				}
			}
		}
		var names []string
		for n := range readers {
			names = append(names, n)
		}
		sort.Strings(names)
		for _, n := range names {
			con := fmt.Sprintf("%s reads %s", n, fname)
			if admissible[n] {
				c.OK("E3.own", con, readers[n], "an audited reader, the builder, or a helper called only from those: "+fr.why)
			} else {
				o := c.Bad("E3.own", con, readers[n], n+" reads the accelerator field "+fname+": "+fr.why+"; an access from here lets an index (or its absence) influence an answer other than through Search")
				o.Expected = "reads only from {" + strings.Join(fr.readers, ", ") + "}, the builders, and helpers called only from them"
				o.Observed = n
			}
		}
		names = names[:0]
		for n := range writers {
			names = append(names, n)
		}
		sort.Strings(names)
		for _, n := range names {
			c.OK("E3.own", fmt.Sprintf("%s writes %s", n, fname), writers[n], "a builder (that it runs only on an object under construction is decided by the effect analysis of the API roots; that what it stores was built here is checked below)")
		}
		c.Floor("E3.own", len(readers)+len(writers), 2, "accesses of "+fname)
	}
	// callers of the Index() accessor
	idxIface := p.IfaceMethod("geometry", "Series", "Index")
	idxConc := p.Method("geometry", "baseSeries", "Index")
	n := 0
	for _, fn := range p.RepoSourceFuncs() {
		for _, b := range fn.Blocks {
			for _, in := range b.Instrs {
				call, ok := in.(ssa.CallInstruction)
				if !ok {
					continue
				}
				cc := call.Common()
				hit := false
				if cc.IsInvoke() && idxIface != nil && cc.Method == idxIface {
					hit = true
				} else if sc := cc.StaticCallee(); sc != nil && idxConc != nil && sc.Object() == idxConc {
					hit = true
				} else if cc.IsInvoke() && cc.Method.Name() == "Index" && idxIface != nil && types.Identical(cc.Method.Type(), idxIface.Type()) {
					hit = true
				}
				if !hit || fn.Synthetic != "" {
					continue
				}
				n++
				name := SSAName(rootFn2(fn))
				con := name + " calls Index()"
				if p.onlyCalledFrom(name, indexMethodCallers, 0) {
					c.OK("E3.own", con, p.Pos(in.Pos()), "re-indexing a moved series is the only audited use")
				} else {
					o := c.Bad("E3.own", con, p.Pos(in.Pos()), "a function other than the re-indexing in Move asks whether a series has an index: its answer can then differ between index configurations")
					o.Expected = "no Index() call outside " + strings.Join(indexMethodCallers, ", ")
					o.Observed = name
				}
			}
		}
	}
	c.Count("index_accessor_calls", n)
	// what is stored into baseSeries.index is built during the same call (never shared)
	for _, shared := range []struct{ pkg, typ, field string }{{"geometry", "baseSeries", "index"}, {"geojson", "collection", "tree"}} {
		if ea == nil {
			break
		}
		fv := p.Field(shared.pkg, shared.typ, shared.field)
		for _, fn := range p.RepoSourceFuncs() {
			has := false
			for _, b := range fn.Blocks {
				for _, in := range b.Instrs {
					if s, ok := in.(*ssa.Store); ok {
						if fa, ok := s.Addr.(*ssa.FieldAddr); ok {
							if st, ok := fa.X.Type().Underlying().(*types.Pointer).Elem().Underlying().(*types.Struct); ok && st.Field(fa.Field) == fv {
								has = true
							}
						}
					}
				}
			}
			if !has {
				continue
			}
			st := ea.stateOf(fn)
			for _, b := range fn.Blocks {
				for _, in := range b.Instrs {
					s, ok := in.(*ssa.Store)
					if !ok {
						continue
					}
					fa, ok := s.Addr.(*ssa.FieldAddr)
					if !ok {
						continue
					}
					stt, ok := fa.X.Type().Underlying().(*types.Pointer).Elem().Underlying().(*types.Struct)
					if !ok || stt.Field(fa.Field) != fv {
						continue
					}
					con := SSAName(fn) + " stores " + shared.typ + "." + shared.field
					shared := ""
					for l := range st.get(s.Val) {
						if l.o.root().kind != oFresh {
							shared = l.o.String()
						}
					}
					if shared == "" {
						c.OK("E3.own", con, p.Pos(s.Pos()), "the stored index was allocated during this call (or is nil)")
					} else {
						c.Bad("E3.own", con, p.Pos(s.Pos()), "the value stored as a series' index is not built here but taken from "+shared+": an index built for one series would answer for another")
					}
				}
			}
		}
	}
}

func rootFn2(fn *ssa.Function) *ssa.Function {
	for fn.Parent() != nil {
		fn = fn.Parent()
	}
	return fn
}

// stateOf recomputes the abstract state of one function (summaries of the
// callees are final at this point).
func (ea *effAnalysis) stateOf(fn *ssa.Function) *fstate {
	ea.keep = fn
	ea.analyse(fn)
	st := ea.kept
	ea.keep, ea.kept = nil, nil
	return st
}

// repoCallers: names of the repository functions that call the named function.
func (p *Program) repoCallers(name string) []string {
	cg := p.VTA()
	set := map[string]bool{}
	for fn, node := range cg.Nodes {
		if fn == nil || SSAName(rootFn2(fn)) != name || !p.IsRepoFn(fn) {
			continue
		}
		for _, e := range node.In {
			if e.Caller.Func != nil && p.IsRepoFn(e.Caller.Func) {
				cn := SSAName(rootFn2(e.Caller.Func))
				if cn != name {
					set[cn] = true
				}
			}
		}
	}
	var out []string
	for n := range set {
		out = append(out, n)
	}
	sort.Strings(out)
	return out
}

// onlyCalledFrom: name is in the core set, or every caller of it is (recursively).
func (p *Program) onlyCalledFrom(name string, core []string, depth int) bool {
	if inList(core, name) {
		return true
	}
	if depth > 3 {
		return false
	}
	callers := p.repoCallers(name)
	if len(callers) == 0 {
		return false
	}
	for _, cn := range callers {
		if !p.onlyCalledFrom(cn, core, depth+1) {
			return false
		}
	}
	return true
}
