package main

import (
	"fmt"
	"go/ast"
	"go/types"
	"math"
	"sort"
	"strings"

	"golang.org/x/tools/go/types/typeutil"
)

// E14 (part 3) — the rules built on the unit/axis/range interpreter and on
// the term algebra.

// ruleGeoUnits: every function of the public spherical API type-checks
// dimensionally against its stated units, never lets a latitude meet a
// longitude, and (where the property states one) keeps its result inside the
// stated range for all inputs in the stated ranges.
func (p *Program) ruleGeoUnits(c *Check, only map[string]bool, ranges bool) {
	c.Assume("E14 units/ranges: real arithmetic (rounding is not modelled); inputs lie in the ranges the property states (latitude [-90,90], longitude [-180,180], distance [0, half circumference)); a constant between 6.3e6 and 6.4e6 is the Earth's radius in metres per radian; the literals 180/360/90/270 may be read as degrees")
	var names []string
	for n := range geoSpecs {
		if only == nil || only[n] {
			names = append(names, n)
		}
	}
	sort.Strings(names)
	n := 0
	for _, name := range names {
		spec := geoSpecs[name]
		fn := p.Func("geo", name)
		con := "geo." + name
		if fn == nil || p.Decl(fn) == nil || p.Decl(fn).Body == nil {
			c.Undecided("E14.units", "anchor:"+con, "", "function of the spherical API not found")
			continue
		}
		sig := fn.Type().(*types.Signature)
		if sig.Params().Len() != len(spec.params) || sig.Results().Len() != len(spec.results) {
			c.Undecided("E14.units", con, p.declPos(fn), "the signature no longer matches the table of stated units")
			continue
		}
		n++
		ui := &uInterp{p: p}
		var args []*uval
		for _, ps := range spec.params {
			args = append(args, &uval{units: []unit{ps.unit}, axis: ps.axis, lo: ps.lo, hi: ps.hi})
		}
		res := ui.fn(fn, args)
		if len(ui.issues) > 0 {
			is := ui.issues[0]
			o := c.Bad("E14.units", con, p.Pos(is.pos), is.text)
			o.Expected = "every operation has a consistent reading in degrees / radians / metres, and latitudes never meet longitudes"
			continue
		}
		if len(res) != len(spec.results) {
			c.Undecided("E14.units", con, p.declPos(fn), fmt.Sprintf("%d results were derived, %d expected", len(res), len(spec.results)))
			continue
		}
		bad := ""
		for i, r := range spec.results {
			v := res[i]
			if v == nil {
				bad = fmt.Sprintf("result %d could not be derived", i+1)
				break
			}
			if v.units != nil && !v.lit && !hasUnit(v.units, r.unit) {
				bad = fmt.Sprintf("result %d is returned in %s; the API states %s", i+1, v.unitString(), r.unit.String())
				break
			}
			if r.axis != axNone && v.axis != axNone && v.axis != r.axis {
				bad = fmt.Sprintf("result %d is %s but is returned in the slot of %s", i+1, axisName(v.axis), axisName(r.axis))
				break
			}
		}
		if bad != "" {
			c.Bad("E14.units", con, p.declPos(fn), bad)
			continue
		}
		c.OK("E14.units", con, p.declPos(fn), "dimensionally consistent with its stated units; no latitude/longitude confusion")
		if !ranges {
			continue
		}
		for i, r := range spec.results {
			if math.IsInf(r.lo, 0) && math.IsInf(r.hi, 0) {
				continue
			}
			v := res[i]
			rcon := fmt.Sprintf("%s#result%d in [%g, %g]", con, i+1, r.lo, r.hi)
			tol := 1e-9 * math.Max(1, math.Max(math.Abs(r.lo), math.Abs(r.hi)))
			if v.lo >= r.lo-tol && v.hi <= r.hi+tol {
				c.OK("E14.range", rcon, p.declPos(fn), fmt.Sprintf("derived interval [%g, %g] for all inputs in the stated ranges (real arithmetic)", v.lo, v.hi))
			} else {
				o := c.Bad("E14.range", rcon, p.declPos(fn), fmt.Sprintf("the result can leave the stated range: the derived interval is [%g, %g]", v.lo, v.hi))
				o.Expected = fmt.Sprintf("[%g, %g]", r.lo, r.hi)
				o.Observed = fmt.Sprintf("[%g, %g]", v.lo, v.hi)
			}
		}
	}
	if only == nil {
		c.Floor("E14.units", n, len(geoSpecs), "functions of the spherical API")
	}
}

// ruleGeoCallers: the object layer hands Y to latitude slots and X to
// longitude slots of the spherical API, and stores what comes back the same
// way round.
func (p *Program) ruleGeoCallers(c *Check) {
	n := 0
	for _, fn := range p.RepoDecls() {
		fd, pkg := p.Decl(fn), p.DeclPkg(fn)
		if fd == nil || fd.Body == nil || pkg != p.Geojson {
			continue
		}
		callsGeo := false
		ast.Inspect(fd.Body, func(nd ast.Node) bool {
			if call, ok := nd.(*ast.CallExpr); ok {
				if cal, ok := typeutil.Callee(pkg.TypesInfo, call).(*types.Func); ok && cal.Pkg() == p.Geo.Types {
					callsGeo = true
				}
			}
			return true
		})
		if !callsGeo {
			continue
		}
		n++
		ui := &uInterp{p: p}
		ui.fn(fn, nil)
		con := FuncName(fn) + "#geo-calls"
		if len(ui.issues) > 0 {
			is := ui.issues[0]
			c.Bad("E14.axis", con, p.Pos(is.pos), is.text)
		} else {
			c.OK("E14.axis", con, p.declPos(fn), "Y goes to latitude slots and X to longitude slots; results are stored the same way round; degrees throughout")
		}
	}
	c.Floor("E14.axis", n, 3, "object-layer functions that call the spherical API")
}

// ruleGeoAlgebra: identities between the spherical primitives, decided on
// normal forms of their formulas.
func (p *Program) ruleGeoAlgebra(c *Check) {
	c.Assume("E14 algebra: identities are decided between normal forms in real arithmetic with the rewrite rules listed in e14_cas.go, whose domain conditions (|x|<=1 for sin(asin x), |t|<=pi/2 for asin(sin t), x>=0 for sqrt(x^2)) hold for distances up to half the circumference; numeric conversions (int32, float64) are read as the identity")
	get := func(name string) *types.Func { return p.Func("geo", name) }
	need := func(names ...string) bool {
		for _, n := range names {
			if f := get(n); f == nil || p.Decl(f) == nil {
				c.Undecided("E14.algebra", "anchor:geo."+n, "", "function not found")
				return false
			}
		}
		return true
	}
	check := func(id, what string, build func(ce *casEval) (lhs, rhs *casPoly)) {
		casArgs = map[string]casApp{}
		ce := &casEval{p: p}
		l, r := build(ce)
		if ce.err != "" || l == nil || r == nil {
			c.Undecided("E14.algebra", id, "", "the formulas could not be brought to normal form ("+ce.err+"); identity: "+what)
			return
		}
		l, r = casNormalize(l), casNormalize(r)
		if casEqual(l, r) {
			c.OK("E14.algebra", id, "", what+" — both sides have the normal form "+clip(l.String(), 160))
		} else {
			o := c.Bad("E14.algebra", id, "", "the identity does not hold between the formulas in the source: "+what)
			o.Expected = clip(r.String(), 300)
			o.Observed = clip(l.String(), 300)
		}
	}
	one := func(ce *casEval, f string, args ...*casPoly) *casPoly {
		for _, a := range args {
			if a == nil {
				ce.fail("missing argument for %s", f)
				return casAtom("?")
			}
		}
		res := ce.fn(get(f), args)
		if len(res) < 1 || res[0] == nil {
			ce.fail("no result of %s", f)
			return casAtom("?")
		}
		return res[0]
	}
	v := casAtom
	if need("DistanceToHaversine", "DistanceFromHaversine") {
		check("geo: DistanceFromHaversine∘DistanceToHaversine = id", "converting metres to a haversine and back returns the metres (distances up to half the circumference)", func(ce *casEval) (*casPoly, *casPoly) {
			return one(ce, "DistanceFromHaversine", one(ce, "DistanceToHaversine", v("d"))), v("d")
		})
		check("geo: DistanceToHaversine∘DistanceFromHaversine = id", "converting a haversine to metres and back returns the haversine", func(ce *casEval) (*casPoly, *casPoly) {
			return one(ce, "DistanceToHaversine", one(ce, "DistanceFromHaversine", v("h"))), v("h")
		})
	}
	if need("Haversine") {
		check("geo: Haversine symmetric", "the haversine of (A,B) is the haversine of (B,A)", func(ce *casEval) (*casPoly, *casPoly) {
			return one(ce, "Haversine", v("a"), v("b"), v("c"), v("d")), one(ce, "Haversine", v("c"), v("d"), v("a"), v("b"))
		})
		check("geo: Haversine of identical locations", "the haversine of a location to itself is zero", func(ce *casEval) (*casPoly, *casPoly) {
			return one(ce, "Haversine", v("a"), v("b"), v("a"), v("b")), casInt(0)
		})
	}
	if need("Haversine", "DistanceToHaversine", "DistanceFromHaversine") {
		// along a meridian and along the equator the great-circle distance is the arc R·Δ: the two
		// definitions of "haversine" (from coordinates, from metres) must agree there
		check("geo: Haversine along a meridian", "for two locations on one meridian the haversine is sin² of half their latitude difference (the definition of the haversine of the central angle)", func(ce *casEval) (*casPoly, *casPoly) {
			lhs := one(ce, "Haversine", v("a"), v("l"), v("b"), v("l"))
			rad, _ := casDiv(casMul(casAdd(v("b"), v("a"), -1), v("π")), casInt(180))
			s := casApply("sin", casMul(rad, casConst(bigRat(1, 2))))
			rhs := casMul(s, s)
			return lhs, rhs
		})
		check("geo: Haversine along the equator", "for two locations on the equator the haversine is sin² of half their longitude difference", func(ce *casEval) (*casPoly, *casPoly) {
			lhs := one(ce, "Haversine", casInt(0), v("a"), casInt(0), v("b"))
			rad, _ := casDiv(casMul(casAdd(v("b"), v("a"), -1), v("π")), casInt(180))
			s := casApply("sin", casMul(rad, casConst(bigRat(1, 2))))
			return lhs, casMul(s, s)
		})
	}
	if need("DistanceTo", "Haversine", "DistanceFromHaversine") {
		check("geo: DistanceTo = DistanceFromHaversine∘Haversine", "the distance between two locations is the metre value of their haversine", func(ce *casEval) (*casPoly, *casPoly) {
			return one(ce, "DistanceTo", v("a"), v("b"), v("c"), v("d")), one(ce, "DistanceFromHaversine", one(ce, "Haversine", v("a"), v("b"), v("c"), v("d")))
		})
		check("geo: DistanceTo of identical locations", "the distance of a location to itself is zero", func(ce *casEval) (*casPoly, *casPoly) {
			return one(ce, "DistanceTo", v("a"), v("b"), v("a"), v("b")), casInt(0)
		})
	}
	if need("NormalizeDistance", "DistanceToHaversine") {
		check("geo: NormalizeDistance idempotent", "normalising a normalised distance changes nothing", func(ce *casEval) (*casPoly, *casPoly) {
			n1 := one(ce, "NormalizeDistance", v("d"))
			return one(ce, "NormalizeDistance", n1), n1
		})
		check("geo: DistanceToHaversine has the period of NormalizeDistance", "adding the normalisation modulus to a distance leaves its haversine unchanged", func(ce *casEval) (*casPoly, *casPoly) {
			n1 := one(ce, "NormalizeDistance", v("d"))
			args, ok := inner2(n1, "mod")
			if !ok || len(args) != 2 {
				ce.fail("NormalizeDistance is not a single math.Mod")
				return nil, nil
			}
			return one(ce, "DistanceToHaversine", casAdd(v("d"), args[1], 1)), one(ce, "DistanceToHaversine", v("d"))
		})
	}
	if need("DegsToSemi", "SemiToDegs") {
		check("geo: SemiToDegs∘DegsToSemi = id", "semicircle encoding and decoding use reciprocal scale factors", func(ce *casEval) (*casPoly, *casPoly) {
			return one(ce, "SemiToDegs", one(ce, "DegsToSemi", v("x"))), v("x")
		})
	}
	if need("DestinationPoint") {
		check("geo: DestinationPoint at distance zero keeps the latitude", "travelling zero metres along any bearing ends at the starting latitude", func(ce *casEval) (*casPoly, *casPoly) {
			res := ce.fn(get("DestinationPoint"), []*casPoly{v("a"), v("b"), casInt(0), v("t")})
			if len(res) != 2 {
				ce.fail("DestinationPoint does not return two values")
				return nil, nil
			}
			return res[0], v("a")
		})
	}
}

func clip(s string, n int) string {
	if len(s) > n {
		return s[:n] + "…"
	}
	return s
}

// geoFuncsUsed: for the explanation text.
func geoSpecNames() string {
	var names []string
	for n := range geoSpecs {
		names = append(names, n)
	}
	sort.Strings(names)
	return strings.Join(names, ", ")
}

// ruleCircleApproximation (C13): the polygon that stands for a Circle in
// planar predicates is the ellipse centred on the circle's own centre whose
// half-widths are half the spans between the cardinal destination points
// (east/west for X, north/south for Y) at the circle's radius.  The vertex
// formula in makeCircleObject is brought to normal form and compared with
// that specification, with geo.DestinationPoint and geo.NormalizeDistance kept
// as uninterpreted applications.
func (p *Program) ruleCircleApproximation(c *Check) {
	fn := p.Func("geojson", "makeCircleObject")
	fd, pkg := p.Decl(fn), p.DeclPkg(fn)
	con := "geojson.makeCircleObject#vertex"
	dp, nd := p.Func("geo", "DestinationPoint"), p.Func("geo", "NormalizeDistance")
	if fd == nil || dp == nil || nd == nil || len(fd.Type.Params.List) == 0 {
		c.Undecided("E14.circle", con, "", "makeCircleObject / geo.DestinationPoint / geo.NormalizeDistance not found")
		return
	}
	info := pkg.TypesInfo
	casArgs = map[string]casApp{}
	ce := &casEval{p: p, opaque: map[*types.Func]bool{dp: true, nd: true}}
	env := &casEnv{info: info, vars: map[types.Object]*casPoly{}, tup: map[types.Object][]*casPoly{}}
	var params []string
	for _, fl := range fd.Type.Params.List {
		for _, nm := range fl.Names {
			o := info.Defs[nm]
			params = append(params, nm.Name)
			if b, ok := o.Type().Underlying().(*types.Basic); ok && b.Info()&types.IsNumeric != 0 {
				env.vars[o] = casAtom(nm.Name)
			} else if sv := casAtomStruct(nm.Name, o.Type(), 0); sv != nil {
				if env.structs == nil {
					env.structs = map[types.Object]*casStruct{}
				}
				env.structs[o] = sv
			}
		}
	}
	if len(params) < 2 {
		c.Undecided("E14.circle", con, p.declPos(fn), "unexpected signature")
		return
	}
	centre, radius := params[0], params[1]
	// the straight-line prefix, then the body of the vertex loop with its loop variable free
	var vx, vy *casPoly
	var loopVar string
	var walk func(list []ast.Stmt) bool
	findPoint := func(n ast.Node) {
		ast.Inspect(n, func(m ast.Node) bool {
			cl, ok := m.(*ast.CompositeLit)
			if !ok || vx != nil {
				return true
			}
			nt, ok := types.Unalias(derefType(info.TypeOf(cl))).(*types.Named)
			if !ok || nt.Obj().Name() != "Point" || nt.Obj().Pkg() != p.Geom.Types || len(cl.Elts) != 2 {
				return true
			}
			var ex, ey ast.Expr
			for i, el := range cl.Elts {
				if kv, ok := el.(*ast.KeyValueExpr); ok {
					switch types.ExprString(kv.Key) {
					case "X":
						ex = kv.Value
					case "Y":
						ey = kv.Value
					}
				} else if i == 0 {
					ex = el
				} else {
					ey = el
				}
			}
			if ex != nil && ey != nil {
				vx, vy = ce.expr(env, ex), ce.expr(env, ey)
			}
			return true
		})
	}
	// the vertex loop may live in a helper that is handed the centre and the half-spans
	intoHelper := func(st ast.Stmt) bool {
		var target *ast.CallExpr
		var callee *types.Func
		ast.Inspect(st, func(n ast.Node) bool {
			call, ok := n.(*ast.CallExpr)
			if !ok || target != nil {
				return true
			}
			f, _ := typeutil.Callee(info, call).(*types.Func)
			if f == nil || f.Pkg() != fn.Pkg() || f == fn {
				return true
			}
			hd := p.Decl(f)
			if hd == nil || hd.Body == nil {
				return true
			}
			for _, hs := range hd.Body.List {
				if _, isFor := hs.(*ast.ForStmt); isFor {
					target, callee = call, f
				}
			}
			return true
		})
		if target == nil {
			return false
		}
		hd := p.Decl(callee)
		nenv := &casEnv{info: info, vars: map[types.Object]*casPoly{}, tup: map[types.Object][]*casPoly{}, structs: map[types.Object]*casStruct{}}
		i := 0
		for _, fl := range hd.Type.Params.List {
			for _, nm := range fl.Names {
				if i < len(target.Args) {
					o := info.Defs[nm]
					if isStructType(o.Type()) {
						if sv := ce.structOf(env, target.Args[i]); sv != nil {
							nenv.structs[o] = sv
						}
					} else if b, ok := o.Type().Underlying().(*types.Basic); ok && b.Info()&types.IsNumeric != 0 {
						nenv.vars[o] = ce.expr(env, target.Args[i])
					}
				}
				i++
			}
		}
		env = nenv
		return walk(hd.Body.List)
	}
	walk = func(list []ast.Stmt) bool {
		for _, st := range list {
			if _, isFor := st.(*ast.ForStmt); !isFor {
				if _, isIf := st.(*ast.IfStmt); !isIf && intoHelper(st) {
					return true
				}
			}
			switch s := st.(type) {
			case *ast.IfStmt:
				// a guard that returns early (degenerate radius) is not part of the vertex formula
				continue
			case *ast.ForStmt:
				if as, ok := s.Init.(*ast.AssignStmt); ok {
					for _, l := range as.Lhs {
						if id, ok := l.(*ast.Ident); ok {
							env.vars[info.ObjectOf(id)] = casAtom(id.Name)
							loopVar = id.Name
						}
					}
				}
				for _, bs := range s.Body.List {
					switch b := bs.(type) {
					case *ast.AssignStmt:
						if call, ok := ast.Unparen(b.Rhs[0]).(*ast.CallExpr); ok && len(b.Rhs) == 1 {
							if _, isB := typeutil.Callee(info, call).(*types.Builtin); isB {
								findPoint(b)
								continue
							}
						}
						findPoint(b)
						if vx == nil {
							ce.stmts(env, []ast.Stmt{b}, nil, "makeCircleObject")
						}
					case *ast.ExprStmt:
						findPoint(b)
					}
				}
				return true
			case *ast.AssignStmt:
				// slices and other non-numeric definitions are skipped
				numeric := true
				for _, r := range s.Rhs {
					if t := info.TypeOf(r); t != nil {
						if tup, ok := t.(*types.Tuple); ok {
							for i := 0; i < tup.Len(); i++ {
								if b, ok := tup.At(i).Type().Underlying().(*types.Basic); !ok || b.Info()&types.IsNumeric == 0 {
									numeric = false
								}
							}
						} else if isStructType(t) {
							// struct values (boxes, points) are tracked field by field
						} else if b, ok := t.Underlying().(*types.Basic); !ok || b.Info()&types.IsNumeric == 0 {
							numeric = false
						}
					}
				}
				if numeric {
					ce.stmts(env, []ast.Stmt{s}, nil, "makeCircleObject")
				}
			case *ast.DeclStmt:
				ce.stmts(env, []ast.Stmt{s}, nil, "makeCircleObject")
			}
		}
		return false
	}
	if !walk(fd.Body.List) || vx == nil || vy == nil || loopVar == "" {
		c.Undecided("E14.circle", con, p.declPos(fn), "the vertex loop (a geometry.Point built from an angle variable) was not found"+map[bool]string{true: " (" + ce.err + ")", false: ""}[ce.err != ""])
		return
	}
	if ce.err != "" {
		c.Undecided("E14.circle", con, p.declPos(fn), "the vertex formula could not be brought to normal form: "+ce.err)
		return
	}
	cx, cy := casAtom(centre+".X"), casAtom(centre+".Y")
	th, _ := casDiv(casMul(casAtom(loopVar), casAtom("π")), casInt(180))
	specFor := func(m *casPoly) (*casPoly, *casPoly) {
		d := func(k int, bearing int64) *casPoly {
			return casApply(fmt.Sprintf("geo.DestinationPoint#%d", k), cy, cx, m, casInt(bearing))
		}
		hx, _ := casDiv(casAdd(d(1, 90), d(1, 270), -1), casInt(2))
		hy, _ := casDiv(casAdd(d(0, 0), d(0, 180), -1), casInt(2))
		return casAdd(cx, casMul(hx, casApply("cos", th)), 1), casAdd(cy, casMul(hy, casApply("sin", th)), 1)
	}
	vx, vy = casNormalize(vx), casNormalize(vy)
	ok := false
	var wantX, wantY *casPoly
	for _, m := range []*casPoly{casApply("geo.NormalizeDistance#0", casAtom(radius)), casAtom(radius)} {
		wantX, wantY = specFor(m)
		if casEqual(vx, casNormalize(wantX)) && casEqual(vy, casNormalize(wantY)) {
			ok = true
			break
		}
	}
	if ok {
		c.OK("E14.circle", con, p.declPos(fn), "vertex(θ) = centre + (half the east–west span · cos θ, half the north–south span · sin θ), spans taken from geo.DestinationPoint at the circle's radius and bearings 90/270 and 0/180")
	} else {
		o := c.Bad("E14.circle", con, p.declPos(fn), "the vertices of the polygon approximation are not the ellipse centred on the circle's centre with the cardinal half-spans: planar predicates on the Circle would be answered for a different shape")
		o.Expected = clip("X = "+wantX.String()+" ; Y = "+wantY.String(), 400)
		o.Observed = clip("X = "+vx.String()+" ; Y = "+vy.String(), 400)
	}
}

// ruleGeoScenarios (C14): for every centre within one degree of a pole and
// every radius between 200 km and 5000 km the disc reaches over the pole, so
// the rectangle must stop at the pole and span all longitudes.  Decided by the
// interval interpreter with the inputs restricted to that scenario (branches
// whose condition the intervals decide are followed on the decided side only).
func (p *Program) ruleGeoScenarios(c *Check) {
	fn := p.Func("geo", "RectFromCenter")
	if fn == nil || p.Decl(fn) == nil {
		c.Undecided("E14.pole", "anchor:geo.RectFromCenter", "", "function not found")
		return
	}
	type want struct {
		idx  int
		v    float64
		what string
	}
	for _, sc := range []struct {
		name  string
		lat   [2]float64
		wants []want
	}{
		{"north pole", [2]float64{89, 90}, []want{{2, 90, "maxLat"}, {1, -180, "minLon"}, {3, 180, "maxLon"}}},
		{"south pole", [2]float64{-90, -89}, []want{{0, -90, "minLat"}, {1, -180, "minLon"}, {3, 180, "maxLon"}}},
	} {
		ui := &uInterp{p: p}
		args := []*uval{
			{units: []unit{uDeg}, axis: axLat, lo: sc.lat[0], hi: sc.lat[1]},
			{units: []unit{uDeg}, axis: axLon, lo: -180, hi: 180},
			{units: []unit{uM}, lo: 2e5, hi: 5e6},
		}
		res := ui.fn(fn, args)
		con := "geo.RectFromCenter@" + sc.name
		if len(res) != 4 {
			c.Undecided("E14.pole", con, p.declPos(fn), "four results expected")
			continue
		}
		bad := ""
		for _, w := range sc.wants {
			v := res[w.idx]
			if v == nil || math.Abs(v.lo-w.v) > 1e-9 || math.Abs(v.hi-w.v) > 1e-9 {
				lo, hi := math.NaN(), math.NaN()
				if v != nil {
					lo, hi = v.lo, v.hi
				}
				bad = fmt.Sprintf("%s is not %g for every disc that reaches over the %s: derived interval [%g, %g]", w.what, w.v, sc.name, lo, hi)
				break
			}
		}
		if bad != "" {
			c.Bad("E14.pole", con, p.declPos(fn), bad+" — a disc over the pole needs the rectangle to stop at the pole and to span all longitudes")
		} else {
			c.OK("E14.pole", con, p.declPos(fn), "centres within 1° of the pole, radii 200–5000 km: the latitude bound is the pole and the longitude bounds are -180 and 180")
		}
	}
}
