package main

import (
	"fmt"
	"go/ast"
	"go/types"
	"sort"
	"strings"
)

// E1 — dispatch / forwarding conformance.  See DESIGN.md §3/E1.

type leafKind struct {
	Name     string       // geojson type name
	Named    *types.Named // geojson.K
	BaseVar  *types.Var   // the field that holds the geometry
	Geom     string       // Point | Rect | Line | Poly
	GeomType *types.Named
	ByAddr   bool // geometry methods take *T (Line, Poly)
}

var geomKinds = []string{"Rect", "Point", "Line", "Poly"}

var objectKinds = []string{"Point", "SimplePoint", "LineString", "Polygon", "Rect", "Circle",
	"MultiPoint", "MultiLineString", "MultiPolygon", "GeometryCollection", "Feature", "FeatureCollection"}

func (p *Program) leafKinds(c *Check, rule string) []*leafKind {
	var out []*leafKind
	for _, name := range []string{"Point", "SimplePoint", "LineString", "Polygon", "Rect"} {
		n := p.Named("geojson", name)
		if n == nil {
			c.Undecided(rule, "anchor:geojson."+name, "", "leaf kind type not found")
			continue
		}
		st, ok := n.Underlying().(*types.Struct)
		if !ok {
			c.Undecided(rule, "anchor:geojson."+name, "", "leaf kind is not a struct")
			continue
		}
		lk := &leafKind{Name: name, Named: n}
		for i := 0; i < st.NumFields(); i++ {
			ft, ok := types.Unalias(st.Field(i).Type()).(*types.Named)
			if !ok || ft.Obj().Pkg() != p.Geom.Types {
				continue
			}
			for _, g := range geomKinds {
				if ft.Obj().Name() == g {
					lk.BaseVar = st.Field(i)
					lk.Geom = g
					lk.GeomType = ft
					lk.ByAddr = g == "Line" || g == "Poly"
				}
			}
			if lk.BaseVar != nil {
				break
			}
		}
		if lk.BaseVar == nil {
			c.Undecided(rule, "anchor:geojson."+name, "", "no field of a geometry kind (Point/Rect/Line/Poly) found in leaf kind")
			continue
		}
		out = append(out, lk)
	}
	return out
}

// baseArg is the base geometry of a leaf kind as it is passed as an argument
// (by address for Line/Poly); baseRecv the same as a method receiver.
func (lk *leafKind) baseArg(obj *Term) *Term {
	f := tField(obj, lk.BaseVar)
	if lk.ByAddr {
		return tAddr(f)
	}
	return f
}

func geomParamTerm(i int) *Term { return tParam(i) }

func (p *Program) declPos(fn *types.Func) string {
	if d := p.Decl(fn); d != nil {
		return p.Pos(d.Pos())
	}
	return ""
}

// expectForward checks that fn is a pure forwarder whose final term equals one
// of the expected terms.
func (p *Program) expectForward(c *Check, rule string, fn *types.Func, why string, expected ...*Term) {
	if fn == nil {
		c.Undecided(rule, "anchor:"+why, "", "method not found")
		return
	}
	name := FuncName(fn)
	sh, ok := p.shapeOf(fn)
	if !ok || !sh.pureForwarder() {
		o := c.Undecided(rule, name, p.declPos(fn), "body is not of the forwarding shape `[if x == nil {return false}]* return <call>`; the clause '"+why+"' cannot be decided structurally")
		if len(expected) > 0 {
			o.Expected = expected[0].String()
		}
		return
	}
	got := sh.final().String()
	var exps []string
	for _, e := range expected {
		if e.String() == got {
			c.OK(rule, name, p.declPos(fn), why+": returns "+got)
			return
		}
		exps = append(exps, e.String())
	}
	// the same comparison after expanding same-package helper forwarders on both sides
	// (an accessor such as `func (g *Feature) baseSpatial() Spatial { return g.base.Spatial() }`)
	gotI := p.inlineIn(sh.final(), 2, fn.Pkg()).String()
	for _, e := range expected {
		if p.inlineIn(e, 2, fn.Pkg()).String() == gotI {
			c.OK(rule, name, p.declPos(fn), why+": returns "+got+" (= "+gotI+")")
			return
		}
	}
	o := c.Bad(rule, name, p.declPos(fn), why+": the method does not forward to the required kernel with the required operand roles")
	o.Expected = strings.Join(exps, "  or  ")
	o.Observed = got
}

func (p *Program) ruleA1A2(c *Check, kinds []*leafKind, wantWithin, wantIntersects bool, onlyGeom string) {
	for _, k := range kinds {
		for _, T := range geomKinds {
			if onlyGeom != "" && T != onlyGeom && k.Geom != onlyGeom {
				continue
			}
			if wantWithin {
				m := p.Method("geojson", k.Name, "Within"+T)
				kern := p.Method("geometry", T, "Contains"+k.Geom)
				if kern == nil {
					c.Undecided("E1.A1", "anchor:geometry."+T+".Contains"+k.Geom, "", "kernel method not found")
				} else {
					p.expectForward(c, "E1.A1", m, fmt.Sprintf("%s.Within%s(t) is t.Contains%s(base)", k.Name, T, k.Geom),
						tCall(kern, tParam(0), k.baseArg(tRecv())))
				}
			}
			if wantIntersects {
				m := p.Method("geojson", k.Name, "Intersects"+T)
				k1 := p.Method("geometry", k.Geom, "Intersects"+T)
				k2 := p.Method("geometry", T, "Intersects"+k.Geom)
				if k1 == nil || k2 == nil {
					c.Undecided("E1.A2", "anchor:geometry."+k.Geom+".Intersects"+T, "", "kernel method not found")
					continue
				}
				recvBase := tField(tRecv(), k.BaseVar)
				var r1 *Term = recvBase
				if k.ByAddr {
					r1 = tAddr(recvBase)
				}
				p.expectForward(c, "E1.A2", m, fmt.Sprintf("%s.Intersects%s(t) is base.Intersects%s(t)", k.Name, T, T),
					tCall(k1, r1, tParam(0)),
					tCall(k2, tParam(0), k.baseArg(tRecv())))
			}
		}
	}
}

func (p *Program) ruleA3(c *Check, kinds []*leafKind, wantContains, wantIntersects bool) {
	spatial := p.IfaceMethod("geojson", "Object", "Spatial")
	circle := p.Named("geojson", "Circle")
	circleContains := p.Method("geojson", "Circle", "Contains")
	if spatial == nil {
		c.Undecided("E1.A3", "anchor:geojson.Object.Spatial", "", "interface method not found")
		return
	}
	for _, k := range kinds {
		if wantContains {
			m := p.Method("geojson", k.Name, "Contains")
			w := p.IfaceMethod("geojson", "Spatial", "Within"+k.Geom)
			p.expectForward(c, "E1.A3", m, fmt.Sprintf("%s.Contains(o) is o.Spatial().Within%s(base)", k.Name, k.Geom),
				tCall(w, tCall(spatial, tParam(0)), k.baseArg(tRecv())))
		}
		if !wantIntersects {
			continue
		}
		m := p.Method("geojson", k.Name, "Intersects")
		w := p.IfaceMethod("geojson", "Spatial", "Intersects"+k.Geom)
		want := tCall(w, tCall(spatial, tParam(0)), k.baseArg(tRecv()))
		why := fmt.Sprintf("%s.Intersects(o) is o.Spatial().Intersects%s(base)", k.Name, k.Geom)
		if k.Geom != "Point" {
			p.expectForward(c, "E1.A3", m, why, want)
			continue
		}
		// point kinds: a *Circle operand must be answered by the exact
		// great-circle test, i.e. delegated to Circle.Contains(recv) (C13:
		// "regardless of operand order"), everything else forwards.
		if m == nil {
			c.Undecided("E1.A3", "anchor:"+k.Name+".Intersects", "", "method not found")
			continue
		}
		name := FuncName(m)
		sh, ok := p.shapeOf(m)
		if !ok || sh.final() == nil {
			c.Undecided("E1.A3", name, p.declPos(m), "body is not of the forwarding shape; "+why)
			continue
		}
		var circleArm *arm
		bad := false
		for i := range sh.Arms[:len(sh.Arms)-1] {
			a := &sh.Arms[i]
			if a.Kind == "assert" && circle != nil && types.Identical(a.Cond.Type, types.NewPointer(circle)) && a.Cond.Args[0].String() == "p0" {
				circleArm = a
			} else if a.Kind != "nil-guard" {
				bad = true
			}
		}
		if bad {
			c.Undecided("E1.A3", name, p.declPos(m), "unexpected conditional arm before the forwarding return")
			continue
		}
		if got := sh.final().String(); got != want.String() {
			o := c.Bad("E1.A3", name, p.declPos(m), why)
			o.Expected, o.Observed = want.String(), got
		} else {
			c.OK("E1.A3", name, p.declPos(m), why+": returns "+got)
		}
		cname := name + "#circle-arm"
		if circleArm == nil {
			o := c.Bad("E1.A3c", cname, p.declPos(m), "a point kind must answer Intersects(*Circle) by the circle's exact distance test (Circle.Contains(point)); without the arm the answer comes from the polygon approximation and differs from Circle.Intersects(point)")
			o.Expected = "if c, ok := o.(*Circle); ok { return c.Contains(recv) }"
			o.Observed = "no *Circle arm"
			continue
		}
		wantArm := tCall(circleContains, circleArm.Cond, tRecv())
		if len(circleArm.Ret) == 1 && circleArm.Ret[0].String() == wantArm.String() {
			c.OK("E1.A3c", cname, p.Pos(circleArm.Pos), "Intersects(*Circle) delegates to "+wantArm.String())
		} else {
			o := c.Bad("E1.A3c", cname, p.Pos(circleArm.Pos), "the *Circle arm must return Circle.Contains(recv)")
			o.Expected = wantArm.String()
			if len(circleArm.Ret) == 1 {
				o.Observed = circleArm.Ret[0].String()
			}
		}
	}
}

// ruleA4: for all kinds K.Within(o) ≡ o.Contains(recv).
func (p *Program) ruleA4(c *Check) {
	contains := p.IfaceMethod("geojson", "Object", "Contains")
	seen := map[*types.Func]bool{}
	n := 0
	for _, k := range objectKinds {
		m := p.Method("geojson", k, "Within")
		if m == nil {
			c.Undecided("E1.A4", "anchor:geojson."+k+".Within", "", "method not found")
			continue
		}
		n++
		if seen[m] {
			continue
		}
		seen[m] = true
		p.expectForward(c, "E1.A4", m, "A.Within(B) is literally B.Contains(A)", tCall(contains, tParam(0), tRecv()))
	}
	c.Floor("E1.A4", n, 12, "object kinds with a Within method")
}

// ruleA5: Feature transparency.
func (p *Program) ruleA5(c *Check, only func(name string) bool) {
	base := p.Field("geojson", "Feature", "base")
	spatial := p.IfaceMethod("geojson", "Object", "Spatial")
	if base == nil || spatial == nil {
		c.Undecided("E1.A5", "anchor:geojson.Feature.base", "", "field or Spatial method not found")
		return
	}
	b := tField(tRecv(), base)
	n := 0
	spat := p.Named("geojson", "Spatial").Underlying().(*types.Interface)
	for i := 0; i < spat.NumMethods(); i++ {
		im := spat.Method(i)
		if only != nil && !only(im.Name()) {
			continue
		}
		m := p.Method("geojson", "Feature", im.Name())
		n++
		p.expectForward(c, "E1.A5", m, "Feature."+im.Name()+" answers as its geometry", tCall(im, tCall(spatial, b), tParam(0)))
	}
	for _, name := range []string{"Contains", "Intersects", "Distance"} {
		if only != nil && !only(name) {
			continue
		}
		im := p.IfaceMethod("geojson", "Object", name)
		m := p.Method("geojson", "Feature", name)
		n++
		p.expectForward(c, "E1.A5", m, "Feature."+name+" answers as its geometry", tCall(im, b, tParam(0)))
	}
	for _, name := range []string{"Empty", "Valid", "Rect", "NumPoints"} {
		if only != nil && !only(name) {
			continue
		}
		im := p.IfaceMethod("geojson", "Object", name)
		m := p.Method("geojson", "Feature", name)
		n++
		p.expectForward(c, "E1.A5", m, "Feature."+name+" answers as its geometry", tCall(im, b))
	}
	c.Count("feature-forwarders", n)
}

// normObj inlines an object-level call with the concrete kinds of the roles
// known: interface calls are devirtualised, assert arms for other types are
// dropped, pure forwarders are expanded.
func (p *Program) normObj(t *Term, roleType map[string]*types.Named, depth int) *Term {
	if t == nil || depth <= 0 {
		return t
	}
	if len(t.Args) > 0 {
		n := *t
		n.Args = make([]*Term, len(t.Args))
		for i, a := range t.Args {
			n.Args[i] = p.normObj(a, roleType, depth)
		}
		t = &n
	}
	if t.Kind != "call" || t.Fn == nil {
		return t
	}
	fn := t.Fn
	sig := fn.Type().(*types.Signature)
	if sig.Recv() != nil {
		if _, isIface := sig.Recv().Type().Underlying().(*types.Interface); isIface {
			if !t.HasRecv || t.Args[0].Kind != "role" {
				return t
			}
			n := roleType[t.Args[0].Name]
			if n == nil {
				return t
			}
			obj, _, _ := types.LookupFieldOrMethod(types.NewPointer(n), true, n.Obj().Pkg(), fn.Name())
			cf, ok := obj.(*types.Func)
			if !ok {
				return t
			}
			fn = cf
		}
	}
	if !p.IsRepoPkg(fn.Pkg()) {
		return t
	}
	sh, ok := p.shapeOf(fn)
	if !ok || sh.final() == nil {
		nt := *t
		nt.Fn = fn
		return &nt
	}
	var recv *Term
	args := t.Args
	if t.HasRecv {
		recv = args[0]
		args = args[1:]
	}
	for i := range sh.Arms[:len(sh.Arms)-1] {
		a := &sh.Arms[i]
		switch a.Kind {
		case "nil-guard":
			if len(a.Ret) != 1 || !isConstBool(a.Ret[0], false) {
				nt := *t
				nt.Fn = fn
				return &nt
			}
		case "assert":
			op := a.Cond.Args[0].subst(recv, args)
			if op.Kind == "role" && roleType[op.Name] != nil {
				if types.Identical(a.Cond.Type, types.NewPointer(roleType[op.Name])) {
					body := a.Ret[0].subst(recv, args)
					return p.normObj(body, roleType, depth-1)
				}
				continue // statically not taken
			}
			nt := *t
			nt.Fn = fn
			return &nt
		}
	}
	if sh.final().HasOpaque() {
		nt := *t
		nt.Fn = fn
		return &nt
	}
	body := sh.final().subst(recv, args)
	return p.normObj(body, roleType, depth-1)
}

// matrix computes, for every ordered pair of leaf kinds, the kernel term that
// K1.<rel>(K2) reduces to, and checks (a) Intersects: cell(K1,K2) and
// cell(K2,K1) are the same kernel term (symmetric by construction) whenever
// the two base geometries differ; (b) Contains: cell(K1,K2) is
// base1.Contains<B2>(base2) (container and containee in the right roles).
func (p *Program) ruleMatrix(c *Check, kinds []*leafKind, rel string, depth int) [][]string {
	var rows [][]string
	for _, k1 := range kinds {
		for _, k2 := range kinds {
			rt := map[string]*types.Named{"A": k1.Named, "B": k2.Named}
			m1 := p.Method("geojson", k1.Name, rel)
			m2 := p.Method("geojson", k2.Name, rel)
			if m1 == nil || m2 == nil {
				c.Undecided("E1.M-"+rel, "anchor:"+k1.Name+"."+rel, "", "method not found")
				continue
			}
			cell := p.normObj(tCall(m1, tRole("A"), tRole("B")), rt, depth)
			name := fmt.Sprintf("%s.%s(%s)", k1.Name, rel, k2.Name)
			rows = append(rows, []string{k1.Name, k2.Name, cell.String()})
			baseA := tField(tRole("A"), k1.BaseVar)
			baseB := tField(tRole("B"), k2.BaseVar)
			argB := baseB
			if k2.ByAddr {
				argB = tAddr(baseB)
			}
			recvA := baseA
			if k1.ByAddr {
				recvA = tAddr(baseA)
			}
			argA := recvA
			recvB := argB
			switch rel {
			case "Contains":
				kern := p.Method("geometry", k1.Geom, "Contains"+k2.Geom)
				want := p.inline(tCall(kern, recvA, argB), depth)
				got := p.inline(cell, depth)
				if got.String() == want.String() {
					c.OK("E1.M-Contains", name, p.declPos(m1), "reduces to "+tCall(kern, recvA, argB).String())
				} else {
					o := c.Bad("E1.M-Contains", name, p.declPos(m1), "object-level Contains does not reduce to the geometry kernel with container as receiver and containee as argument")
					o.Expected, o.Observed = want.String(), got.String()
				}
			case "Intersects":
				kab := p.Method("geometry", k1.Geom, "Intersects"+k2.Geom)
				kba := p.Method("geometry", k2.Geom, "Intersects"+k1.Geom)
				w1 := p.inline(tCall(kab, recvA, argB), depth)
				w2 := p.inline(tCall(kba, recvB, argA), depth)
				got := p.inline(cell, depth)
				if got.String() == w1.String() || got.String() == w2.String() {
					c.OK("E1.M-Intersects", name, p.declPos(m1), "reduces to the geometry kernel "+got.String())
				} else {
					o := c.Bad("E1.M-Intersects", name, p.declPos(m1), "object-level Intersects does not reduce to a geometry-level Intersects kernel on the two base geometries")
					o.Expected, o.Observed = w1.String()+"  or  "+w2.String(), got.String()
				}
				// symmetry
				rev := p.inline(p.normObj(tCall(m2, tRole("B"), tRole("A")), rt, depth), depth)
				sname := fmt.Sprintf("sym{%s,%s}", k1.Name, k2.Name)
				if k1.Name > k2.Name {
					continue
				}
				if got.String() == rev.String() {
					c.OK("E1.M-sym", sname, p.declPos(m1), "both operand orders reduce to the same kernel term "+got.String())
				} else if k1.Geom == k2.Geom {
					c.OK("E1.M-sym", sname+"#same-geometry", p.declPos(m1), "same base geometry kind: symmetry rests on the kernel "+FuncName(kab)+" itself (decided by E8 for Rect/Point, not decided for Line/Poly)")
				} else {
					o := c.Bad("E1.M-sym", sname, p.declPos(m1), "the two operand orders reach different kernel terms: Intersects is not symmetric by construction for this pair")
					o.Expected, o.Observed = got.String(), rev.String()
				}
			}
		}
	}
	return rows
}

// ruleA6: geometry-level cross-kind symmetry by construction.
func (p *Program) ruleA6(c *Check, depth int) {
	for i, t1 := range geomKinds {
		for _, t2 := range geomKinds[i+1:] {
			f12 := p.Method("geometry", t1, "Intersects"+t2)
			f21 := p.Method("geometry", t2, "Intersects"+t1)
			name := "{" + t1 + "," + t2 + "}"
			if f12 == nil || f21 == nil {
				c.Undecided("E1.A6", "anchor:geometry."+t1+".Intersects"+t2, "", "kernel not found")
				continue
			}
			a := p.inline(tCall(f12, tRole("A"), tRole("B")), depth)
			b := p.inline(tCall(f21, tRole("B"), tRole("A")), depth)
			if a.String() == b.String() {
				c.OK("E1.A6", name, p.declPos(f12), "both orders reduce to "+a.String())
			} else {
				o := c.Bad("E1.A6", name, p.declPos(f12), FuncName(f12)+" and "+FuncName(f21)+" do not reduce to one kernel: cross-kind Intersects is not symmetric by construction")
				o.Expected, o.Observed = a.String(), b.String()
			}
		}
	}
}

// ruleA7: geometry.Rect viewed as a ring.
func (p *Program) ruleA7(c *Check) {
	pointAt := p.Method("geometry", "Rect", "PointAt")
	segAt := p.Method("geometry", "Rect", "SegmentAt")
	if pointAt == nil || segAt == nil {
		c.Undecided("E1.A7", "anchor:geometry.Rect.PointAt", "", "method not found")
		return
	}
	pts := p.switchTable(pointAt)
	segs := p.switchTable(segAt)
	if pts == nil || segs == nil {
		c.Undecided("E1.A7", FuncName(pointAt), p.declPos(pointAt), "PointAt/SegmentAt are not constant-indexed switch tables of composite literals")
		return
	}
	corner := func(t *Term) (string, string, bool) {
		// Point{recv.Min|Max.X, recv.Min|Max.Y}
		if t.Kind != "lit" || len(t.Args) != 2 {
			return "", "", false
		}
		sx, sy := t.Args[0].String(), t.Args[1].String()
		var cx, cy string
		switch sx {
		case "recv.Min.X":
			cx = "min"
		case "recv.Max.X":
			cx = "max"
		}
		switch sy {
		case "recv.Min.Y":
			cy = "min"
		case "recv.Max.Y":
			cy = "max"
		}
		return cx, cy, cx != "" && cy != ""
	}
	okAll := true
	seen := map[string]bool{}
	var cs [5][2]string
	for i := 0; i < 5; i++ {
		t, ok := pts[fmt.Sprint(i)]
		if !ok {
			c.Bad("E1.A7", "geometry.Rect.PointAt#"+fmt.Sprint(i), p.declPos(pointAt), "no case for index "+fmt.Sprint(i))
			okAll = false
			continue
		}
		cx, cy, ok := corner(t)
		if !ok {
			c.Bad("E1.A7", "geometry.Rect.PointAt#"+fmt.Sprint(i), p.declPos(pointAt), "PointAt("+fmt.Sprint(i)+") is not a corner {Min|Max}.X,{Min|Max}.Y of the rectangle: "+t.String())
			okAll = false
			continue
		}
		cs[i] = [2]string{cx, cy}
		if i < 4 {
			seen[cx+cy] = true
		}
	}
	if okAll {
		cond := len(seen) == 4 && cs[4] == cs[0]
		for i := 0; i < 4 && cond; i++ {
			d := 0
			if cs[i][0] != cs[i+1][0] {
				d++
			}
			if cs[i][1] != cs[i+1][1] {
				d++
			}
			if d != 1 {
				cond = false
			}
		}
		c.Expect(cond, "E1.A7", "geometry.Rect.PointAt#ring", p.declPos(pointAt),
			"PointAt(0..4) walks the four distinct corners, adjacent corners differ in one axis, PointAt(4)==PointAt(0)",
			"PointAt(0..4) is not a closed walk over the four corners of the rectangle")
	}
	for i := 0; i < 4; i++ {
		t, ok := segs[fmt.Sprint(i)]
		name := "geometry.Rect.SegmentAt#" + fmt.Sprint(i)
		if !ok || t.Kind != "lit" || len(t.Args) != 2 {
			c.Bad("E1.A7", name, p.declPos(segAt), "SegmentAt("+fmt.Sprint(i)+") is not a Segment literal")
			continue
		}
		a, b := pts[fmt.Sprint(i)], pts[fmt.Sprint(i+1)]
		if a == nil || b == nil {
			continue
		}
		if t.Args[0].String() == a.String() && t.Args[1].String() == b.String() {
			c.OK("E1.A7", name, p.declPos(segAt), "SegmentAt(i) = {PointAt(i), PointAt(i+1)}")
		} else {
			o := c.Bad("E1.A7", name, p.declPos(segAt), "SegmentAt(i) must join PointAt(i) and PointAt(i+1)")
			o.Expected = "{" + a.String() + ", " + b.String() + "}"
			o.Observed = t.String()
		}
	}
	// a Rect operand of a Poly/Line predicate is the equivalent five-point polygon
	poly := p.Named("geometry", "Poly")
	ext := p.Field("geometry", "Poly", "Exterior")
	if poly != nil && ext != nil {
		asPoly := tAddr(&Term{Kind: "lit", Type: poly, Keys: []string{"Exterior"}, Args: []*Term{tParam(0)}})
		for _, r := range []struct{ recv, m, kern string }{{"Poly", "ContainsRect", "ContainsPoly"}, {"Poly", "IntersectsRect", "IntersectsPoly"}, {"Line", "ContainsRect", "ContainsPoly"}} {
			m := p.Method("geometry", r.recv, r.m)
			k := p.Method("geometry", r.recv, r.kern)
			p.expectForward(c, "E1.A7b", m, r.recv+"."+r.m+"(rect) is "+r.kern+" of the five-point polygon of rect", tCall(k, tRecv(), asPoly))
		}
	}
	for _, nm := range []struct {
		m    string
		want string
	}{{"NumPoints", "5"}, {"NumSegments", "4"}} {
		m := p.Method("geometry", "Rect", nm.m)
		sh, ok := p.shapeOf(m)
		if ok && sh.final() != nil && sh.final().String() == nm.want {
			c.OK("E1.A7", "geometry.Rect."+nm.m, p.declPos(m), "constant "+nm.want)
		} else {
			c.Bad("E1.A7", "geometry.Rect."+nm.m, p.declPos(m), "Rect as a ring has 5 points / 4 segments; expected constant "+nm.want)
		}
	}
}

// switchTable reads `switch param { case K: return <lit> … }` into a map from
// the constant to the returned term.
func (p *Program) switchTable(fn *types.Func) map[string]*Term {
	fd, pkg := p.Decl(fn), p.DeclPkg(fn)
	if fd == nil || fd.Body == nil || len(fd.Body.List) != 1 {
		return nil
	}
	sw, ok := fd.Body.List[0].(*ast.SwitchStmt)
	if !ok || sw.Tag == nil {
		return nil
	}
	env := newTermEnv(pkg, fd)
	if env.term(sw.Tag).Kind != "param" {
		return nil
	}
	out := map[string]*Term{}
	for _, s := range sw.Body.List {
		cc := s.(*ast.CaseClause)
		if cc.List == nil {
			continue // default arm: documented out-of-range behaviour
		}
		if len(cc.Body) != 1 {
			return nil
		}
		ret, ok := cc.Body[0].(*ast.ReturnStmt)
		if !ok || len(ret.Results) != 1 {
			return nil
		}
		for _, e := range cc.List {
			k := env.term(e)
			if k.Kind != "const" {
				return nil
			}
			out[k.Name] = env.term(ret.Results[0])
		}
	}
	return out
}

// ruleA8: Spatial() returns the receiver (Circle: the spatial of its polygon).
func (p *Program) ruleA8(c *Check) {
	n := 0
	seen := map[*types.Func]bool{}
	for _, k := range objectKinds {
		m := p.Method("geojson", k, "Spatial")
		if m == nil {
			c.Undecided("E1.A8", "anchor:geojson."+k+".Spatial", "", "method not found")
			continue
		}
		n++
		if seen[m] {
			continue
		}
		seen[m] = true
		if k == "Circle" {
			getObj := p.Method("geojson", "Circle", "getObject")
			spatial := p.IfaceMethod("geojson", "Object", "Spatial")
			p.expectForward(c, "E1.A8", m, "Circle.Spatial() is the Spatial of its polygon", tCall(spatial, tCall(getObj, tRecv())))
			continue
		}
		p.expectForward(c, "E1.A8", m, k+".Spatial() is the object itself", tRecv())
	}
	c.Floor("E1.A8", n, 12, "object kinds with a Spatial method")
}

func matrixEvidence(rows [][]string) []string {
	var out []string
	for _, r := range rows {
		out = append(out, r[0]+" x "+r[1]+" => "+r[2])
	}
	sort.Strings(out)
	return out
}
