package main

import (
	"fmt"
	"go/ast"
	"go/token"
	"go/types"
	"regexp"
	"sort"
	"strings"

	"golang.org/x/tools/go/packages"
	"golang.org/x/tools/go/ssa"
	"golang.org/x/tools/go/types/typeutil"
)

// E7 — parser must-check and option discipline.  See DESIGN.md §3/E7.

// rejects: the statement list ends the parse with an error (returns a
// non-nil error, or records one in a captured err variable and stops the scan).
func rejects(info *types.Info, body []ast.Stmt) bool {
	if len(body) == 0 {
		return false
	}
	last := body[len(body)-1]
	ret, ok := last.(*ast.ReturnStmt)
	if !ok || len(ret.Results) == 0 {
		return false
	}
	lastRes := ret.Results[len(ret.Results)-1]
	if t := info.TypeOf(lastRes); t != nil && t.String() == "error" {
		if id, ok := lastRes.(*ast.Ident); ok && id.Name == "nil" {
			return false
		}
		return true
	}
	// closure form: err = <error>; return false
	if tv, ok := info.Types[lastRes]; ok && tv.Value != nil && tv.Value.String() == "false" {
		for _, st := range body[:len(body)-1] {
			if as, ok := st.(*ast.AssignStmt); ok && len(as.Lhs) == 1 {
				if t := info.TypeOf(as.Lhs[0]); t != nil && t.String() == "error" {
					return true
				}
			}
		}
	}
	return false
}

type guardSite struct {
	cond  ast.Expr
	pos   token.Pos
	pkg   *packages.Package // where cond lives (a helper predicate may live elsewhere)
	owner *types.Func
	neg   bool        // the document is rejected when cond is false
	more  []guardSite // further conditions of the same helper: the site stands for their disjunction
}

// guardsOf lists the rejecting if-statements that lie on the straight path of
// a body: at its top level, or at the top level of a top-level range loop.
func guardsOf(info *types.Info, body []ast.Stmt) []guardSite {
	var out []guardSite
	for _, st := range body {
		switch s := st.(type) {
		case *ast.IfStmt:
			if s.Else == nil && rejects(info, s.Body.List) {
				out = append(out, guardSite{cond: s.Cond, pos: s.Pos()})
			}
		case *ast.RangeStmt:
			for _, st2 := range s.Body.List {
				if is, ok := st2.(*ast.IfStmt); ok && is.Else == nil && rejects(info, is.Body.List) {
					out = append(out, guardSite{cond: is.Cond, pos: is.Pos()})
				}
			}
		}
	}
	return out
}

// helperGuards: the rejecting conditions contributed by a boolean helper that a
// guard calls: `if !ok(x) { reject }` rejects whenever ok returns false, i.e.
// on each `if C { return false }` of ok and when its final expression is false;
// helpers called on the elements of a range loop are followed too.
func (p *Program) helperGuards(h *types.Func, rejectWhen bool, depth int) []guardSite {
	fd, pkg := p.Decl(h), p.DeclPkg(h)
	if fd == nil || depth > 3 {
		return nil
	}
	info := pkg.TypesInfo
	var out []guardSite
	isConst := func(e ast.Expr, v bool) bool {
		tv, ok := info.Types[e]
		return ok && tv.Value != nil && tv.Value.String() == fmt.Sprint(v)
	}
	var fromCond func(cond ast.Expr, pos token.Pos, when bool)
	fromCond = func(cond ast.Expr, pos token.Pos, when bool) {
		// when=true: reject if cond holds; when=false: reject if cond fails
		c := ast.Unparen(cond)
		if u, ok := c.(*ast.UnaryExpr); ok && u.Op == token.NOT {
			fromCond(u.X, pos, !when)
			return
		}
		if call, ok := c.(*ast.CallExpr); ok {
			if callee, ok := typeutil.Callee(info, call).(*types.Func); ok && p.IsRepoPkg(callee.Pkg()) && p.Decl(callee) != nil {
				if b, ok := callee.Type().(*types.Signature).Results().At(0).Type().Underlying().(*types.Basic); ok && b.Kind() == types.Bool {
					out = append(out, p.helperGuards(callee, when, depth+1)...)
					return
				}
			}
		}
		out = append(out, guardSite{cond: cond, pos: pos, pkg: pkg, owner: h, neg: !when})
	}
	var walk func(list []ast.Stmt)
	walk = func(list []ast.Stmt) {
		for _, st := range list {
			switch s := st.(type) {
			case *ast.IfStmt:
				if s.Else == nil && len(s.Body.List) == 1 {
					if ret, ok := s.Body.List[0].(*ast.ReturnStmt); ok && len(ret.Results) == 1 && isConst(ret.Results[0], rejectWhen) {
						fromCond(s.Cond, s.Pos(), true)
					}
				}
			case *ast.RangeStmt:
				walk(s.Body.List)
			case *ast.ForStmt:
				walk(s.Body.List)
			case *ast.ReturnStmt:
				if len(s.Results) == 1 && !isConst(s.Results[0], true) && !isConst(s.Results[0], false) {
					fromCond(s.Results[0], s.Pos(), rejectWhen)
				}
			}
		}
	}
	walk(fd.Body.List)
	return out
}

// expandGuards replaces guards that merely call a boolean helper by the helper's own conditions.
func (p *Program) expandGuards(pkg *packages.Package, owner *types.Func, gs []guardSite) []guardSite {
	var out []guardSite
	for _, g := range gs {
		g.pkg, g.owner = pkg, owner
		cond := ast.Unparen(g.cond)
		when := true
		if u, ok := cond.(*ast.UnaryExpr); ok && u.Op == token.NOT {
			cond, when = ast.Unparen(u.X), false
		}
		if call, ok := cond.(*ast.CallExpr); ok {
			if callee, ok := typeutil.Callee(pkg.TypesInfo, call).(*types.Func); ok && p.IsRepoPkg(callee.Pkg()) && p.Decl(callee) != nil {
				if res := callee.Type().(*types.Signature).Results(); res.Len() == 1 {
					if b, ok := res.At(0).Type().Underlying().(*types.Basic); ok && b.Kind() == types.Bool {
						hs := p.helperGuards(callee, when, 0)
						out = append(out, hs...)
						// a helper may split one rule over several tests: also offer their disjunction, per helper
						byOwner := map[*types.Func][]guardSite{}
						for _, h := range hs {
							byOwner[h.owner] = append(byOwner[h.owner], h)
						}
						for _, group := range byOwner {
							if len(group) > 1 {
								comb := group[0]
								comb.more = group[1:]
								out = append(out, comb)
							}
						}
						continue
					}
				}
			}
		}
		out = append(out, g)
	}
	return out
}

// condRow tabulates a guard condition with the E8 engine.
func (p *Program) condHolds(pkg *packages.Package, owner *types.Func, cond ast.Expr, neg bool, more []guardSite, spec func(a *e8assign, n *e8names, got bool) string, atoms []string) (string, bool) {
	var verdict string
	decided := true
	row := &e8row{id: "cond", fn: owner, atoms: append([]string{"0"}, atoms...),
		group: func(n string) int {
			if strings.HasPrefix(n, "len(") {
				return 0
			}
			if _, ok := numericAtom(n); ok {
				return 0
			}
			return axisGroup(n)
		},
		run: func(in *e8interp) *e8out {
			fr := newFrame(pkg)
			res := in.boolOf(in.eval(fr, cond)) != neg
			for _, m := range more {
				// evaluated in the same frame: the helper's parameters are the same inputs
				r := in.boolOf(in.eval(fr, m.cond)) != m.neg
				res = res || r
			}
			return &e8out{returned: true, ret: []*val{{k: kBool, b: res}}, fr: fr}
		},
		spec: func(a *e8assign, n *e8names, out *e8out) string {
			// integrality: skip order types that put an integer atom strictly between consecutive constants
			for _, s := range n.scalars {
				if !strings.HasPrefix(s, "len(") {
					continue
				}
				if a.has("0") && a.R(s) < a.R("0") {
					return "" // lengths are not negative
				}
				for _, c1 := range n.scalars {
					f1, ok1 := numericAtom(c1)
					if !ok1 {
						continue
					}
					for _, c2 := range n.scalars {
						f2, ok2 := numericAtom(c2)
						if ok2 && f2 == f1+1 && a.R(s) > a.R(c1) && a.R(s) < a.R(c2) {
							return ""
						}
					}
				}
			}
			return spec(a, n, out.ret[0].b)
		}}
	tmp := NewCheck("tmp", "quick")
	p.runE8(tmp, row)
	if len(tmp.Obs) == 0 {
		return "not evaluated", false
	}
	o := tmp.Obs[len(tmp.Obs)-1]
	switch o.st {
	case Discharged:
		return "", true
	case Violated:
		verdict = o.Observed
	default:
		verdict = o.Detail
		decided = false
	}
	return verdict, decided
}

type funcBody struct {
	name string
	pkg  *packages.Package
	fn   *types.Func
	body []ast.Stmt
	pos  token.Pos
}

// parserBodies: the body of fn, or of the (single) ForEach scan closure inside it.
func (p *Program) scanClosure(fn *types.Func) *funcBody {
	fd, pkg := p.Decl(fn), p.DeclPkg(fn)
	if fd == nil {
		return nil
	}
	var lit *ast.FuncLit
	ast.Inspect(fd.Body, func(n ast.Node) bool {
		if call, ok := n.(*ast.CallExpr); ok && lit == nil {
			if sel, ok := call.Fun.(*ast.SelectorExpr); ok && sel.Sel.Name == "ForEach" && len(call.Args) == 1 {
				if fl, ok := call.Args[0].(*ast.FuncLit); ok {
					lit = fl
					return false
				}
			}
		}
		return true
	})
	if lit == nil {
		return nil
	}
	return &funcBody{name: FuncName(fn) + "$scan", pkg: pkg, fn: fn, body: lit.Body.List, pos: lit.Pos()}
}

func (p *Program) wholeBody(fn *types.Func) *funcBody {
	fd, pkg := p.Decl(fn), p.DeclPkg(fn)
	if fd == nil {
		return nil
	}
	return &funcBody{name: FuncName(fn), pkg: pkg, fn: fn, body: fd.Body.List, pos: fd.Pos()}
}

// V1: structural minima of RFC 7946.
func (p *Program) ruleStructuralMinima(c *Check) {
	lineSpec := func(a *e8assign, n *e8names, got bool) string {
		ln := n.match(`^len\(`)
		if len(ln) != 1 {
			return "the guard does not test exactly one length"
		}
		want := a.R(ln[0]) < a.R("2")
		if got != want {
			return fmt.Sprintf("rejects=%v but 'fewer than two positions' is %v", got, want)
		}
		return ""
	}
	emptySpec := func(a *e8assign, n *e8names, got bool) string {
		ln := n.match(`^len\(`)
		if len(ln) != 1 {
			return "the guard does not test exactly one length"
		}
		want := a.R(ln[0]) < a.R("1")
		if got != want {
			return fmt.Sprintf("rejects=%v but 'no ring' is %v", got, want)
		}
		return ""
	}
	ringSpec := func(a *e8assign, n *e8names, got bool) string {
		ln := n.match(`^len\(`)
		xs, ys := n.match(`\]\.X$`), n.match(`\]\.Y$`)
		if len(ln) != 1 || len(xs) != 2 || len(ys) != 2 {
			return "the guard does not compare the ring's length and its first and last positions"
		}
		closed := a.R(xs[0]) == a.R(xs[1]) && a.R(ys[0]) == a.R(ys[1])
		want := a.R(ln[0]) < a.R("4") || !closed
		if got != want {
			return fmt.Sprintf("rejects=%v but 'fewer than four positions or not closed' is %v", got, want)
		}
		return ""
	}
	type need struct {
		what  string
		spec  func(a *e8assign, n *e8names, got bool) string
		atoms []string
	}
	lineNeed := need{"a line string has at least two positions", lineSpec, []string{"2"}}
	polyNeed := need{"a polygon has at least one ring", emptySpec, []string{"1", "0"}}
	ringNeed := need{"a ring has at least four positions and its first equals its last", ringSpec, []string{"4"}}
	cases := []struct {
		fb    *funcBody
		needs []need
	}{
		{p.wholeBody(p.Func("geojson", "parseJSONLineString")), []need{lineNeed}},
		{p.scanClosure(p.Func("geojson", "parseJSONMultiLineString")), []need{lineNeed}},
		{p.wholeBody(p.Func("geojson", "parseJSONPolygon")), []need{polyNeed, ringNeed}},
		{p.scanClosure(p.Func("geojson", "parseJSONMultiPolygon")), []need{polyNeed, ringNeed}},
	}
	for _, cs := range cases {
		if cs.fb == nil {
			c.Undecided("E7.V1", "anchor:parser", "", "parser body not found")
			continue
		}
		guards := p.expandGuards(cs.fb.pkg, cs.fb.fn, guardsOf(cs.fb.pkg.TypesInfo, cs.fb.body))
		for _, nd := range cs.needs {
			con := cs.fb.name + ": " + nd.what
			found := false
			var nearest string
			for _, g := range guards {
				msg, decided := p.condHolds(g.pkg, g.owner, g.cond, g.neg, g.more, nd.spec, nd.atoms)
				if decided && msg == "" {
					c.OK("E7.V1", con, p.Pos(g.pos), "rejected by the guard `"+types.ExprString(g.cond)+"`, which holds exactly when the document violates the rule")
					found = true
					break
				}
				if nearest == "" && msg != "" && !strings.Contains(msg, "does not test") && !strings.Contains(msg, "does not compare") {
					nearest = "`" + types.ExprString(g.cond) + "`: " + msg
				}
			}
			if !found {
				o := c.Bad("E7.V1", con, p.Pos(cs.fb.pos), "no rejecting guard on the straight path of this parser is equivalent to the RFC 7946 minimum: documents that violate it would be accepted (or conforming ones rejected)")
				o.Observed = nearest
			}
		}
	}
	// positions: the per-ordinate scan, run abstractly for every kind of JSON value and every fill level
	gj := p.ByPath["github.com/tidwall/gjson"]
	constOf := func(name string) string {
		if gj == nil {
			return ""
		}
		if k, ok := gj.Types.Scope().Lookup(name).(*types.Const); ok {
			return k.Val().ExactString()
		}
		return ""
	}
	kNumber, kNull := constOf("Number"), constOf("Null")
	for _, fname := range []string{"parseJSONPointCoords", "parseJSONLineStringCoords", "parseJSONPolygonCoords"} {
		fn := p.Func("geojson", fname)
		fd, pkg := p.Decl(fn), p.DeclPkg(fn)
		con := "geojson." + fname
		if fd == nil || kNumber == "" {
			c.Undecided("E7.V1", "anchor:"+con, "", "coordinate parser (or gjson.Number) not found")
			continue
		}
		info := pkg.TypesInfo
		// the ordinate scan: the innermost function literal that inspects .Type of its value,
		// in the parser itself or in a same-package helper it hands the position to
		findLit := func(body *ast.BlockStmt) *ast.FuncLit {
			var l *ast.FuncLit
			ast.Inspect(body, func(n ast.Node) bool {
				if fl, ok := n.(*ast.FuncLit); ok {
					if mentions(fl.Body, func(m ast.Node) bool {
						sel, ok := m.(*ast.SelectorExpr)
						return ok && sel.Sel.Name == "Type"
					}) {
						l = fl // keeps the innermost (visited last)
					}
				}
				return true
			})
			return l
		}
		lit := findLit(fd.Body)
		holder, holderDecl := fn, fd
		var holderCall *ast.CallExpr
		if lit == nil {
			ast.Inspect(fd.Body, func(n ast.Node) bool {
				call, ok := n.(*ast.CallExpr)
				if !ok || lit != nil {
					return true
				}
				callee, ok := typeutil.Callee(info, call).(*types.Func)
				if !ok || callee == fn || callee.Pkg() != fn.Pkg() || strings.HasSuffix(callee.Name(), "Coords") {
					return true
				}
				if hd := p.Decl(callee); hd != nil && hd.Body != nil {
					if l := findLit(hd.Body); l != nil {
						lit, holder, holderDecl, holderCall = l, callee, hd, call
					}
				}
				return true
			})
		}
		if lit == nil {
			// a parser may hand its positions to one of its siblings, which is checked in its own right
			delegate := ""
			ast.Inspect(fd.Body, func(n ast.Node) bool {
				if call, ok := n.(*ast.CallExpr); ok {
					if callee, ok := typeutil.Callee(info, call).(*types.Func); ok && callee != fn && strings.HasSuffix(callee.Name(), "Coords") && p.IsRepoPkg(callee.Pkg()) {
						delegate = callee.Name()
					}
				}
				return true
			})
			if delegate != "" && (delegate == "parseJSONLineStringCoords" || delegate == "parseJSONPolygonCoords") {
				c.OK("E7.V1", con+": ordinates", p.declPos(fn), "positions are parsed by "+delegate+", which is checked itself (and does not admit null)")
			} else {
				c.Undecided("E7.V1", con+": ordinates", p.declPos(fn), "the per-ordinate scan was not found")
			}
			continue
		}
		wantNull := fname == "parseJSONPointCoords"
		counterName := ""
		ast.Inspect(lit.Body, func(n ast.Node) bool {
			switch st := n.(type) {
			case *ast.IncDecStmt:
				if id, ok := st.X.(*ast.Ident); ok && st.Tok == token.INC {
					counterName = id.Name
				}
			case *ast.AssignStmt:
				if id, ok := st.Lhs[0].(*ast.Ident); ok && st.Tok == token.ADD_ASSIGN && len(st.Lhs) == 1 {
					counterName = id.Name
				}
			}
			return true
		})
		if holder != fn {
			// the caller must turn the helper's rejection into its own
			honoured := false
			var okVar types.Object
			ast.Inspect(fd.Body, func(n ast.Node) bool {
				as, ok := n.(*ast.AssignStmt)
				if !ok || len(as.Rhs) != 1 || as.Rhs[0] != ast.Expr(holderCall) {
					return true
				}
				for _, l := range as.Lhs {
					if id, ok := l.(*ast.Ident); ok {
						o := info.ObjectOf(id)
						if o == nil {
							continue
						}
						if bt, ok := o.Type().Underlying().(*types.Basic); (ok && bt.Kind() == types.Bool) || o.Type().String() == "error" {
							okVar = o
						}
					}
				}
				return true
			})
			if okVar != nil {
				ast.Inspect(fd.Body, func(n ast.Node) bool {
					is, ok := n.(*ast.IfStmt)
					if !ok || !rejects(info, is.Body.List) {
						return true
					}
					uses := mentions(is.Cond, func(m ast.Node) bool {
						id, ok := m.(*ast.Ident)
						return ok && info.ObjectOf(id) == okVar
					})
					if uses {
						honoured = true
					}
					return true
				})
			}
			c.Expect(honoured, "E7.V1", con+": helper rejection honoured", p.declPos(fn), "the parser rejects when "+holder.Name()+" reports a bad ordinate", "the parser does not test the result by which "+holder.Name()+" reports a bad ordinate")
		}
		row := &e8row{id: con + ": ordinates", fn: fn, atoms: []string{kNumber, kNull, "4"},
			group: func(string) int { return 0 },
			what:  "per ordinate: numbers are stored and counted, null only in Point/MultiPoint positions, anything else is rejected with an error, and nothing is read beyond the fourth ordinate",
			run: func(in *e8interp) *e8out {
				fr := newFrame(pkg)
				if holder != fn {
					// parameters of the helper: a constant every caller agrees on is that constant, anything else is free
					for _, f := range holderDecl.Type.Params.List {
						for _, nm := range f.Names {
							o := info.Defs[nm]
							if o == nil {
								continue
							}
							if b, ok := o.Type().Underlying().(*types.Basic); !ok || b.Info()&types.IsNumeric == 0 {
								continue
							}
							if tv, ok := p.constArgOf(holder, o); ok {
								fr.vars[o] = constVal(tv)
							} else {
								fr.vars[o] = in.newInput(o.Name(), o.Type())
							}
						}
					}
				}
				i := 0
				for _, f := range lit.Type.Params.List {
					for _, nm := range f.Names {
						if o := info.Defs[nm]; o != nil {
							fr.vars[o] = in.newInput(fmt.Sprintf("q%d", i), o.Type())
						}
						i++
					}
				}
				out := &e8out{fr: fr}
				r := in.runBody(fr, lit.Body.List)
				if r != nil {
					out.returned, out.ret = true, r.vals
				}
				return out
			},
			pre: func(a *e8assign, n *e8names) bool {
				cnt := n.match(`^[a-zA-Z_][a-zA-Z_0-9]*$`)
				if counterName != "" {
					cnt = []string{counterName}
				}
				for _, s := range cnt {
					if a.has(s, "4", kNull) && (a.R(s) > a.R("4") || a.R(s) < a.R(kNull)) {
						return false // 0 <= count <= 4
					}
				}
				return true
			},
			spec: func(a *e8assign, n *e8names, out *e8out) string {
				ty := n.match(`\.Type$`)
				cnt := n.match(`^[a-zA-Z_][a-zA-Z_0-9]*$`)
				if counterName != "" {
					cnt = nil
					for _, s := range n.scalars {
						if s == counterName {
							cnt = []string{s}
						}
					}
				}
				if len(ty) != 1 || len(cnt) != 1 {
					return "the scan does not test the value's JSON type and an ordinate counter"
				}
				isNum := a.R(ty[0]) == a.R(kNumber)
				isNull := a.R(ty[0]) == a.R(kNull)
				full := a.R(cnt[0]) == a.R("4")
				got, ok := retBool(out)
				if !ok {
					return "the scan does not return a boolean"
				}
				// the captured error variable
				errSet := false
				var counter *val
				for o, v := range out.fr.vars {
					if o == nil {
						continue
					}
					if o.Type().String() == "error" && v != nil && v.name != o.Name() {
						errSet = true
					}
					// a captured flag assigned a constant in this run (a helper signals rejection through it)
					if bt, ok := o.Type().Underlying().(*types.Basic); ok && bt.Kind() == types.Bool && v != nil && v.k == kBool && v.name == "" &&
						!(lit.Pos() <= o.Pos() && o.Pos() < lit.End()) && holder != fn {
						errSet = true
					}
					if o.Name() == cnt[0] {
						counter = v
					}
				}
				counted := counter != nil && counter.k == kScalar && counter.name == "("+cnt[0]+"+1)"
				switch {
				case full:
					if got || errSet || counted {
						return "a fifth ordinate is not simply skipped (reading must stop at four without an error)"
					}
				case isNum || (isNull && wantNull):
					if !got || errSet || !counted {
						return "a numeric ordinate" + map[bool]string{true: " (or null in a point)", false: ""}[wantNull] + " is not accepted and counted"
					}
				default:
					if got || !errSet {
						what := "a non-numeric ordinate"
						if isNull {
							what = "a null ordinate (allowed only in Point/MultiPoint positions)"
						}
						return what + " is not rejected with an error"
					}
				}
				return ""
			}}
		p.runE8(c, row)
		// at least two ordinates
		countGuard := false
		ast.Inspect(fd.Body, func(n ast.Node) bool {
			if is, ok := n.(*ast.IfStmt); ok {
				cond := strings.ReplaceAll(types.ExprString(is.Cond), " ", "")
				if countGuardRe.MatchString(cond) && rejects(info, is.Body.List) {
					countGuard = true
				}
			}
			return true
		})
		c.Expect(countGuard, "E7.V1", con+": a position has at least two ordinates", p.declPos(fn), "count < 2 is rejected", "no guard rejects a position with fewer than two ordinates")
	}
}

// V2: parseJSON reads every member in one document-order scan.
func (p *Program) ruleMemberScan(c *Check) map[string]string {
	fn := p.Func("geojson", "parseJSON")
	fd, pkg := p.Decl(fn), p.DeclPkg(fn)
	if fd == nil {
		c.Undecided("E7.V2", "anchor:geojson.parseJSON", "", "function not found")
		return nil
	}
	info := pkg.TypesInfo
	var dataObj types.Object
	for _, f := range fd.Type.Params.List {
		for _, n := range f.Names {
			if b, ok := info.TypeOf(f.Type).Underlying().(*types.Basic); ok && b.Info()&types.IsString != 0 {
				dataObj = info.Defs[n]
			}
		}
	}
	// (1) uses of the document text
	okUses := true
	var badUse string
	var badPos token.Pos
	nUses := 0
	var stack []ast.Node
	ast.Inspect(fd.Body, func(n ast.Node) bool {
		if n == nil {
			stack = stack[:len(stack)-1]
			return true
		}
		stack = append(stack, n)
		id, ok := n.(*ast.Ident)
		if !ok || info.Uses[id] != dataObj || dataObj == nil {
			return true
		}
		nUses++
		if len(stack) >= 2 {
			if call, ok := stack[len(stack)-2].(*ast.CallExpr); ok {
				if f, _ := typeutil.Callee(info, call).(*types.Func); f != nil {
					if fn := f.FullName(); fn == "github.com/tidwall/gjson.Valid" || fn == "github.com/tidwall/gjson.Parse" {
						return true
					}
					okUses = false
					badUse = f.FullName()
					badPos = id.Pos()
					return true
				}
			}
		}
		okUses = false
		badUse = "an expression other than gjson.Valid/gjson.Parse"
		badPos = id.Pos()
		return true
	})
	if okUses && nUses >= 2 {
		c.OK("E7.V2", "geojson.parseJSON#document-uses", p.declPos(fn), "the text is only validated as a whole (gjson.Valid) and scanned once in document order (gjson.Parse(...).ForEach)")
	} else {
		c.Bad("E7.V2", "geojson.parseJSON#document-uses", p.Pos(badPos), "the document text is also read through "+badUse+": a member fetched outside the single document-order scan takes the first duplicate while the scan lets the last one win, so type and payload can come from different members")
	}
	// gjson.Valid gate first
	gate := false
	if len(fd.Body.List) > 0 {
		if is, ok := fd.Body.List[0].(*ast.IfStmt); ok && strings.Contains(types.ExprString(is.Cond), "gjson.Valid(") && strings.HasPrefix(types.ExprString(is.Cond), "!") && rejects(info, is.Body.List) {
			gate = true
		}
	}
	c.Expect(gate, "E7.V2", "geojson.parseJSON#valid-gate", p.declPos(fn), "invalid JSON is rejected before anything else", "the first statement is not the whole-text validity gate")
	// (2) the scan closure
	fb := p.scanClosure(fn)
	if fb == nil {
		c.Undecided("E7.V2", "geojson.parseJSON#scan", p.declPos(fn), "member scan closure not found")
		return nil
	}
	targets := map[string]string{}
	var sw *ast.SwitchStmt
	for _, st := range fb.body {
		if s, ok := st.(*ast.SwitchStmt); ok {
			sw = s
		}
	}
	if sw == nil {
		c.Undecided("E7.V2", "geojson.parseJSON#scan", p.Pos(fb.pos), "the scan does not dispatch on the member name")
		return nil
	}
	for _, cl := range sw.Body.List {
		cc := cl.(*ast.CaseClause)
		for _, e := range cc.List {
			tv := info.Types[e]
			if tv.Value == nil {
				continue
			}
			key := strings.Trim(tv.Value.ExactString(), `"`)
			con := "geojson.parseJSON#member(" + key + ")"
			if len(cc.Body) == 1 {
				if as, ok := cc.Body[0].(*ast.AssignStmt); ok && as.Tok == token.ASSIGN && len(as.Lhs) == 1 {
					targets[key] = types.ExprString(as.Lhs[0])
					c.OK("E7.V2", con, p.Pos(cc.Pos()), "overwritten unconditionally in document order: the last duplicate wins")
					continue
				}
			}
			c.Bad("E7.V2", con, p.Pos(cc.Pos()), "the member is not stored by a single unconditional assignment: duplicates are no longer resolved as 'last one wins'")
		}
	}
	for _, k := range []string{"type", "coordinates", "geometry", "geometries", "features"} {
		if _, ok := targets[k]; !ok {
			c.Bad("E7.V2", "geojson.parseJSON#member("+k+")#present", p.Pos(sw.Pos()), "the scan has no arm for the reserved member "+k)
		}
	}
	// (3) the targets are assigned nowhere else
	for key, tgt := range targets {
		n := 0
		ast.Inspect(fd.Body, func(nd ast.Node) bool {
			if as, ok := nd.(*ast.AssignStmt); ok {
				for _, l := range as.Lhs {
					if types.ExprString(l) == tgt {
						n++
					}
				}
			}
			return true
		})
		c.Expect(n == 1, "E7.V2", "geojson.parseJSON#single-writer("+key+")", p.declPos(fn), tgt+" is written only by the scan", tgt+" is written outside the member scan as well")
	}
	// (3b) distinct members are kept in distinct slots: otherwise "the last duplicate wins" would
	// operate across two different member names, and a parser could not tell which one it was given
	byTarget := map[string][]string{}
	for key, tgt := range targets {
		byTarget[tgt] = append(byTarget[tgt], key)
	}
	var tgts []string
	for t := range byTarget {
		tgts = append(tgts, t)
	}
	sort.Strings(tgts)
	for _, t := range tgts {
		ks := byTarget[t]
		sort.Strings(ks)
		con := "geojson.parseJSON#slot(" + t + ")"
		if len(ks) == 1 {
			c.OK("E7.V2", con, p.declPos(fn), "holds the member "+ks[0]+" only")
		} else {
			c.Bad("E7.V2", con, p.declPos(fn), "the members "+strings.Join(ks, ", ")+" share one slot: a document carrying both is decoded from whichever comes last, and a parser that requires one of them accepts the other")
		}
	}
	// (4) type must exist and be a string before dispatch
	var existsGuard, stringGuard bool
	for _, g := range guardsOf(info, fd.Body.List) {
		s := types.ExprString(g.cond)
		if strings.HasPrefix(s, "!") && strings.HasSuffix(s, ".Exists()") {
			existsGuard = true
		}
		if strings.Contains(s, ".Type != gjson.String") {
			stringGuard = true
		}
	}
	c.Expect(existsGuard, "E7.V2", "geojson.parseJSON#type-missing", p.declPos(fn), "a missing type is rejected", "no guard rejects a document without a type member")
	c.Expect(stringGuard, "E7.V2", "geojson.parseJSON#type-not-string", p.declPos(fn), "a non-string type is rejected", "no guard rejects a non-string type member")
	return targets
}

// V3: options reach every nested parse unchanged.
func (p *Program) ruleOptionPropagation(c *Check) {
	po := p.Named("geojson", "ParseOptions")
	if po == nil {
		c.Undecided("E7.V3", "anchor:geojson.ParseOptions", "", "type not found")
		return
	}
	isOpts := func(t types.Type) bool {
		pt, ok := t.Underlying().(*types.Pointer)
		return ok && types.Identical(pt.Elem(), po)
	}
	n := 0
	for _, fn := range p.RepoSourceFuncs() {
		// the function's own options value: a parameter, or a captured one
		var own []ssa.Value
		root := fn
		for root.Parent() != nil {
			root = root.Parent()
		}
		for _, prm := range fn.Params {
			if isOpts(prm.Type()) {
				own = append(own, prm)
			}
		}
		for _, fv := range fn.FreeVars {
			if isOpts(fv.Type()) {
				own = append(own, fv)
			}
			if pt, ok := fv.Type().Underlying().(*types.Pointer); ok && isOpts(pt.Elem()) {
				own = append(own, fv)
			}
		}
		if len(own) == 0 {
			// a closure of a function that has options must still pass those on
			rootHas := false
			for _, prm := range root.Params {
				if isOpts(prm.Type()) {
					rootHas = true
				}
			}
			if !rootHas || root == fn {
				continue
			}
		}
		isOwn := func(v ssa.Value) bool {
			for depth := 0; depth < 6; depth++ {
				for _, o := range own {
					if v == o {
						return true
					}
				}
				switch x := v.(type) {
				case *ssa.UnOp:
					if x.Op == token.MUL {
						// load of a cell that holds the parameter
						if a, ok := x.X.(*ssa.Alloc); ok {
							only := true
							cnt := 0
							for _, r := range *a.Referrers() {
								if st, ok := r.(*ssa.Store); ok && st.Addr == a {
									cnt++
									okv := false
									for _, o := range own {
										if st.Val == o {
											okv = true
										}
									}
									if !okv && !(SSAName(root) == "geojson.Parse") {
										only = false
									}
								}
							}
							return only && cnt > 0
						}
						v = x.X
						continue
					}
				case *ssa.Phi:
					if SSAName(root) == "geojson.Parse" {
						return true // nil options are replaced by the defaults at the entry point only
					}
				}
				return false
			}
			return false
		}
		for _, b := range fn.Blocks {
			for _, in := range b.Instrs {
				call, ok := in.(ssa.CallInstruction)
				if !ok {
					continue
				}
				cc := call.Common()
				var args []ssa.Value
				if cc.IsInvoke() {
					args = append(args, cc.Value)
				}
				args = append(args, cc.Args...)
				for _, a := range args {
					if !isOpts(a.Type()) {
						continue
					}
					n++
					callee := "dynamic"
					if sc := cc.StaticCallee(); sc != nil {
						callee = SSAName(sc)
					}
					con := fmt.Sprintf("%s -> %s", SSAName(fn), callee)
					if isOwn(a) {
						c.OK("E7.V3", con, p.Pos(in.Pos()), "passes its own options on unchanged")
					} else {
						c.Bad("E7.V3", con, p.Pos(in.Pos()), "a nested parse/constructor receives options other than the caller's own (a constant, a global or a modified copy): nested objects are built under different options")
					}
				}
			}
		}
	}
	c.Floor("E7.V3", n, 20, "calls that pass parse options")
}

// V4: RequireValid is honoured by every typed parser.
func (p *Program) ruleRequireValid(c *Check) {
	parsers := []string{"Point", "LineString", "Polygon", "MultiPoint", "MultiLineString", "MultiPolygon", "Feature", "FeatureCollection", "GeometryCollection"}
	n := 0
	for _, k := range parsers {
		fn := p.Func("geojson", "parseJSON"+k)
		fd, pkg := p.Decl(fn), p.DeclPkg(fn)
		con := "geojson.parseJSON" + k
		if fd == nil {
			c.Undecided("E7.V4", con, "", "parser not found")
			continue
		}
		n++
		info := pkg.TypesInfo
		checks, viaParse := false, false
		ast.Inspect(fd.Body, func(nd ast.Node) bool {
			switch x := nd.(type) {
			case *ast.IfStmt:
				cond := types.ExprString(x.Cond)
				if !strings.Contains(cond, ".RequireValid") {
					return true
				}
				// somewhere in the condition or body: !X.Valid() leading to a rejection
				hasValid, hasReject := strings.Contains(cond, ".Valid()"), false
				ast.Inspect(x.Body, func(m ast.Node) bool {
					if is, ok := m.(*ast.IfStmt); ok && strings.Contains(types.ExprString(is.Cond), ".Valid()") && strings.HasPrefix(strings.TrimSpace(types.ExprString(is.Cond)), "!") && rejects(info, is.Body.List) {
						hasValid, hasReject = true, true
					}
					return true
				})
				if strings.Contains(cond, "!") && strings.Contains(cond, ".Valid()") && rejects(info, x.Body.List) {
					hasReject = true
				}
				if hasValid && hasReject {
					checks = true
				}
			case *ast.CallExpr:
				if f, _ := typeutil.Callee(info, x).(*types.Func); f != nil {
					if f == p.Func("geojson", "Parse") || p.callsParse(f, 0) {
						viaParse = true
					}
				}
			}
			return true
		})
		if checks {
			// path coverage: no successful return escapes the RequireValid test
			if where := p.successAvoidsGate(fn); where != "" {
				c.Bad("E7.V4", con+"#every-success-path", p.declPos(fn), "a successful return ("+where+") is reachable without passing the RequireValid test: the object built on that path (an alternative representation, say) is never checked, so acceptance under RequireValid depends on another option")
			} else {
				c.OK("E7.V4", con+"#every-success-path", p.declPos(fn), "every path to a successful return passes the RequireValid test")
			}
		}
		switch {
		case checks:
			c.OK("E7.V4", con, p.declPos(fn), "under RequireValid an object that reports itself invalid is rejected")
		case viaParse:
			c.OK("E7.V4", con, p.declPos(fn), "its children are parsed through Parse with the same options, which enforces RequireValid on each")
		default:
			c.Bad("E7.V4", con, p.declPos(fn), "this parser neither tests Valid() under RequireValid nor builds its children through Parse: invalid objects are returned although RequireValid is set (its sibling parsers all check)")
		}
	}
	c.Floor("E7.V4", n, 9, "typed parsers")
}

// V6: representation options build the alternative kind from the same values.
func (p *Program) ruleRepresentationOptions(c *Check) {
	fn := p.Func("geojson", "parseJSONPoint")
	coords := p.Func("geojson", "parseJSONPointCoords")
	if fn == nil || coords == nil || p.Decl(fn) == nil {
		c.Undecided("E7.V6", "anchor:geojson.parseJSONPoint", "", "parser not found")
		return
	}
	before := len(c.Obs)
	p.runE8(c, &e8row{id: "geojson.parseJSONPoint#AllowSimplePoints", fn: fn, opaque: map[*types.Func]bool{coords: true},
		what: "a SimplePoint is returned exactly when AllowSimplePoints is set and the position has no extra ordinates or members; either way the object holds the parsed position (and a Point keeps its extra block)",
		spec: func(a *e8assign, n *e8names, out *e8out) string {
			if !out.returned || len(out.ret) != 2 {
				return "unexpected result shape"
			}
			obj := out.ret[0]
			if obj == nil || obj.k != kStruct || obj.typ == nil {
				return "" // an error path
			}
			calls := out.in.called("parseJSONPointCoords")
			if len(calls) != 1 {
				return "the position is not parsed exactly once"
			}
			posName := calls[0].name + "#0"
			exName := calls[0].name + "#1"
			allow := false
			for _, b := range n.bools {
				if strings.HasSuffix(b, ".AllowSimplePoints") {
					allow = a.B(b)
				}
			}
			// does the object end up without an extra block?
			var membersEmpty, exNil bool
			for _, b := range n.bools {
				if strings.HasPrefix(b, "isnil("+exName) {
					exNil = a.B(b)
				}
				if strings.Contains(b, ".members") && strings.Contains(b, `""==`) {
					membersEmpty = a.B(b)
				}
			}
			plain := exNil && membersEmpty
			kind := typeStr(obj.typ)
			switch {
			case strings.HasSuffix(kind, "SimplePoint"):
				if !(allow && plain) {
					return fmt.Sprintf("a SimplePoint is returned although AllowSimplePoints=%v, extra ordinates absent=%v, members absent=%v (z values or members would be lost)", allow, exNil, membersEmpty)
				}
				pt := leaf(obj, "Point")
				if pt == nil || pt.name != posName {
					return "the SimplePoint does not hold the parsed position"
				}
			case strings.HasSuffix(kind, "Point"):
				if allow && plain {
					return "AllowSimplePoints is set and the point is plain, but a Point is returned"
				}
				pt := leaf(obj, "base")
				if pt == nil || pt.name != posName {
					return "the Point does not hold the parsed position"
				}
				if ex := leaf(obj, "extra"); !exNil && (ex == nil || ex.k != kStruct) {
					return "the Point loses its extra ordinates"
				}
			default:
				return "unexpected kind " + kind
			}
			return ""
		}})
	for _, o := range c.Obs[before:] {
		o.Rule = "E7.V6"
	}
	// AllowRects: the rectangle is built from positions 0 and 2 of the tested ring
	fn2 := p.Func("geojson", "parseJSONPolygon")
	fd2 := p.Decl(fn2)
	if fd2 != nil {
		ok := false
		var got string
		ast.Inspect(fd2.Body, func(nd ast.Node) bool {
			call, isCall := nd.(*ast.CallExpr)
			if !isCall || types.ExprString(call.Fun) != "NewRect" || len(call.Args) != 1 {
				return true
			}
			got = types.ExprString(call.Args[0])
			if cl, isLit := call.Args[0].(*ast.CompositeLit); isLit && len(cl.Elts) == 2 {
				vals := map[string]string{}
				for _, e := range cl.Elts {
					if kv, isKV := e.(*ast.KeyValueExpr); isKV {
						vals[types.ExprString(kv.Key)] = types.ExprString(kv.Value)
					}
				}
				mn, mx := vals["Min"], vals["Max"]
				if strings.HasSuffix(mn, "[0]") && strings.HasSuffix(mx, "[2]") && strings.TrimSuffix(mn, "[0]") == strings.TrimSuffix(mx, "[2]") {
					ok = true
				}
			}
			return true
		})
		c.Expect(ok, "E7.V6", "geojson.parseJSONPolygon#AllowRects-corners", p.declPos(fn2), "the Rect is {Min: ring[0], Max: ring[2]} of the tested ring", "the Rect built under AllowRects is not spanned by positions 0 and 2 of the ring that passed the rectangle test: "+got)
	}
}

func sortedKeys(m map[string]string) []string {
	var ks []string
	for k := range m {
		ks = append(ks, k)
	}
	sort.Strings(ks)
	return ks
}

// callsParse: a repository helper that parses children through Parse.
func (p *Program) callsParse(f *types.Func, depth int) bool {
	fd, pkg := p.Decl(f), p.DeclPkg(f)
	if fd == nil || depth > 2 || !p.IsRepoPkg(f.Pkg()) || typedParserNames[f.Name()] {
		return false
	}
	parse := p.Func("geojson", "Parse")
	found := false
	ast.Inspect(fd.Body, func(n ast.Node) bool {
		if call, ok := n.(*ast.CallExpr); ok {
			if g, _ := typeutil.Callee(pkg.TypesInfo, call).(*types.Func); g != nil {
				if g == parse || (g != f && p.callsParse(g, depth+1)) {
					found = true
				}
			}
		}
		return !found
	})
	return found
}

var countGuardRe = regexp.MustCompile(`^(\w+<2|2>\w+|\w+<=1|1>=\w+)$`)

// constArgOf: the constant every call site in the repository passes for parameter par of fn.
func (p *Program) constArgOf(fn *types.Func, par types.Object) (types.TypeAndValue, bool) {
	sig := fn.Type().(*types.Signature)
	idx := -1
	for i := 0; i < sig.Params().Len(); i++ {
		if sig.Params().At(i) == par {
			idx = i
		}
	}
	var have *types.TypeAndValue
	ok := idx >= 0
	for _, d := range p.RepoDecls() {
		fd, pkg := p.Decl(d), p.DeclPkg(d)
		if fd == nil || fd.Body == nil || !ok {
			continue
		}
		ast.Inspect(fd.Body, func(n ast.Node) bool {
			call, isCall := n.(*ast.CallExpr)
			if !isCall {
				return true
			}
			if callee, _ := typeutil.Callee(pkg.TypesInfo, call).(*types.Func); callee != fn || idx >= len(call.Args) {
				return true
			}
			tv, has := pkg.TypesInfo.Types[call.Args[idx]]
			if has && tv.Value == nil {
				// a local that is defined once, by a constant, and never written again
				if id, isId := ast.Unparen(call.Args[idx]).(*ast.Ident); isId {
					if ctv, isConst := singleConstDef(pkg.TypesInfo, fd.Body, pkg.TypesInfo.ObjectOf(id)); isConst {
						tv = ctv
					}
				}
			}
			if !has || tv.Value == nil {
				ok = false
				return true
			}
			if have != nil && have.Value.ExactString() != tv.Value.ExactString() {
				ok = false
			}
			t := tv
			have = &t
			return true
		})
	}
	if !ok || have == nil {
		return types.TypeAndValue{}, false
	}
	return *have, true
}

// singleConstDef: obj is a local variable whose only write in body is its
// definition from a constant expression (and whose address is never taken).
func singleConstDef(info *types.Info, body *ast.BlockStmt, obj types.Object) (types.TypeAndValue, bool) {
	var out types.TypeAndValue
	if obj == nil {
		return out, false
	}
	writes, ok := 0, true
	ast.Inspect(body, func(n ast.Node) bool {
		switch st := n.(type) {
		case *ast.AssignStmt:
			for i, l := range st.Lhs {
				id, isId := l.(*ast.Ident)
				if !isId || info.ObjectOf(id) != obj {
					continue
				}
				writes++
				if len(st.Lhs) != len(st.Rhs) || (st.Tok != token.DEFINE && st.Tok != token.ASSIGN) {
					ok = false
					continue
				}
				if tv, has := info.Types[st.Rhs[i]]; has && tv.Value != nil {
					out = tv
				} else {
					ok = false
				}
			}
		case *ast.ValueSpec:
			for i, id := range st.Names {
				if info.ObjectOf(id) != obj {
					continue
				}
				writes++
				if i < len(st.Values) {
					if tv, has := info.Types[st.Values[i]]; has && tv.Value != nil {
						out = tv
						continue
					}
				}
				ok = false
			}
		case *ast.IncDecStmt:
			if id, isId := st.X.(*ast.Ident); isId && info.ObjectOf(id) == obj {
				ok = false
			}
		case *ast.UnaryExpr:
			if id, isId := st.X.(*ast.Ident); isId && st.Op == token.AND && info.ObjectOf(id) == obj {
				ok = false
			}
		case *ast.RangeStmt:
			for _, e := range []ast.Expr{st.Key, st.Value} {
				if id, isId := e.(*ast.Ident); isId && info.ObjectOf(id) == obj {
					ok = false
				}
			}
		}
		return true
	})
	return out, ok && writes == 1 && out.Value != nil
}

var typedParserNames = map[string]bool{"parseJSONPoint": true, "parseJSONLineString": true, "parseJSONPolygon": true, "parseJSONMultiPoint": true,
	"parseJSONMultiLineString": true, "parseJSONMultiPolygon": true, "parseJSONFeature": true, "parseJSONFeatureCollection": true, "parseJSONGeometryCollection": true}

// successAvoidsGate: is there a path from the entry of the parser to a return
// with a nil error that does not pass a block branching on opts.RequireValid?
// Returns the position of such a return ("" if none).
func (p *Program) successAvoidsGate(fn *types.Func) string {
	sf := p.SSAFunc(fn)
	if sf == nil || len(sf.Blocks) == 0 {
		return ""
	}
	dependsOnRV := func(v ssa.Value) bool {
		seen := map[ssa.Value]bool{}
		var walk func(v ssa.Value, d int) bool
		walk = func(v ssa.Value, d int) bool {
			if v == nil || seen[v] || d > 8 {
				return false
			}
			seen[v] = true
			switch x := v.(type) {
			case *ssa.UnOp:
				if fa, ok := x.X.(*ssa.FieldAddr); ok && x.Op == token.MUL {
					if st, ok := fa.X.Type().Underlying().(*types.Pointer).Elem().Underlying().(*types.Struct); ok && st.Field(fa.Field).Name() == "RequireValid" {
						return true
					}
				}
				return walk(x.X, d+1)
			case *ssa.BinOp:
				return walk(x.X, d+1) || walk(x.Y, d+1)
			case *ssa.Phi:
				for _, e := range x.Edges {
					if walk(e, d+1) {
						return true
					}
				}
			}
			return false
		}
		return walk(v, 0)
	}
	gate := map[*ssa.BasicBlock]bool{}
	for _, b := range sf.Blocks {
		if len(b.Instrs) == 0 {
			continue
		}
		if iff, ok := b.Instrs[len(b.Instrs)-1].(*ssa.If); ok && dependsOnRV(iff.Cond) {
			gate[b] = true
		}
	}
	if len(gate) == 0 {
		return ""
	}
	seen := map[*ssa.BasicBlock]bool{}
	work := []*ssa.BasicBlock{sf.Blocks[0]}
	seen[sf.Blocks[0]] = true
	for len(work) > 0 {
		b := work[len(work)-1]
		work = work[:len(work)-1]
		if gate[b] {
			continue
		}
		if len(b.Instrs) > 0 {
			if ret, ok := b.Instrs[len(b.Instrs)-1].(*ssa.Return); ok && len(ret.Results) == 2 {
				if k, ok := ret.Results[1].(*ssa.Const); ok && k.IsNil() {
					if ok0, isK := ret.Results[0].(*ssa.Const); !(isK && ok0.IsNil()) {
						return p.Pos(ret.Pos())
					}
				}
			}
		}
		for _, s := range b.Succs {
			if !seen[s] {
				seen[s] = true
				work = append(work, s)
			}
		}
	}
	return ""
}
