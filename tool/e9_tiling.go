package main

import (
	"fmt"
	"go/ast"
	"go/token"
	"go/types"
	"sort"
	"strings"

	"golang.org/x/tools/go/types/typeutil"
)

// E9.I2 (cursor tiling).  The readers of the compressed indexes walk a byte
// buffer with an integer cursor.  Along every path through a reader, the bytes
// read must tile the record: each read starts exactly where the previous one
// ended (no gap, no overlap), and whenever control leaves a straight segment —
// the end of a loop iteration, `continue`, or handing the cursor to another
// reader — the cursor itself stands at the end of what has been read.  Offsets
// are linear forms (constant + Σ k·width symbol) relative to the segment start,
// so neither the spelling of the advances (addr++, addr += 4, one addr += 32
// after four reads at +0/+8/+16/+24) nor helper decoders matter.

type linForm struct {
	k   int
	sym map[string]int
}

func (l linForm) add(o linForm, sign int) linForm {
	out := linForm{k: l.k + sign*o.k, sym: map[string]int{}}
	for s, c := range l.sym {
		out.sym[s] = c
	}
	for s, c := range o.sym {
		out.sym[s] += sign * c
		if out.sym[s] == 0 {
			delete(out.sym, s)
		}
	}
	return out
}

func (l linForm) eq(o linForm) bool {
	d := l.add(o, -1)
	return d.k == 0 && len(d.sym) == 0
}

func (l linForm) String() string {
	var parts []string
	var syms []string
	for s := range l.sym {
		syms = append(syms, s)
	}
	sort.Strings(syms)
	for _, s := range syms {
		if l.sym[s] == 1 {
			parts = append(parts, s)
		} else {
			parts = append(parts, fmt.Sprintf("%d·%s", l.sym[s], s))
		}
	}
	if l.k != 0 || len(parts) == 0 {
		parts = append(parts, fmt.Sprint(l.k))
	}
	return strings.Join(parts, "+")
}

type tileState struct {
	cur, next linForm
	ok        bool // cur is known relative to the segment start
	env       map[types.Object]linForm
}

func (s tileState) clone() tileState {
	n := tileState{cur: s.cur, next: s.next, ok: s.ok, env: map[types.Object]linForm{}}
	for k, v := range s.env {
		n.env[k] = v
	}
	return n
}

type tiler struct {
	p      *Program
	info   *types.Info
	cursor types.Object
	buf    types.Object
	fname  string
	reads  int
	bad    []string
	paths  int
}

func (t *tiler) fail(pos token.Pos, format string, a ...interface{}) {
	msg := fmt.Sprintf(format, a...) + " (" + t.p.Pos(pos) + ")"
	for _, b := range t.bad {
		if b == msg {
			return
		}
	}
	if len(t.bad) < 6 {
		t.bad = append(t.bad, msg)
	}
}

// lin: an integer expression as a linear form over width symbols; ok=false if it is not one.
func (t *tiler) lin(st *tileState, e ast.Expr) (linForm, bool) {
	e = ast.Unparen(e)
	if k, ok := constInt(t.info, e); ok {
		return linForm{k: int(k)}, true
	}
	switch x := e.(type) {
	case *ast.Ident:
		o := t.info.ObjectOf(x)
		if o == t.cursor {
			return st.cur, st.ok
		}
		if v, ok := st.env[o]; ok {
			return v, true
		}
		if bt, ok := o.Type().Underlying().(*types.Basic); ok && bt.Info()&types.IsInteger != 0 {
			return linForm{sym: map[string]int{x.Name: 1}}, true
		}
	case *ast.CallExpr:
		if tv, ok := t.info.Types[x.Fun]; ok && tv.IsType() && len(x.Args) == 1 {
			return t.lin(st, x.Args[0])
		}
	case *ast.BinaryExpr:
		a, ok1 := t.lin(st, x.X)
		b, ok2 := t.lin(st, x.Y)
		if ok1 && ok2 {
			switch x.Op {
			case token.ADD:
				return a.add(b, 1), true
			case token.SUB:
				return a.add(b, -1), true
			case token.MUL:
				if len(a.sym) == 0 {
					out := linForm{k: a.k * b.k, sym: map[string]int{}}
					for s, c := range b.sym {
						out.sym[s] = c * a.k
					}
					return out, true
				}
				if len(b.sym) == 0 {
					out := linForm{k: a.k * b.k, sym: map[string]int{}}
					for s, c := range a.sym {
						out.sym[s] = c * b.k
					}
					return out, true
				}
			}
		}
	}
	return linForm{}, false
}

func (t *tiler) isBuf(e ast.Expr) bool {
	id, ok := ast.Unparen(e).(*ast.Ident)
	return ok && t.info.ObjectOf(id) == t.buf
}

// scanReads: process the reads of the buffer inside expression e, in source order.
func (t *tiler) scanReads(st *tileState, e ast.Node) {
	if e == nil {
		return
	}
	ast.Inspect(e, func(n ast.Node) bool {
		switch x := n.(type) {
		case *ast.FuncLit:
			return false
		case *ast.CallExpr:
			callee, _ := typeutil.Callee(t.info, x).(*types.Func)
			for i, a := range x.Args {
				sl, ok := ast.Unparen(a).(*ast.SliceExpr)
				if !ok || !t.isBuf(sl.X) || sl.High != nil {
					continue
				}
				var off linForm
				okOff := true
				if sl.Low == nil {
					off = linForm{}
				} else {
					off, okOff = t.lin(st, sl.Low)
				}
				width, okW := linForm{}, false
				name := ""
				if callee != nil {
					name = callee.Name()
				}
				switch {
				case strings.HasSuffix(name, "Uint64"):
					width, okW = linForm{k: 8}, true
				case strings.HasSuffix(name, "Uint32"):
					width, okW = linForm{k: 4}, true
				case strings.HasSuffix(name, "Uint16"):
					width, okW = linForm{k: 2}, true
				case callee != nil && isWidthCodec(callee) && i == 0:
					width, okW = t.lin(st, x.Args[1])
				case callee != nil && t.p.IsRepoPkg(callee.Pkg()) && len(x.Args) == 1:
					if w := t.p.bytesRead(callee, 0); w > 0 {
						width, okW = linForm{k: w}, true
					}
				}
				if !okW {
					continue // the buffer handed on whole (a recursive reader): handled by cursorHandedOn
				}
				t.read(st, a.Pos(), off, okOff, width)
			}
		case *ast.IndexExpr:
			if t.isBuf(x.X) {
				off, okOff := t.lin(st, x.Index)
				t.read(st, x.Pos(), off, okOff, linForm{k: 1})
			}
		}
		return true
	})
}

func (t *tiler) read(st *tileState, pos token.Pos, off linForm, okOff bool, width linForm) {
	t.reads++
	if !okOff || !st.ok {
		t.fail(pos, "a read of the index buffer at an offset that is not the cursor plus a constant/width")
		return
	}
	if !off.eq(st.next) {
		t.fail(pos, "a read starts at offset %s but the preceding reads end at offset %s: a gap or an overlap in the record layout", off.String(), st.next.String())
	}
	st.next = off.add(width, 1)
}

// leave: control leaves a straight segment; the cursor must stand at the end of what was read.
func (t *tiler) leave(st *tileState, pos token.Pos, what string) {
	if st.ok && !st.cur.eq(st.next) {
		t.fail(pos, "at %s the cursor stands at offset %s but the bytes read end at offset %s: every later field is read at the wrong place", what, st.cur.String(), st.next.String())
	}
}

func (t *tiler) mentionsCursor(n ast.Node) bool {
	return mentions(n, func(m ast.Node) bool {
		id, ok := m.(*ast.Ident)
		return ok && t.info.ObjectOf(id) == t.cursor
	})
}

// run: enumerate the paths through list (then rest).  Returns when every path has ended.
func (t *tiler) run(st tileState, list []ast.Stmt, inLoop bool, end token.Pos) {
	if t.paths > 4000 {
		return
	}
	for i, s := range list {
		rest := list[i+1:]
		switch x := s.(type) {
		case *ast.IfStmt:
			if x.Init != nil {
				t.stmt(&st, x.Init)
			}
			t.scanReads(&st, x.Cond)
			a := st.clone()
			t.run(a, append(append([]ast.Stmt{}, x.Body.List...), rest...), inLoop, end)
			b := st.clone()
			switch e := x.Else.(type) {
			case *ast.BlockStmt:
				t.run(b, append(append([]ast.Stmt{}, e.List...), rest...), inLoop, end)
			case *ast.IfStmt:
				t.run(b, append([]ast.Stmt{e}, rest...), inLoop, end)
			default:
				t.run(b, rest, inLoop, end)
			}
			return
		case *ast.ForStmt:
			if x.Init != nil {
				t.stmt(&st, x.Init)
			}
			t.scanReads(&st, x.Cond)
			t.leave(&st, x.Pos(), "the entry of the loop")
			body := tileState{ok: true, env: st.clone().env}
			t.run(body, x.Body.List, true, x.Body.Rbrace)
			// after the loop the cursor has advanced an unknown number of records: a fresh segment
			st = tileState{ok: true, env: st.env}
			continue
		case *ast.RangeStmt:
			t.leave(&st, x.Pos(), "the entry of the loop")
			t.run(tileState{ok: true, env: st.clone().env}, x.Body.List, true, x.Body.Rbrace)
			st = tileState{ok: true, env: st.env}
			continue
		case *ast.BlockStmt:
			t.run(st, append(append([]ast.Stmt{}, x.List...), rest...), inLoop, end)
			return
		case *ast.BranchStmt:
			if x.Tok == token.CONTINUE {
				t.leave(&st, x.Pos(), "`continue`")
			}
			t.paths++
			return
		case *ast.ReturnStmt:
			for _, r := range x.Results {
				t.scanReads(&st, r)
				t.handedOn(&st, r)
			}
			t.paths++
			return
		default:
			t.stmt(&st, s)
		}
	}
	if inLoop {
		t.leave(&st, end, "the end of the loop body")
	}
	t.paths++
}

// handedOn: the cursor (not a freshly read address) is passed to another reader.
func (t *tiler) handedOn(st *tileState, e ast.Node) {
	ast.Inspect(e, func(n ast.Node) bool {
		call, ok := n.(*ast.CallExpr)
		if !ok {
			return true
		}
		bufArg := false
		for _, a := range call.Args {
			if t.isBuf(a) {
				bufArg = true
			}
		}
		if !bufArg {
			return true
		}
		for _, a := range call.Args {
			if t.mentionsCursor(a) {
				off, ok := t.lin(st, a)
				if ok && st.ok && !off.eq(st.next) {
					t.fail(a.Pos(), "the cursor handed to %s is at offset %s but the bytes read end at offset %s", types.ExprString(call.Fun), off.String(), st.next.String())
				}
			}
		}
		return true
	})
}

func (t *tiler) stmt(st *tileState, s ast.Stmt) {
	switch x := s.(type) {
	case *ast.IncDecStmt:
		if id, ok := x.X.(*ast.Ident); ok && t.info.ObjectOf(id) == t.cursor {
			if x.Tok == token.INC {
				st.cur = st.cur.add(linForm{k: 1}, 1)
			} else {
				st.cur = st.cur.add(linForm{k: 1}, -1)
			}
		}
	case *ast.AssignStmt:
		for _, r := range x.Rhs {
			t.scanReads(st, r)
			t.handedOn(st, r)
		}
		for i, l := range x.Lhs {
			id, ok := l.(*ast.Ident)
			if !ok {
				continue
			}
			o := t.info.ObjectOf(id)
			if o == t.cursor && len(x.Lhs) == len(x.Rhs) {
				v, ok := t.lin(st, x.Rhs[i])
				switch x.Tok {
				case token.ADD_ASSIGN:
					if ok {
						st.cur = st.cur.add(v, 1)
					} else {
						st.ok = false
					}
				case token.SUB_ASSIGN:
					if ok {
						st.cur = st.cur.add(v, -1)
					} else {
						st.ok = false
					}
				case token.ASSIGN, token.DEFINE:
					if ok {
						st.cur = v
					} else {
						st.ok = false
					}
				}
				continue
			}
			// an integer local defined by a width expression (isize := int(ibytes)) is an alias of it
			if len(x.Lhs) == len(x.Rhs) && (x.Tok == token.DEFINE || x.Tok == token.ASSIGN) && o != nil {
				if bt, ok := o.Type().Underlying().(*types.Basic); ok && bt.Info()&types.IsInteger != 0 {
					reads := mentions(x.Rhs[i], func(m ast.Node) bool {
						switch y := m.(type) {
						case *ast.IndexExpr:
							return t.isBuf(y.X)
						case *ast.SliceExpr:
							return t.isBuf(y.X)
						case *ast.CallExpr:
							_, conv := t.info.Types[y.Fun]
							return !(conv && t.info.Types[y.Fun].IsType())
						}
						return false
					})
					if v, ok := t.lin(st, x.Rhs[i]); ok && !reads && !t.mentionsCursor(x.Rhs[i]) {
						st.env[o] = v
					} else {
						delete(st.env, o)
					}
				}
			}
		}
	case *ast.ExprStmt:
		t.scanReads(st, x.X)
		t.handedOn(st, x.X)
	case *ast.DeclStmt:
		t.scanReads(st, x)
	}
}

func (p *Program) ruleCursor(c *Check) {
	total := 0
	for _, fname := range []string{"qCompressSearch", "rnCompressSearch", "rCompressSearch"} {
		fn := p.Func("geometry", fname)
		fd, pkg := p.Decl(fn), p.DeclPkg(fn)
		con := "geometry." + fname + "#tiling"
		if fd == nil || fd.Body == nil {
			c.Undecided("E9.I2", "anchor:geometry."+fname, "", "reader not found")
			continue
		}
		t := &tiler{p: p, info: pkg.TypesInfo, fname: fname}
		for _, fl := range fd.Type.Params.List {
			for _, nm := range fl.Names {
				o := pkg.TypesInfo.Defs[nm]
				if isByteSlice(o.Type()) && t.buf == nil {
					t.buf = o
				}
				if bt, ok := o.Type().Underlying().(*types.Basic); ok && bt.Info()&types.IsInteger != 0 && t.cursor == nil {
					t.cursor = o
				}
			}
		}
		if t.buf == nil || t.cursor == nil {
			c.Undecided("E9.I2", con, p.declPos(fn), "buffer / cursor parameters not recognised")
			continue
		}
		t.run(tileState{ok: true, env: map[types.Object]linForm{}}, fd.Body.List, false, fd.Body.Rbrace)
		total += t.reads
		if len(t.bad) > 0 {
			o := c.Bad("E9.I2", con, p.declPos(fn), t.bad[0])
			o.Observed = strings.Join(t.bad, " | ")
		} else {
			c.OK("E9.I2", con, p.declPos(fn), fmt.Sprintf("on all %d paths the reads tile the record and the cursor stands at the end of what was read wherever a segment ends", t.paths))
		}
	}
	c.Floor("E9.I2", total, 8, "reads of the index buffer on the enumerated paths")
}
