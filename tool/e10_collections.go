package main

import (
	"bytes"
	"fmt"
	"go/ast"
	"go/printer"
	"go/token"
	"go/types"
	"regexp"
	"strings"

	"golang.org/x/tools/go/packages"
	"golang.org/x/tools/go/types/typeutil"
)

// Collections (C10/C11): the cached emptiness/rectangle fold, the child
// index, the two arms of Search, and the ∀/Σ folds of Valid and NumPoints.
// The loop bodies are run on the abstract interpreter of E8 with the
// children's methods as opaque atoms, and judged by what they do (state
// afterwards, which calls were made with which arguments), not by their
// syntactic form.

type loopSite struct {
	fn   *types.Func
	pkg  *packages.Package
	loop ast.Stmt   // *ast.RangeStmt or *ast.ForStmt
	body []ast.Stmt // the loop body
}

func (p *Program) isObjectSlice(t types.Type) bool {
	sl, ok := t.Underlying().(*types.Slice)
	if !ok {
		return false
	}
	obj := p.Named("geojson", "Object")
	return obj != nil && types.Identical(sl.Elem(), obj)
}

// childLoops: range loops over a `.children` slice in fn and in the repository
// functions it calls directly (helpers extracted from it).
func (p *Program) childLoops(fn *types.Func, depth int, seen map[*types.Func]bool) []loopSite {
	fd, pkg := p.Decl(fn), p.DeclPkg(fn)
	if fd == nil || seen[fn] || depth > 2 {
		return nil
	}
	seen[fn] = true
	var out []loopSite
	ast.Inspect(fd.Body, func(n ast.Node) bool {
		switch x := n.(type) {
		case *ast.RangeStmt:
			if t := pkg.TypesInfo.TypeOf(x.X); t != nil && p.isObjectSlice(t) {
				out = append(out, loopSite{fn, pkg, x, x.Body.List})
			}
		case *ast.ForStmt:
			// for i := 0; i < len(xs); i++ { child := xs[i]; … }
			if len(x.Body.List) > 0 {
				if as, ok := x.Body.List[0].(*ast.AssignStmt); ok && as.Tok == token.DEFINE && len(as.Rhs) == 1 {
					if ix, ok := ast.Unparen(as.Rhs[0]).(*ast.IndexExpr); ok {
						if t := pkg.TypesInfo.TypeOf(ix.X); t != nil && p.isObjectSlice(t) {
							out = append(out, loopSite{fn, pkg, x, x.Body.List})
						}
					}
				}
			}
		case *ast.CallExpr:
			if callee, ok := typeutil.Callee(pkg.TypesInfo, x).(*types.Func); ok && p.IsRepoPkg(callee.Pkg()) && callee.Pkg() == fn.Pkg() && !strings.HasPrefix(callee.Name(), "parseJSON") && callee.Name() != "Parse" {
				out = append(out, p.childLoops(callee, depth+1, seen)...)
			}
		}
		return true
	})
	return out
}

func mentions(n ast.Node, pred func(ast.Node) bool) bool {
	found := false
	ast.Inspect(n, func(x ast.Node) bool {
		if x != nil && pred(x) {
			found = true
		}
		return !found
	})
	return found
}

var reEmpty = regexp.MustCompile(`^Empty\(`)
var reRectMinX = regexp.MustCompile(`^(Rect\(.*\))\.Min\.X$`)

func firstBool(n *e8names, re *regexp.Regexp) string {
	for _, b := range n.bools {
		if re.MatchString(b) {
			return b
		}
	}
	return ""
}

func (p *Program) ruleCollectionFold(c *Check) {
	fn := p.Method("geojson", "collection", "parseInitRectIndex")
	name := "(*geojson.collection).parseInitRectIndex"
	if p.Decl(fn) == nil {
		c.Undecided("E10.fold", "anchor:"+name, "", "function not found")
		return
	}
	loops := p.childLoops(fn, 0, map[*types.Func]bool{})
	var fold, build *loopSite
	for i := range loops {
		l := &loops[i]
		if fold == nil && mentions(&ast.BlockStmt{List: l.body}, func(n ast.Node) bool {
			as, ok := n.(*ast.AssignStmt)
			if !ok {
				return false
			}
			for _, lh := range as.Lhs {
				if strings.HasSuffix(types.ExprString(lh), ".prect") {
					return true
				}
			}
			return false
		}) {
			fold = l
			continue
		}
		if build == nil && mentions(&ast.BlockStmt{List: l.body}, func(n ast.Node) bool {
			call, ok := n.(*ast.CallExpr)
			return ok && strings.HasSuffix(types.ExprString(call.Fun), ".Insert")
		}) {
			build = l
		}
	}
	if fold == nil || build == nil {
		c.Undecided("E10.fold", name, p.declPos(fn), "the fold over the children (assigning the cached rectangle) and the loop that fills the child index were not both found in this function or the helpers it calls")
		return
	}
	// nothing may seed the accumulator before the fold
	seeded := ""
	if fd := p.Decl(fold.fn); fd != nil {
		ast.Inspect(fd.Body, func(n ast.Node) bool {
			if n == ast.Node(fold.loop) {
				return false
			}
			if as, ok := n.(*ast.AssignStmt); ok && as.Pos() < fold.loop.Pos() {
				for i, l := range as.Lhs {
					if strings.HasSuffix(types.ExprString(l), ".prect") && i < len(as.Rhs) {
						seeded = types.ExprString(as.Rhs[i])
					}
				}
			}
			return true
		})
	}
	c.Expect(seeded == "", "E10.fold", name+"#no-seed", p.declPos(fn), "the rectangle accumulator is not seeded before the fold",
		"the rectangle accumulator is seeded with "+seeded+" before the fold: a child that the fold would skip (an empty one) can leak into the union")
	// the counter of non-empty children: an integer local incremented in the loop body
	counterName := ""
	ast.Inspect(&ast.BlockStmt{List: fold.body}, func(n ast.Node) bool {
		if ids, ok := n.(*ast.IncDecStmt); ok && ids.Tok == token.INC {
			if id, ok := ids.X.(*ast.Ident); ok {
				counterName = id.Name
			}
		}
		return true
	})
	atoms := []string{"0"}
	if counterName != "" {
		atoms = append(atoms, counterName)
	}
	row := &e8row{id: name + "#fold-step", fn: fold.fn, lenEqOpaque: true, atoms: atoms,
		what: "one iteration of the fold over the children: an empty child changes nothing; the first non-empty child sets the cached rectangle, later ones enlarge it to the union; the collection becomes non-empty; the counter of non-empty children grows by one",
		run: func(in *e8interp) *e8out {
			fr, out := p.bindInputs(in, fold.fn)
			r := in.runBody(fr, fold.body)
			if r != nil && r != continueSignal {
				e8fail("the fold step leaves the loop")
			}
			return out
		},
		group: func(n string) int {
			if !strings.Contains(n, ".") {
				return 0
			}
			if _, ok := numericAtom(n); ok {
				return 0
			}
			return axisGroup(n)
		},
		pre: func(a *e8assign, n *e8names) bool {
			if counterName != "" && a.has(counterName, "0") && a.R(counterName) < a.R("0") {
				return false
			}
			for _, pre := range [][2]string{{".Min.X", ".Max.X"}, {".Min.Y", ".Max.Y"}} {
				for _, s := range n.scalars {
					if strings.HasSuffix(s, pre[0]) {
						t := strings.TrimSuffix(s, pre[0]) + pre[1]
						if a.has(s, t) && a.R(s) > a.R(t) {
							return false
						}
					}
				}
			}
			return true
		},
		spec: func(a *e8assign, n *e8names, out *e8out) string {
			eName := firstBool(n, reEmpty)
			if eName == "" {
				return "the child's emptiness is never consulted"
			}
			empty := a.B(eName)
			recv := out.recv
			pe := leaf(recv, "pempty")
			pr := leaf(recv, "prect")
			if pe == nil || pe.k != kBool || pr == nil {
				return "the cached emptiness/rectangle fields were not found on the receiver"
			}
			peVal := pe.b
			if pe.name != "" {
				peVal = a.B(pe.name)
			}
			pre0, havePre := a.bools["recv.pempty"]
			first := true
			if counterName != "" {
				first = a.R(counterName) == a.R("0")
				if havePre && pre0 != first {
					return "" // infeasible: the collection is marked empty exactly while no non-empty child was seen
				}
			} else if havePre {
				first = pre0
			}
			for _, b := range n.bools {
				if strings.HasPrefix(b, "len(") && a.B(b) && !first {
					return "" // a single child cannot be the second non-empty one
				}
			}
			// counter discipline
			if counterName != "" {
				for o, v := range out.fr.vars {
					if o != nil && o.Name() == counterName && v.k == kScalar {
						want := counterName
						if !empty {
							want = "(" + counterName + "+1)"
						}
						if v.name != want {
							return "the counter of non-empty children is " + v.name + " after the iteration, expected " + want
						}
					}
				}
			}
			crect := ""
			for _, s := range n.scalars {
				if m := reRectMinX.FindStringSubmatch(s); m != nil {
					crect = m[1]
				}
			}
			if crect == "" {
				return "the child's rectangle is not read"
			}
			for _, k := range [][2]string{{"Min", "X"}, {"Min", "Y"}, {"Max", "X"}, {"Max", "Y"}} {
				v := leaf(pr, k[0], k[1])
				if v == nil || v.k != kScalar {
					return "prect." + k[0] + "." + k[1] + " is not a selected coordinate"
				}
				cr := crect + "." + k[0] + "." + k[1]
				old := "recv.prect." + k[0] + "." + k[1]
				var want int
				switch {
				case empty:
					if v.name != old {
						return "an empty child changes the cached rectangle"
					}
					continue
				case first:
					want = a.R(cr)
				case k[0] == "Min":
					want = imin(a.R(old), a.R(cr))
				default:
					want = imax(a.R(old), a.R(cr))
				}
				if a.R(v.name) != want {
					if first {
						return "the first non-empty child does not initialise prect." + k[0] + "." + k[1] + " (got " + v.name + ")"
					}
					return "prect." + k[0] + "." + k[1] + " is not the union with the child's rectangle (got " + v.name + ")"
				}
			}
			if empty {
				if havePre && peVal != pre0 {
					return "an empty child changes the cached emptiness"
				}
				return ""
			}
			if peVal {
				return "after a non-empty child the collection is still marked empty"
			}
			return ""
		}}
	p.runE8(c, row)
	// the index-building loop: Insert(child.Rect() corners, child) exactly for the non-empty children
	brow := &e8row{id: name + "#tree-build", fn: build.fn,
		what: "the child index receives exactly the non-empty children, each under its own Rect()",
		run: func(in *e8interp) *e8out {
			fr, out := p.bindInputs(in, build.fn)
			out.signal = in.runBody(fr, build.body)
			return out
		},
		spec: func(a *e8assign, n *e8names, out *e8out) string {
			eName := firstBool(n, reEmpty)
			if eName == "" {
				return "the child's emptiness is never consulted before it is inserted"
			}
			ins := out.in.called("Insert")
			if a.B(eName) {
				if len(ins) != 0 {
					return "an empty child is inserted into the index"
				}
				return ""
			}
			if len(ins) != 1 {
				return fmt.Sprintf("a non-empty child is inserted %d times", len(ins))
			}
			args := ins[0].args
			if len(args) < 4 {
				return "unexpected Insert arguments"
			}
			child := strings.TrimSuffix(strings.TrimPrefix(eName, "Empty("), ")")
			want := [][2]string{{"Min.X", "Min.Y"}, {"Max.X", "Max.Y"}}
			for i, w := range want {
				box := args[1+i]
				for j, suffix := range w {
					l := leaf(box, fmt.Sprint(j))
					if l == nil || l.k != kScalar || l.name != "Rect("+child+")."+suffix {
						got := "?"
						if l != nil {
							got = l.name
						}
						return "the inserted box is not the child's own Rect() (corner " + suffix + " is " + got + ")"
					}
				}
			}
			if v := args[3]; v == nil || v.name != child {
				return "the value stored in the index is not the child itself"
			}
			return ""
		}}
	p.runE8(c, brow)
}

func (p *Program) ruleCollectionSearch(c *Check) {
	fn := p.Method("geojson", "collection", "Search")
	name := "(*geojson.collection).Search"
	fd := p.Decl(fn)
	if fd == nil {
		c.Undecided("E10.search", name, "", "function not found")
		return
	}
	loops := p.childLoops(fn, 0, map[*types.Func]bool{})
	if len(loops) == 0 {
		c.Undecided("E10.search", name+"#linear", p.declPos(fn), "linear arm (a loop over the children) not found in Search or its helpers")
	} else {
		ls := loops[0]
		iterName := ""
		if lfd := p.Decl(ls.fn); lfd != nil {
			for _, f := range lfd.Type.Params.List {
				if _, ok := f.Type.(*ast.FuncType); ok && len(f.Names) > 0 {
					iterName = f.Names[0].Name
				}
			}
		}
		row := &e8row{id: name + "#linear", fn: ls.fn,
			what: "the linear arm calls the iterator exactly for the non-empty children whose Rect() meets the query rectangle (closed boxes), with the child itself, and stops when it returns false",
			run: func(in *e8interp) *e8out {
				fr, out := p.bindInputs(in, ls.fn)
				out.signal = in.runBody(fr, ls.body)
				return out
			},
			pre: func(a *e8assign, n *e8names) bool {
				for _, pre := range [][2]string{{".Min.X", ".Max.X"}, {".Min.Y", ".Max.Y"}} {
					for _, s := range n.scalars {
						if strings.HasSuffix(s, pre[0]) {
							t := strings.TrimSuffix(s, pre[0]) + pre[1]
							if a.has(s, t) && a.R(s) > a.R(t) {
								return false
							}
						}
					}
				}
				return true
			},
			spec: func(a *e8assign, n *e8names, out *e8out) string {
				eName := firstBool(n, reEmpty)
				if eName == "" {
					return "the child's emptiness is never consulted"
				}
				crect, query := "", ""
				for _, s := range n.scalars {
					if m := reRectMinX.FindStringSubmatch(s); m != nil {
						crect = m[1]
					} else if strings.HasSuffix(s, ".Min.X") {
						query = strings.TrimSuffix(s, ".Min.X")
					}
				}
				if crect == "" || query == "" {
					return "the child's rectangle is not compared with the query rectangle"
				}
				meets := a.R(crect+".Min.X") <= a.R(query+".Max.X") && a.R(crect+".Max.X") >= a.R(query+".Min.X") &&
					a.R(crect+".Min.Y") <= a.R(query+".Max.Y") && a.R(crect+".Max.Y") >= a.R(query+".Min.Y")
				want := !a.B(eName) && meets
				calls := out.in.called(iterName)
				child := strings.TrimSuffix(strings.TrimPrefix(eName, "Empty("), ")")
				if want != (len(calls) == 1) {
					return fmt.Sprintf("iterator called %d times for a child that is empty=%v and whose box meets the query=%v", len(calls), a.B(eName), meets)
				}
				if len(calls) == 1 {
					if len(calls[0].args) != 1 || calls[0].args[0] == nil || calls[0].args[0].name != child {
						return "the iterator does not receive the child itself"
					}
					res := a.B(calls[0].name)
					stopped := out.signal != nil && out.signal != continueSignal
					if !res && !stopped {
						return "the iterator returned false but the scan goes on"
					}
					if res && stopped {
						return "the scan stops although the iterator returned true"
					}
				}
				return ""
			}}
		p.runE8(c, row)
	}
	// indexed arm: with a child index present, Search hands the query rectangle's corners to the
	// index and forwards each stored child to the callback, returning its verdict
	p.ruleSearchIndexed(c, fn, name)
}

func (p *Program) ruleSearchIndexed(c *Check, fn *types.Func, name string) {
	fd, pkg := p.Decl(fn), p.DeclPkg(fn)
	info := pkg.TypesInfo
	var iterObj types.Object
	for _, f := range fd.Type.Params.List {
		for _, n := range f.Names {
			if _, ok := f.Type.(*ast.FuncType); ok {
				iterObj = info.Defs[n]
			}
		}
	}
	// the literal handed to the index search (a call on the tree field with a function literal argument)
	var treeLit *ast.FuncLit
	ast.Inspect(fd.Body, func(n ast.Node) bool {
		call, ok := n.(*ast.CallExpr)
		if !ok || treeLit != nil {
			return true
		}
		if sel, ok := ast.Unparen(call.Fun).(*ast.SelectorExpr); ok && sel.Sel.Name == "Search" && strings.Contains(types.ExprString(sel.X), "tree") {
			for _, a := range call.Args {
				if l, ok := ast.Unparen(a).(*ast.FuncLit); ok {
					treeLit = l
				}
			}
		}
		return true
	})
	corner := func(v *val, x, y string) bool {
		return v != nil && v.k == kStruct && v.f["0"] != nil && v.f["1"] != nil && v.f["0"].name == x && v.f["1"].name == y
	}
	row := &e8row{id: name + "#indexed", fn: fn, rangeOnce: true, opaquePkg: map[*types.Package]bool{p.Geom.Types: true},
		what: "with a child index present, the index is searched once with the corners (rect.Min, rect.Max) of the query rectangle and the linear scan is not used",
		spec: func(a *e8assign, n *e8names, out *e8out) string {
			var hasTree, found bool
			for _, b := range n.bools {
				if strings.HasPrefix(b, "isnil(recv.tree") {
					hasTree, found = !a.B(b), true
				}
			}
			if !found {
				return "the presence of the child index is never tested"
			}
			var idx []e8call
			for _, cl := range out.in.trace {
				if cl.fn == "Search" && len(cl.args) >= 3 {
					idx = append(idx, cl)
				}
			}
			if !hasTree {
				if len(idx) != 0 {
					return "the index is searched although there is none"
				}
				return ""
			}
			if len(idx) != 1 {
				return fmt.Sprintf("with a child index present it is searched %d times", len(idx))
			}
			if !corner(idx[0].args[1], "p0.Min.X", "p0.Min.Y") || !corner(idx[0].args[2], "p0.Max.X", "p0.Max.Y") {
				return "the index is not searched with the corners of the query rectangle"
			}
			for _, cl := range out.in.trace {
				if strings.HasPrefix(cl.name, "Empty(") || strings.HasPrefix(cl.fn, "IntersectsRect") {
					return "the linear scan runs although the index is present"
				}
			}
			return ""
		}}
	p.runE8(c, row)
	if treeLit == nil || iterObj == nil {
		c.Undecided("E10.search", name+"#indexed-callback", p.declPos(fn), "the callback handed to the index was not found")
		return
	}
	p.runE8(c, &e8row{id: name + "#indexed-callback", fn: fn, run: litRun(pkg, treeLit),
		what: "per index hit: the stored child is handed to the caller's callback and its verdict (continue / stop) is returned",
		spec: func(a *e8assign, n *e8names, out *e8out) string {
			got, ok := retBool(out)
			if !ok {
				return "no boolean result"
			}
			var calls []e8call
			for _, cl := range out.in.trace {
				if cl.fn == iterObj.Name() {
					calls = append(calls, cl)
				}
			}
			if len(calls) != 1 {
				return fmt.Sprintf("the caller's callback is called %d times per hit", len(calls))
			}
			last := ""
			for _, f := range treeLit.Type.Params.List {
				for range f.Names {
					last = fmt.Sprintf("q%d", countParams(treeLit)-1)
				}
			}
			if len(calls[0].args) != 1 || calls[0].args[0] == nil || !strings.Contains(in_valname(calls[0].args[0]), last) {
				return "the callback does not receive the value stored in the index"
			}
			if got != a.B(calls[0].name) {
				return "the callback's verdict is not returned to the index (early stop is lost or invented)"
			}
			return ""
		}})
}

func countParams(l *ast.FuncLit) int {
	n := 0
	for _, f := range l.Type.Params.List {
		if len(f.Names) == 0 {
			n++
		}
		n += len(f.Names)
	}
	return n
}

func in_valname(v *val) string {
	if v == nil {
		return ""
	}
	return v.name
}

// ruleFolds: ∀-folds of Valid and the Σ-fold of NumPoints.
func (p *Program) ruleFolds(c *Check) {
	forall := []struct {
		pkg, typ string
		parts    []string // what must be asked: name fragments of the Valid(...) verdicts
	}{{"geometry", "baseSeries", []string{".points["}}, {"geometry", "Poly", []string{".Exterior)", ".Holes["}},
		{"geojson", "MultiLineString", []string{"children["}}, {"geojson", "MultiPolygon", []string{"children["}}}
	// every other Valid method of the repository is a verdict the fold consults, not something to open
	verdicts := map[*types.Func]bool{}
	for _, d := range p.RepoDecls() {
		if d.Name() == "Valid" {
			verdicts[d] = true
		}
	}
	for _, f := range forall {
		fn := p.Method(f.pkg, f.typ, "Valid")
		if fn == nil || p.Decl(fn) == nil {
			c.Undecided("E10.forall", f.pkg+"."+f.typ+".Valid", "", "function not found")
			continue
		}
		opq := map[*types.Func]bool{}
		for v := range verdicts {
			if v != fn {
				opq[v] = true
			}
		}
		before := len(c.Obs)
		required := f.parts
		p.runE8(c, &e8row{id: FuncName(fn), fn: fn, opaque: opq, rangeMax: 2, maxBools: 16,
			what: "valid exactly when every part (every point / the exterior and every hole / every child) reports itself valid — parts unrolled for up to two elements",
			pre: func(a *e8assign, nm *e8names) bool {
				for _, b := range nm.bools {
					if v, ok := a.bools[b]; ok && v && strings.HasPrefix(b, "isnil(") {
						return false // nil receivers and exteriors are the nil-guard rule's business
					}
				}
				return true
			},
			spec: func(a *e8assign, nm *e8names, out *e8out) string {
				got, ok := retBool(out)
				if !ok {
					return "no boolean result"
				}
				exists := func(atom string) bool {
					// Valid(x[#j]) / Valid(x[j]): element j of slice x exists iff more(x)#0..j
					i := strings.LastIndex(atom, "[")
					if i < 0 || !strings.HasSuffix(atom, "])") {
						return true
					}
					slice := strings.TrimPrefix(atom[:i], "Valid(")
					idx := strings.Trim(atom[i+1:len(atom)-2], "#")
					j := 0
					fmt.Sscan(idx, &j)
					for k := 0; k <= j; k++ {
						name := fmt.Sprintf("more(%s)#%d", slice, k)
						if v, ok := a.bools[name]; !ok || !v {
							return false
						}
					}
					return true
				}
				want, parts := true, 0
				for _, b := range nm.bools {
					if strings.HasPrefix(b, "Valid(") {
						parts++
						if exists(b) && !a.B(b) {
							want = false
						}
					}
				}
				if parts == 0 {
					return "no part is asked whether it is valid"
				}
				for _, need := range required {
					found := false
					for _, b := range nm.bools {
						if strings.HasPrefix(b, "Valid(") && strings.Contains(b, need) {
							found = true
						}
					}
					if !found {
						return "validity is not decided by asking the parts themselves (no verdict of …" + need + "… is consulted): a summary such as the bounding rectangle stands in for them"
					}
				}
				if got != want {
					return fmt.Sprintf("answers %v where the parts' verdicts give %v", got, want)
				}
				return ""
			}})
		for _, o := range c.Obs[before:] {
			o.Rule = "E10.forall"
		}
	}
	fn := p.Method("geojson", "collection", "NumPoints")
	fd := p.Decl(fn)
	if fd != nil {
		ok := false
		ast.Inspect(fd.Body, func(n ast.Node) bool {
			rs, isR := n.(*ast.RangeStmt)
			if !isR || !strings.HasSuffix(types.ExprString(rs.X), ".children") || len(rs.Body.List) != 1 {
				return true
			}
			if as, isA := rs.Body.List[0].(*ast.AssignStmt); isA && as.Tok == token.ADD_ASSIGN && types.ExprString(as.Rhs[0]) == types.ExprString(rs.Value)+".NumPoints()" {
				ok = true
			}
			return true
		})
		c.Expect(ok, "E10.sum", FuncName(fn), p.declPos(fn), "the point count is the sum over all children", "NumPoints is not the sum of the children's point counts")
	}
	for _, m := range []struct{ name, want string }{{"Empty", "recv.pempty"}, {"Rect", "recv.prect"}} {
		mf := p.Method("geojson", "collection", m.name)
		sh, ok := p.shapeOf(mf)
		got := ""
		if ok && sh.final() != nil {
			got = sh.final().String()
		}
		c.Expect(got == m.want, "E10.cache", "(*geojson.collection)."+m.name, p.declPos(mf), "returns the value folded at construction", fmt.Sprintf("%s() does not return the cached %s (got %s)", m.name, m.want, got))
	}
}

// src prints an expression in full (types.ExprString elides composite literals).
func (p *Program) src(e ast.Expr) string {
	var b bytes.Buffer
	printer.Fprint(&b, p.Fset, e)
	return strings.Join(strings.Fields(b.String()), " ")
}

// ruleCollectionWithin (C10): a collection is within X iff it is non-empty and
// every child is within X.  The code counts the children that Search reports
// and that are within X, and compares the count with len(children) — so an
// empty child (never reported by Search) makes the collection within nothing.
// Two rows per method: the function around the search (Search kept opaque, the
// variables its callback writes are fresh atoms afterwards) and the callback
// itself (one child, both verdicts).
func (p *Program) ruleCollectionWithin(c *Check) {
	search := p.Method("geojson", "collection", "Search")
	empty := p.Method("geojson", "collection", "Empty")
	n := 0
	for _, m := range []string{"WithinRect", "WithinPoint", "WithinLine", "WithinPoly"} {
		fn := p.Method("geojson", "collection", m)
		fd, pkg := p.Decl(fn), p.DeclPkg(fn)
		name := "(*geojson.collection)." + m
		if fd == nil || search == nil || empty == nil {
			c.Undecided("E10.within", name, "", "method (or collection.Search/Empty) not found")
			continue
		}
		n++
		info := pkg.TypesInfo
		method := m
		opq := map[*types.Func]bool{search: true, empty: true}
		for _, tm := range [][2]string{{"Point", "Rect"}, {"baseSeries", "Rect"}, {"Poly", "Rect"}, {"Line", "Rect"}, {"Rect", "Rect"}} {
			if f := p.Method("geometry", tm[0], tm[1]); f != nil {
				opq[f] = true
			}
		}
		p.runE8(c, &e8row{id: name + "#count", fn: fn, havoc: true, opaque: opq, opaquePkg: map[*types.Package]bool{p.Geom.Types: true},
			what: "false for an empty collection; otherwise true exactly when the number of children counted by the search callback equals len(children); the search rectangle is the operand's rectangle",
			spec: func(a *e8assign, nm *e8names, out *e8out) string {
				got, ok := retBool(out)
				if !ok {
					return "no boolean result"
				}
				eName := firstBool(nm, reEmpty)
				if eName == "" {
					return "the collection's emptiness is not consulted"
				}
				if a.B(eName) {
					if got {
						return "an empty collection is reported to be within something"
					}
					return ""
				}
				calls := out.in.called("Search")
				if len(calls) == 0 {
					// an early rejection (e.g. by bounding rectangles) is not judged here; an early acceptance is wrong
					if got {
						return "accepts without counting the children: children the search never reports (empty ones) are not accounted for"
					}
					return ""
				}
				if len(calls) != 1 {
					return fmt.Sprintf("the children are searched %d times (expected once)", len(calls))
				}
				if len(calls[0].args) < 2 || calls[0].args[1] == nil || !(calls[0].args[1].name == "p0" || strings.HasPrefix(calls[0].args[1].name, "Rect(p0")) {
					return "the search rectangle is not the operand's rectangle"
				}
				var counter, length string
				for _, s := range nm.scalars {
					if strings.HasSuffix(s, "'") {
						counter = s
					}
					if strings.HasPrefix(s, "len(") && strings.Contains(s, "children") {
						length = s
					}
				}
				if counter == "" || length == "" {
					return "the result does not compare a counter maintained by the search callback with len(children): children the search never reports (empty ones) are not accounted for"
				}
				if want := a.R(counter) == a.R(length); got != want {
					return fmt.Sprintf("returns %v when the counted children %s len(children)", got, map[bool]string{true: "equal", false: "differ from"}[want])
				}
				return ""
			}})
		// the callback handed to Search (in the method or a same-package helper it calls)
		var lit *ast.FuncLit
		var find func(body *ast.BlockStmt, depth int)
		find = func(body *ast.BlockStmt, depth int) {
			ast.Inspect(body, func(nd ast.Node) bool {
				call, ok := nd.(*ast.CallExpr)
				if !ok || lit != nil {
					return true
				}
				callee, _ := typeutil.Callee(info, call).(*types.Func)
				if callee == search {
					for _, ar := range call.Args {
						if l, ok := ast.Unparen(ar).(*ast.FuncLit); ok {
							lit = l
						}
					}
				} else if callee != nil && callee.Pkg() == fn.Pkg() && depth < 2 {
					if hd := p.Decl(callee); hd != nil && hd.Body != nil {
						find(hd.Body, depth+1)
					}
				}
				return true
			})
		}
		find(fd.Body, 0)
		if lit == nil {
			c.Undecided("E10.within", name+"#step", p.declPos(fn), "the callback handed to Search was not found")
			continue
		}
		var counterName string
		ast.Inspect(lit.Body, func(nd ast.Node) bool {
			switch st := nd.(type) {
			case *ast.IncDecStmt:
				if id, ok := st.X.(*ast.Ident); ok {
					counterName = id.Name
				}
			case *ast.AssignStmt:
				if id, ok := st.Lhs[0].(*ast.Ident); ok && len(st.Lhs) == 1 && st.Tok != token.DEFINE {
					if b, ok := info.TypeOf(id).Underlying().(*types.Basic); ok && b.Info()&types.IsInteger != 0 {
						counterName = id.Name
					}
				}
			}
			return true
		})
		thelit := lit
		p.runE8(c, &e8row{id: name + "#step", fn: fn,
			what: "per reported child: counted (and the search continues) exactly when the child is " + method + " the operand",
			run: func(in *e8interp) *e8out {
				fr := newFrame(pkg)
				i := 0
				for _, f := range thelit.Type.Params.List {
					for _, nm := range f.Names {
						if o := info.Defs[nm]; o != nil {
							fr.vars[o] = in.newInput(fmt.Sprintf("q%d", i), o.Type())
						}
						i++
					}
				}
				out := &e8out{fr: fr}
				if r := in.runBody(fr, thelit.Body.List); r != nil {
					out.returned, out.ret = true, r.vals
				}
				return out
			},
			spec: func(a *e8assign, nm *e8names, out *e8out) string {
				var w []string
				for _, b := range nm.bools {
					if strings.Contains(b, "(") {
						w = append(w, b)
					}
				}
				if len(w) != 1 {
					return fmt.Sprintf("the callback consults %d verdicts about the child (expected exactly one: is the child within the operand)", len(w))
				}
				if !strings.HasPrefix(w[0], method+"(") && !strings.Contains(w[0], "."+method+"(") {
					// a predicate parameter of a shared helper: the method must hand it its own verdict
					uses := mentions(fd.Body, func(nd ast.Node) bool {
						sel, ok := nd.(*ast.SelectorExpr)
						return ok && sel.Sel.Name == method
					})
					if !uses {
						return "the verdict asked of the child is not " + method
					}
				} else if !strings.Contains(w[0], "q0") {
					return "the verdict is not asked of the reported child"
				}
				got, ok := retBool(out)
				if !ok {
					return "the callback does not return a boolean"
				}
				var counter *val
				for o, v := range out.fr.vars {
					if o != nil && o.Name() == counterName {
						counter = v
					}
				}
				counted := counter != nil && counter.k == kScalar && counter.name == "("+counterName+"+1)"
				unchanged := counter == nil || (counter.k == kScalar && counter.name == counterName)
				if a.B(w[0]) {
					if !counted || !got {
						return "a child that is within the operand is not counted (or the search stops)"
					}
				} else if !unchanged {
					return "a child that is not within the operand is counted"
				}
				return ""
			}})
	}
	c.Floor("E10.within", n, 4, "Within* methods of collection")
}

// ---- ∃-scans of collection: Intersects*, and the per-piece loops of Contains / Intersects ----

// searchLits: the function literals handed to collection.Search in fn (and in
// same-package helpers it calls), outermost first.
func (p *Program) searchLits(fn *types.Func, search *types.Func) []*ast.FuncLit {
	var out []*ast.FuncLit
	seen := map[*types.Func]bool{}
	var find func(f *types.Func, depth int)
	find = func(f *types.Func, depth int) {
		fd, pkg := p.Decl(f), p.DeclPkg(f)
		if fd == nil || fd.Body == nil || seen[f] || depth > 2 {
			return
		}
		seen[f] = true
		ast.Inspect(fd.Body, func(nd ast.Node) bool {
			call, ok := nd.(*ast.CallExpr)
			if !ok {
				return true
			}
			callee, _ := typeutil.Callee(pkg.TypesInfo, call).(*types.Func)
			if callee == search {
				for _, ar := range call.Args {
					if l, ok := ast.Unparen(ar).(*ast.FuncLit); ok {
						out = append(out, l)
					}
				}
			} else if callee != nil && callee.Pkg() == fn.Pkg() && callee != f {
				find(callee, depth+1)
			}
			return true
		})
	}
	find(fn, 0)
	return out
}

// litRun: run a function literal with its parameters as inputs q0, q1, …
func litRun(pkg *packages.Package, lit *ast.FuncLit) func(in *e8interp) *e8out {
	return func(in *e8interp) *e8out {
		fr := newFrame(pkg)
		i := 0
		for _, f := range lit.Type.Params.List {
			for _, nm := range f.Names {
				if o := pkg.TypesInfo.Defs[nm]; o != nil {
					fr.vars[o] = in.newInput(fmt.Sprintf("q%d", i), o.Type())
				}
				i++
			}
		}
		out := &e8out{fr: fr}
		if r := in.runBody(fr, lit.Body.List); r != nil {
			out.returned, out.ret = true, r.vals
		}
		return out
	}
}

// flagAfter: the value of the captured boolean that the literal assigns (nil if none was assigned).
func flagAfter(out *e8out, lit *ast.FuncLit) (name string, v *val) {
	for o, x := range out.fr.vars {
		if o == nil || x == nil {
			continue
		}
		if bt, ok := o.Type().Underlying().(*types.Basic); ok && bt.Kind() == types.Bool && !(lit.Pos() <= o.Pos() && o.Pos() < lit.End()) {
			if x.k == kBool && x.name == "" {
				return o.Name(), x
			}
		}
	}
	return "", nil
}

func (p *Program) ruleCollectionExists(c *Check) {
	search := p.Method("geojson", "collection", "Search")
	empty := p.Method("geojson", "collection", "Empty")
	if search == nil || empty == nil {
		c.Undecided("E10.exists", "anchor:(*geojson.collection).Search", "", "not found")
		return
	}
	opq := map[*types.Func]bool{search: true, empty: true}
	geomOpaque := map[*types.Package]bool{p.Geom.Types: true}
	n := 0
	for _, m := range []string{"IntersectsPoint", "IntersectsRect", "IntersectsLine", "IntersectsPoly"} {
		fn := p.Method("geojson", "collection", m)
		fd, pkg := p.Decl(fn), p.DeclPkg(fn)
		name := "(*geojson.collection)." + m
		if fd == nil {
			c.Undecided("E10.exists", name, "", "method not found")
			continue
		}
		n++
		method := m
		p.runE8(c, &e8row{id: name + "#result", fn: fn, havoc: true, opaque: opq, opaquePkg: geomOpaque,
			what: "true exactly when the search callback found a child that intersects the operand; the children are searched once, with the operand's rectangle",
			spec: func(a *e8assign, nm *e8names, out *e8out) string {
				got, ok := retBool(out)
				if !ok {
					return "no boolean result"
				}
				calls := out.in.called("Search")
				if len(calls) == 0 {
					if got {
						return "reports an intersection without looking at any child"
					}
					return "" // an early rejection is not judged here
				}
				if len(calls) != 1 {
					return fmt.Sprintf("the children are searched %d times (expected once)", len(calls))
				}
				if len(calls[0].args) < 2 || calls[0].args[1] == nil || !(calls[0].args[1].name == "p0" || strings.HasPrefix(calls[0].args[1].name, "Rect(p0")) {
					return "the search rectangle is not the operand's rectangle"
				}
				var flag string
				for _, b := range nm.bools {
					if strings.HasSuffix(b, "'") {
						flag = b
					}
				}
				if flag == "" {
					return "the result does not depend on what the search callback found"
				}
				if got != a.B(flag) {
					return fmt.Sprintf("returns %v although the callback's verdict is %v", got, a.B(flag))
				}
				return ""
			}})
		lits := p.searchLits(fn, search)
		if len(lits) == 0 {
			c.Undecided("E10.exists", name+"#step", p.declPos(fn), "the callback handed to Search was not found")
			continue
		}
		lit := lits[0]
		// does the callback stop the search at every hit?  (then a write of `false` on a miss cannot undo an earlier hit)
		stopsOnHit := true
		p.runE8(NewCheck("tmp", "quick"), &e8row{id: name + "#step-pre", fn: fn, run: litRun(pkg, lit),
			spec: func(a *e8assign, nm *e8names, out *e8out) string {
				got, ok := retBool(out)
				for _, b := range nm.bools {
					if strings.Contains(b, "(") && a.B(b) && (!ok || got) {
						stopsOnHit = false
					}
				}
				return ""
			}})
		p.runE8(c, &e8row{id: name + "#step", fn: fn, run: litRun(pkg, lit),
			what: "per reported child: the verdict becomes true when the child " + method + " the operand; otherwise nothing changes and the search continues",
			spec: func(a *e8assign, nm *e8names, out *e8out) string {
				var w []string
				for _, b := range nm.bools {
					if strings.Contains(b, "(") {
						w = append(w, b)
					}
				}
				if len(w) != 1 {
					return fmt.Sprintf("the callback consults %d verdicts about the child (expected exactly one)", len(w))
				}
				if !strings.HasPrefix(w[0], method+"(") || !strings.Contains(w[0], "q0") {
					return "the verdict asked is not " + method + " of the reported child: " + w[0]
				}
				got, ok := retBool(out)
				if !ok {
					return "the callback does not return a boolean"
				}
				_, fv := flagAfter(out, lit)
				if a.B(w[0]) {
					if fv == nil || !fv.b {
						return "an intersecting child does not set the verdict"
					}
				} else {
					if fv != nil && (fv.b || !stopsOnHit) {
						return "a child that does not intersect changes the verdict"
					}
					if !got {
						return "the search stops at a child that does not intersect: later children are never asked"
					}
				}
				return ""
			}})
	}
	// the object-level predicates: one search per non-empty piece of the operand
	for _, m := range []string{"Contains", "Intersects"} {
		fn := p.Method("geojson", "collection", m)
		fd, pkg := p.Decl(fn), p.DeclPkg(fn)
		name := "(*geojson.collection)." + m
		if fd == nil {
			c.Undecided("E10.exists", name, "", "method not found")
			continue
		}
		n++
		info := pkg.TypesInfo
		method := m
		// the literal handed to ForEach
		var pieceLit *ast.FuncLit
		ast.Inspect(fd.Body, func(nd ast.Node) bool {
			call, ok := nd.(*ast.CallExpr)
			if !ok || pieceLit != nil {
				return true
			}
			if sel, ok := ast.Unparen(call.Fun).(*ast.SelectorExpr); ok && sel.Sel.Name == "ForEach" {
				for _, ar := range call.Args {
					if l, ok := ast.Unparen(ar).(*ast.FuncLit); ok {
						pieceLit = l
					}
				}
			}
			return true
		})
		if pieceLit == nil {
			c.Undecided("E10.exists", name+"#piece", p.declPos(fn), "the per-piece callback (handed to ForEach) was not found")
			continue
		}
		_ = info
		pl := pieceLit
		row := &e8row{id: name + "#piece", fn: fn, havoc: true, opaque: opq, opaquePkg: geomOpaque,
			what: "per piece of the operand: an empty piece is skipped; every other piece is searched for exactly once, with its own rectangle, whatever happened to earlier pieces",
			spec: func(a *e8assign, nm *e8names, out *e8out) string {
				eName := ""
				for _, b := range nm.bools {
					if strings.HasPrefix(b, "Empty(q0") {
						eName = b
					}
				}
				if eName == "" {
					return "the piece's emptiness is not consulted"
				}
				calls := out.in.called("Search")
				got, ok := retBool(out)
				if !ok {
					return "the callback does not return a boolean"
				}
				if a.B(eName) {
					if len(calls) != 0 || !got {
						return "an empty piece is not simply skipped"
					}
					return ""
				}
				if len(calls) != 1 {
					return fmt.Sprintf("a non-empty piece is searched for %d times (expected exactly once: the answer for a piece must not depend on earlier pieces)", len(calls))
				}
				if len(calls[0].args) < 2 || calls[0].args[1] == nil || !strings.HasPrefix(calls[0].args[1].name, "Rect(q0") {
					return "the search rectangle is not the piece's own rectangle"
				}
				var flag string
				for _, b := range nm.bools {
					if strings.HasSuffix(b, "'") {
						flag = b
					}
				}
				if flag == "" {
					return "what the search found is not consulted"
				}
				found := a.B(flag)
				if method == "Intersects" {
					// entry states in which the verdict is already true are unreachable: the scan stops at the first hit
					for _, b := range nm.bools {
						if !strings.ContainsAny(b, "('") && a.B(b) {
							return ""
						}
					}
				}
				if method == "Contains" {
					// a piece no child contains ends the scan with the answer false; otherwise the scan goes on
					if got != found {
						return fmt.Sprintf("the scan %s although the piece is contained=%v", map[bool]string{true: "continues", false: "stops"}[got], found)
					}
				} else {
					if got == found {
						return fmt.Sprintf("the scan %s although an intersection was found=%v", map[bool]string{true: "continues", false: "stops"}[got], found)
					}
				}
				return ""
			}}
		row.run = func(in *e8interp) *e8out { return litRun(pkg, pl)(in) }
		p.runE8(c, row)
	}
	c.Floor("E10.exists", n, 6, "∃-scans of collection")
}
