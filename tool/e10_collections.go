package main

import (
	"bytes"
	"fmt"
	"go/ast"
	"go/printer"
	"go/token"
	"go/types"
	"strings"
)

// Collections (C10/C11): the cached emptiness/rectangle fold, the child
// index, the two arms of Search, and the ∀/Σ folds of Valid and NumPoints.

func isSkipEmpty(st ast.Stmt, v string) bool {
	is, ok := st.(*ast.IfStmt)
	if !ok || is.Else != nil || len(is.Body.List) != 1 {
		return false
	}
	br, ok := is.Body.List[0].(*ast.BranchStmt)
	if !ok || br.Tok != token.CONTINUE {
		return false
	}
	return types.ExprString(is.Cond) == v+".Empty()"
}

func (p *Program) ruleCollectionFold(c *Check) {
	fn := p.Method("geojson", "collection", "parseInitRectIndex")
	fd, pkg := p.Decl(fn), p.DeclPkg(fn)
	if fd == nil {
		c.Undecided("E10.fold", "anchor:(*geojson.collection).parseInitRectIndex", "", "function not found")
		return
	}
	info := pkg.TypesInfo
	var loops []*ast.RangeStmt
	ast.Inspect(fd.Body, func(n ast.Node) bool {
		if rs, ok := n.(*ast.RangeStmt); ok && strings.HasSuffix(types.ExprString(rs.X), ".children") {
			loops = append(loops, rs)
		}
		return true
	})
	name := FuncName(fn)
	if len(loops) < 2 {
		c.Undecided("E10.fold", name, p.declPos(fn), "expected the fold loop and the index-building loop over the children")
		return
	}
	fold := loops[0]
	child := types.ExprString(fold.Value)
	if len(fold.Body.List) == 0 || !isSkipEmpty(fold.Body.List[0], child) {
		c.Bad("E10.fold", name+"#skip-empty", p.Pos(fold.Pos()), "the fold over the children does not start by skipping empty children: an empty child would contribute its (meaningless) rectangle")
		return
	}
	c.OK("E10.fold", name+"#skip-empty", p.Pos(fold.Pos()), "empty children are skipped before anything is accumulated")
	// nothing may seed the accumulator from a child before the loop
	seeded := ""
	for _, st := range fd.Body.List {
		if st == ast.Stmt(fold) {
			break
		}
		ast.Inspect(st, func(n ast.Node) bool {
			if as, ok := n.(*ast.AssignStmt); ok {
				for i, l := range as.Lhs {
					if strings.HasSuffix(types.ExprString(l), ".prect") && i < len(as.Rhs) {
						seeded = types.ExprString(as.Rhs[i])
					}
				}
			}
			return true
		})
	}
	c.Expect(seeded == "", "E10.fold", name+"#no-seed", p.declPos(fn), "the rectangle accumulator is not seeded before the fold",
		"the rectangle accumulator is seeded with "+seeded+" before the fold: a child that the fold would skip (an empty one) can leak into the union")
	// the inductive step, tabulated by the comparison-network engine
	step := fold.Body.List[1:]
	// the counter of non-empty children: the variable incremented unconditionally in the step
	counterName := ""
	for _, st := range step {
		if ids, ok := st.(*ast.IncDecStmt); ok && ids.Tok == token.INC {
			counterName = types.ExprString(ids.X)
		}
	}
	atoms := []string{"0"}
	if counterName != "" {
		atoms = append(atoms, counterName)
	}
	row := &e8row{id: name + "#fold-step", fn: fn, lenEqOpaque: true,
		what: "inductive step of the fold over non-empty children: the first one sets the rectangle, later ones enlarge it to the union; the collection becomes non-empty; the counter of non-empty children grows by one",
		run: func(in *e8interp) *e8out {
			fr, out := p.bindInputs(in, fn)
			r := in.runBody(fr, step)
			if r != nil && r != continueSignal {
				e8fail("the fold step leaves the loop")
			}
			return out
		},
		group: func(n string) int {
			if strings.HasPrefix(n, "count") || strings.HasPrefix(n, "(count") || n == "0" || n == "1" {
				return 0
			}
			if _, ok := numericAtom(n); ok {
				return 0
			}
			if !strings.Contains(n, ".") {
				return 0
			}
			return axisGroup(n)
		},
		atoms: atoms,
		pre: func(a *e8assign, n *e8names) bool {
			cnt := n.match(`^[a-zA-Z_]+$`)
			for _, s := range cnt {
				if a.has(s, "0") && a.R(s) < a.R("0") {
					return false
				}
			}
			// rectangles are normalised
			for _, pre := range [][2]string{{".Min.X", ".Max.X"}, {".Min.Y", ".Max.Y"}} {
				for _, s := range n.scalars {
					if strings.HasSuffix(s, pre[0]) {
						t := strings.TrimSuffix(s, pre[0]) + pre[1]
						if a.has(s, t) && a.R(s) > a.R(t) {
							return false
						}
					}
				}
			}
			return true
		},
		spec: func(a *e8assign, n *e8names, out *e8out) string {
			// booleans: the child is not empty here
			for _, b := range n.bools {
				if strings.HasSuffix(b, ".Empty()") && a.B(b) {
					return ""
				}
			}
			recv := out.recv
			if recv == nil {
				return "receiver not bound"
			}
			pe := leaf(recv, "pempty")
			if pe == nil || pe.k != kBool {
				return "pempty not found"
			}
			peVal := pe.b
			if pe.name != "" {
				peVal = a.B(pe.name)
			}
			counter := counterName
			first := true
			if counter != "" {
				first = a.R(counter) == a.R("0")
			}
			// invariant on entry: pempty <=> nothing seen yet; infeasible combinations are skipped
			if in0, ok := a.bools["recv.pempty"]; ok && counter != "" && in0 != first {
				return ""
			}
			for _, b := range n.bools {
				if strings.HasPrefix(b, "len(") && a.B(b) && !first {
					return "" // a single child cannot be the second non-empty one
				}
			}
			if peVal {
				return "after a non-empty child the collection is still marked empty"
			}
			R := func(s string) int { return a.R(s) }
			var crect string
			for _, s := range n.scalars {
				if strings.HasSuffix(s, ".Rect().Min.X") {
					crect = strings.TrimSuffix(s, ".Min.X")
				}
			}
			if crect == "" {
				return "the child's rectangle is not read"
			}
			pr := leaf(recv, "prect")
			for _, k := range [][2]string{{"Min", "X"}, {"Min", "Y"}, {"Max", "X"}, {"Max", "Y"}} {
				v := leaf(pr, k[0], k[1])
				if v == nil || v.k != kScalar {
					return "prect." + k[0] + "." + k[1] + " is not a selected coordinate"
				}
				cr := crect + "." + k[0] + "." + k[1]
				old := "recv.prect." + k[0] + "." + k[1]
				var want int
				switch {
				case first:
					want = R(cr)
				case k[0] == "Min":
					want = imin(R(old), R(cr))
				default:
					want = imax(R(old), R(cr))
				}
				if R(v.name) != want {
					if first {
						return "the first non-empty child does not initialise prect." + k[0] + "." + k[1] + " (got " + v.name + ")"
					}
					return "prect." + k[0] + "." + k[1] + " is not the union with the child's rectangle (got " + v.name + ")"
				}
			}
			return ""
		}}
	p.runE8(c, row)
	// the counter must count exactly the non-skipped iterations: incremented unconditionally in the step
	inc := false
	for _, st := range step {
		if ids, ok := st.(*ast.IncDecStmt); ok && ids.Tok == token.INC {
			inc = true
		}
	}
	c.Expect(inc, "E10.fold", name+"#counter", p.Pos(fold.Pos()), "the non-empty counter is incremented once per non-skipped child", "the counter of non-empty children is not incremented unconditionally in the fold step")
	// the index-building loop
	build := loops[1]
	bchild := types.ExprString(build.Value)
	okBuild := len(build.Body.List) > 0 && isSkipEmpty(build.Body.List[0], bchild)
	insertOK := false
	ast.Inspect(build.Body, func(n ast.Node) bool {
		call, ok := n.(*ast.CallExpr)
		if !ok || !strings.HasSuffix(types.ExprString(call.Fun), ".Insert") || len(call.Args) != 3 {
			return true
		}
		a0, a1, a2 := p.src(call.Args[0]), p.src(call.Args[1]), types.ExprString(call.Args[2])
		if a2 == bchild && strings.Contains(a0, ".Min.X") && strings.Contains(a0, ".Min.Y") && strings.Contains(a1, ".Max.X") && strings.Contains(a1, ".Max.Y") {
			// the rectangle variable must be child.Rect()
			rv := a0[strings.Index(a0, "{")+1 : strings.Index(a0, ".Min.X")]
			ast.Inspect(build.Body, func(m ast.Node) bool {
				if as, ok := m.(*ast.AssignStmt); ok && len(as.Lhs) == 1 && types.ExprString(as.Lhs[0]) == rv && types.ExprString(as.Rhs[0]) == bchild+".Rect()" {
					insertOK = true
				}
				return true
			})
		}
		return true
	})
	c.Expect(okBuild && insertOK, "E10.index", name+"#tree-build", p.Pos(build.Pos()),
		"the child index receives exactly the non-empty children, each under its own Rect()",
		"the child R-tree is not built from (child.Rect(), child) of exactly the non-empty children: indexed and linear Search would disagree")
	_ = info
}

func (p *Program) ruleCollectionSearch(c *Check) {
	fn := p.Method("geojson", "collection", "Search")
	fd := p.Decl(fn)
	name := "(*geojson.collection).Search"
	if fd == nil {
		c.Undecided("E10.search", name, "", "function not found")
		return
	}
	var rectParam, iterParam string
	for _, f := range fd.Type.Params.List {
		for _, n := range f.Names {
			if _, ok := f.Type.(*ast.FuncType); ok {
				iterParam = n.Name
			} else {
				rectParam = n.Name
			}
		}
	}
	// linear arm
	var loop *ast.RangeStmt
	ast.Inspect(fd.Body, func(n ast.Node) bool {
		if rs, ok := n.(*ast.RangeStmt); ok && strings.HasSuffix(types.ExprString(rs.X), ".children") {
			loop = rs
		}
		return true
	})
	if loop == nil {
		c.Undecided("E10.search", name+"#linear", p.declPos(fn), "linear arm not found")
	} else {
		child := types.ExprString(loop.Value)
		skip := len(loop.Body.List) > 0 && isSkipEmpty(loop.Body.List[0], child)
		filtered := false
		ast.Inspect(loop.Body, func(n ast.Node) bool {
			is, ok := n.(*ast.IfStmt)
			if !ok {
				return true
			}
			cond := types.ExprString(is.Cond)
			if cond == child+".Rect().IntersectsRect("+rectParam+")" || cond == rectParam+".IntersectsRect("+child+".Rect())" {
				ast.Inspect(is.Body, func(m ast.Node) bool {
					if call, ok := m.(*ast.CallExpr); ok && types.ExprString(call.Fun) == iterParam && len(call.Args) == 1 && types.ExprString(call.Args[0]) == child {
						filtered = true
					}
					return true
				})
			}
			return true
		})
		// no unfiltered iter call in the loop
		calls := 0
		ast.Inspect(loop.Body, func(n ast.Node) bool {
			if call, ok := n.(*ast.CallExpr); ok && types.ExprString(call.Fun) == iterParam {
				calls++
			}
			return true
		})
		c.Expect(skip && filtered && calls == 1, "E10.search", name+"#linear", p.Pos(loop.Pos()),
			"reports exactly the non-empty children whose Rect() meets the query rectangle",
			"the linear arm does not apply the two filters of the indexed arm (skip empty children; child.Rect().IntersectsRect(query)) to every callback")
	}
	// indexed arm
	okTree := false
	ast.Inspect(fd.Body, func(n ast.Node) bool {
		call, ok := n.(*ast.CallExpr)
		if !ok || !strings.HasSuffix(types.ExprString(call.Fun), ".tree.Search") || len(call.Args) != 3 {
			return true
		}
		a0, a1 := p.src(call.Args[0]), p.src(call.Args[1])
		lit, isLit := call.Args[2].(*ast.FuncLit)
		if !isLit || len(lit.Body.List) != 1 {
			return true
		}
		ret, isRet := lit.Body.List[0].(*ast.ReturnStmt)
		if !isRet || len(ret.Results) != 1 {
			return true
		}
		rc, isCall := ret.Results[0].(*ast.CallExpr)
		if isCall && types.ExprString(rc.Fun) == iterParam && len(rc.Args) == 1 &&
			strings.Contains(a0, rectParam+".Min.X") && strings.Contains(a0, rectParam+".Min.Y") &&
			strings.Contains(a1, rectParam+".Max.X") && strings.Contains(a1, rectParam+".Max.Y") {
			if ta, ok := rc.Args[0].(*ast.TypeAssertExpr); ok && len(lit.Type.Params.List) >= 1 {
				last := lit.Type.Params.List[len(lit.Type.Params.List)-1]
				if len(last.Names) > 0 && types.ExprString(ta.X) == last.Names[len(last.Names)-1].Name {
					okTree = true
				}
			}
		}
		return true
	})
	c.Expect(okTree, "E10.search", name+"#indexed", p.declPos(fn), "the indexed arm searches the query rectangle and hands each stored child to the callback, returning its verdict",
		"the indexed arm does not search [rect.Min, rect.Max] and forward iter(child)'s result: early stop or the candidate set differ from the linear arm")
}

// ruleFolds: ∀-folds of Valid and the Σ-fold of NumPoints.
func (p *Program) ruleFolds(c *Check) {
	forall := []struct{ pkg, typ string }{{"geometry", "baseSeries"}, {"geometry", "Poly"}, {"geojson", "MultiLineString"}, {"geojson", "MultiPolygon"}}
	for _, f := range forall {
		fn := p.Method(f.pkg, f.typ, "Valid")
		fd := p.Decl(fn)
		con := FuncName(fn)
		if fd == nil {
			c.Undecided("E10.forall", f.pkg+"."+f.typ+".Valid", "", "function not found")
			continue
		}
		// every range loop tests its element; a failed test makes the result false; nothing resets it
		loops, tested := 0, 0
		flag := ""
		resets := false
		ast.Inspect(fd.Body, func(n ast.Node) bool {
			rs, ok := n.(*ast.RangeStmt)
			if !ok {
				return true
			}
			loops++
			el := types.ExprString(rs.Value)
			for _, st := range rs.Body.List {
				is, ok := st.(*ast.IfStmt)
				if !ok || types.ExprString(is.Cond) != "!"+el+".Valid()" || len(is.Body.List) != 1 {
					continue
				}
				switch b := is.Body.List[0].(type) {
				case *ast.ReturnStmt:
					if len(b.Results) == 1 && types.ExprString(b.Results[0]) == "false" {
						tested++
					}
				case *ast.AssignStmt:
					if len(b.Lhs) == 1 && types.ExprString(b.Rhs[0]) == "false" {
						flag = types.ExprString(b.Lhs[0])
						tested++
					}
				}
			}
			return true
		})
		if flag != "" {
			ast.Inspect(fd.Body, func(n ast.Node) bool {
				if as, ok := n.(*ast.AssignStmt); ok && as.Tok == token.ASSIGN && len(as.Lhs) == 1 && types.ExprString(as.Lhs[0]) == flag && types.ExprString(as.Rhs[0]) != "false" {
					resets = true
				}
				return true
			})
		}
		last := fd.Body.List[len(fd.Body.List)-1]
		okRet := false
		if ret, ok := last.(*ast.ReturnStmt); ok && len(ret.Results) == 1 {
			r := types.ExprString(ret.Results[0])
			okRet = r == "true" || (flag != "" && r == flag)
		}
		// the exterior of a polygon is tested too
		extra := true
		if f.typ == "Poly" {
			extra = false
			ast.Inspect(fd.Body, func(n ast.Node) bool {
				if is, ok := n.(*ast.IfStmt); ok && strings.Contains(types.ExprString(is.Cond), ".Exterior.Valid()") && strings.HasPrefix(types.ExprString(is.Cond), "!") {
					extra = true
				}
				return true
			})
		}
		c.Expect(loops >= 1 && tested == loops && okRet && !resets && extra, "E10.forall", con, p.declPos(fn),
			"valid iff every part is valid (each element tested, any failure makes the result false, nothing resets it)",
			"Valid() is not the conjunction over all parts: an element is not tested, a failure is overwritten, or the final result ignores the tests")
	}
	fn := p.Method("geojson", "collection", "NumPoints")
	fd := p.Decl(fn)
	if fd != nil {
		ok := false
		ast.Inspect(fd.Body, func(n ast.Node) bool {
			rs, isR := n.(*ast.RangeStmt)
			if !isR || !strings.HasSuffix(types.ExprString(rs.X), ".children") || len(rs.Body.List) != 1 {
				return true
			}
			if as, isA := rs.Body.List[0].(*ast.AssignStmt); isA && as.Tok == token.ADD_ASSIGN && types.ExprString(as.Rhs[0]) == types.ExprString(rs.Value)+".NumPoints()" {
				ok = true
			}
			return true
		})
		c.Expect(ok, "E10.sum", FuncName(fn), p.declPos(fn), "the point count is the sum over all children", "NumPoints is not the sum of the children's point counts")
	}
	// collection.Valid/Center/Empty/Rect forward to the cached values
	for _, m := range []struct{ name, want string }{{"Empty", "recv.pempty"}, {"Rect", "recv.prect"}} {
		mf := p.Method("geojson", "collection", m.name)
		sh, ok := p.shapeOf(mf)
		got := ""
		if ok && sh.final() != nil {
			got = sh.final().String()
		}
		c.Expect(got == m.want, "E10.cache", "(*geojson.collection)."+m.name, p.declPos(mf), "returns the value folded at construction", fmt.Sprintf("%s() does not return the cached %s (got %s)", m.name, m.want, got))
	}
}

// src prints an expression in full (types.ExprString elides composite literals).
func (p *Program) src(e ast.Expr) string {
	var b bytes.Buffer
	printer.Fprint(&b, p.Fset, e)
	return strings.Join(strings.Fields(b.String()), " ")
}
