package main

import (
	"encoding/json"
	"flag"
	"fmt"
	"os"
	"runtime/debug"
	"sort"
	"strconv"
	"strings"
	"time"
)

func usage() {
	fmt.Fprintln(os.Stderr, `usage:
  geoverif check <Cxx> [--tier quick|thorough] [--repo DIR]
  geoverif explain <violation.json> [--repo DIR]
  geoverif list`)
	os.Exit(2)
}

func repoDir(flagVal string) string {
	if flagVal != "" {
		return flagVal
	}
	if d := os.Getenv("GEOVERIF_REPO"); d != "" {
		return d
	}
	return "/repo"
}

func main() {
	if len(os.Args) < 2 {
		usage()
	}
	switch os.Args[1] {
	case "check":
		os.Exit(cmdCheck(os.Args[2:]))
	case "explain":
		os.Exit(cmdExplain(os.Args[2:]))
	case "mutant":
		os.Exit(cmdMutant(os.Args[2:]))
	case "try":
		os.Exit(cmdTry(os.Args[2:]))
	case "e8":
		// developer aid: run single comparison-network rows
		p, err := Load(LoadConfig{RepoDir: repoDir("")})
		if err != nil {
			fmt.Println(err)
			os.Exit(2)
		}
		c := NewCheck("E8", "quick")
		ids := os.Args[2:]
		if len(ids) == 0 {
			for id := range p.e8Rows() {
				ids = append(ids, id)
			}
			sort.Strings(ids)
		}
		for _, id := range ids {
			t := time.Now()
			p.ruleE8(c, id)
			o := c.Obs[len(c.Obs)-1]
			fmt.Printf("%-55s %-11s %5.2fs %s %s\n", id, o.Status, time.Since(t).Seconds(), o.Detail, o.Observed)
		}
	case "list":
		ids := []string{}
		for id := range properties {
			ids = append(ids, id)
		}
		sort.Strings(ids)
		for _, id := range ids {
			fmt.Println(id, properties[id].Level)
		}
	default:
		usage()
	}
}

func parseCheckArgs(args []string) (prop, tier, repo string, rest []string) {
	fs := flag.NewFlagSet("check", flag.ExitOnError)
	t := fs.String("tier", "", "quick|thorough")
	r := fs.String("repo", "", "repository directory (default /repo)")
	var pos []string
	// allow flags after the positional argument
	for len(args) > 0 {
		if strings.HasPrefix(args[0], "-") {
			break
		}
		pos = append(pos, args[0])
		args = args[1:]
	}
	fs.Parse(args)
	pos = append(pos, fs.Args()...)
	if len(pos) < 1 {
		usage()
	}
	tier = *t
	if tier == "" {
		tier = os.Getenv("VERIF_TIER")
	}
	if tier != "thorough" {
		tier = "quick"
	}
	return pos[0], tier, repoDir(*r), pos[1:]
}

func seed() int {
	n, _ := strconv.Atoi(os.Getenv("VERIF_SEED"))
	return n
}

// runProperty loads the program and runs the rules of one property.
// deepTier: the thorough tier widens the bounded analyses (more holes, longer rings).
var deepTier bool

func runProperty(def *PropertyDef, tier, repo, goarch string, overlay map[string][]byte) (c *Check, err error) {
	deepTier = tier == "thorough"
	c = NewCheck(def.ID, tier)
	c.Level = def.Level
	defer func() {
		if r := recover(); r != nil {
			c.Undecided("analysis", "panic", "", fmt.Sprintf("analyser panic: %v\n%s", r, debug.Stack()))
		}
	}()
	p, lerr := Load(LoadConfig{RepoDir: repo, GOARCH: goarch, Overlay: overlay})
	if lerr != nil {
		c.Undecided("load", "load:"+repo, "", "the repository could not be loaded and type-checked: "+lerr.Error())
		return c, nil
	}
	c.prog = p
	c.Count("packages_loaded", len(p.All))
	c.Count("repo_packages", len(p.Repo))
	c.Count("repo_functions", len(p.RepoSourceFuncs()))
	def.Run(p, c)
	return c, nil
}

func cmdCheck(args []string) int {
	start := time.Now()
	prop, tier, repo, _ := parseCheckArgs(args)
	def := properties[prop]
	if def == nil {
		fmt.Printf("geoverif: property %s has no check (see MANIFEST not_applicable)\n", prop)
		return 2
	}
	c, _ := runProperty(def, tier, repo, "", nil)
	extra := map[string]interface{}{}
	if tier == "thorough" {
		// (a) the same rules on the 32-bit build configuration
		c386, _ := runProperty(def, tier, repo, "386", nil)
		n := 0
		for _, o := range c386.Obs {
			if o.st != Discharged {
				o.Construct = o.Construct + " [GOARCH=386]"
				c.Obs = append(c.Obs, o)
			}
			n++
		}
		extra["goarch_386_obligations"] = n
		// (b) mutation witnesses: every breaking variant must be reported,
		// every benign variant must stay silent
		runWitnesses(c, def, repo, extra)
	} else {
		runSentinels(c, def, repo, extra)
	}
	dumpObs(c)
	cmd := fmt.Sprintf("geoverif check %s --tier %s (repo=%s)", prop, tier, repo)
	return c.Finalize(Finish{
		Explanation: def.Explanation, Rule: def.RuleText, TrustedBase: def.Trusted,
		CheckerCmd: cmd, Seed: seed(), Start: start, Extra: extra,
	})
}

func cmdExplain(args []string) int {
	if len(args) < 1 {
		usage()
	}
	b, err := os.ReadFile(args[0])
	if err != nil {
		fmt.Println(err)
		return 2
	}
	var rec struct {
		Property, Rule, Construct, Tier string
	}
	if err := json.Unmarshal(b, &rec); err != nil {
		fmt.Println(err)
		return 2
	}
	repo := repoDir("")
	for i, a := range args {
		if a == "--repo" && i+1 < len(args) {
			repo = args[i+1]
		}
	}
	def := properties[rec.Property]
	if def == nil {
		fmt.Println("unknown property", rec.Property)
		return 2
	}
	c, _ := runProperty(def, "quick", repo, "", nil)
	construct := strings.TrimSuffix(rec.Construct, " [GOARCH=386]")
	found := false
	exit := 0
	for _, o := range c.Obs {
		if o.Rule == rec.Rule && o.Construct == construct {
			found = true
			fmt.Printf("%s %s :: %s\n  at %s\n  %s\n", strings.ToUpper(o.Status), o.Rule, o.Construct, o.Pos, o.Detail)
			if o.Expected != "" {
				fmt.Printf("  expected: %s\n  observed: %s\n", o.Expected, o.Observed)
			}
			for _, s := range o.Path {
				fmt.Printf("    via %s\n", s)
			}
			if o.st != Discharged {
				exit = 1
				fmt.Printf("VIOLATION property=%s replay=%s\n", rec.Property, args[0])
			}
		}
	}
	if !found {
		fmt.Printf("obligation %s :: %s no longer exists on the current tree (construct renamed or removed)\n", rec.Rule, rec.Construct)
	}
	return exit
}
