package main

import (
	"fmt"
	"go/token"
	"go/types"
	"os"
	"sort"
	"strings"

	"golang.org/x/tools/go/callgraph"
	"golang.org/x/tools/go/ssa"
)

// E3 — effect / ownership analysis.  A flow-insensitive (with local
// store-to-load forwarding), field-sensitive, access-path-limited points-to
// analysis per function, with interprocedural summaries computed to a fixed
// point.  Question decided: can a function reachable from the exported API
// write memory that was not allocated inside the same top-level call, start
// a goroutine, or consult a nondeterminism source?

type okind int

const (
	oFresh okind = iota // allocated by this function (or by a callee, per call site)
	oParam              // what parameter i (receivers and free variables included) points to at entry
	oChild              // what was stored at entry under (parent, key)
	oGlobal
	oHeap
)

type aobj struct {
	kind   okind
	idx    int    // param index
	parent *aobj  // oChild
	key    string // oChild
	depth  int
	site   string // description for fresh objects
	cls    string // fresh objects: the allocated type
	id     int
}

func (o *aobj) root() *aobj {
	for o.kind == oChild {
		o = o.parent
	}
	return o
}

func (o *aobj) String() string {
	switch o.kind {
	case oFresh:
		return "fresh(" + o.site + ")"
	case oParam:
		return fmt.Sprintf("param%d", o.idx)
	case oChild:
		return o.parent.String() + "→" + o.key
	case oGlobal:
		return "global"
	}
	return "heap"
}

type loc struct {
	o *aobj
	k string
}

type locset map[loc]struct{}

func (s locset) add(l loc) bool {
	if _, ok := s[l]; ok {
		return false
	}
	s[l] = struct{}{}
	return true
}
func (s locset) addAll(t locset) bool {
	ch := false
	for l := range t {
		if s.add(l) {
			ch = true
		}
	}
	return ch
}

// path names a parameter-rooted object in a summary: param index + keys.
type ppath struct {
	param int
	keys  string // "\x00"-joined
}

type srcKind int

const (
	sPath srcKind = iota
	sFresh
	sGlobal
	sHeap
)

type src struct {
	kind srcKind
	path ppath
	k    string // interior key of the location
	cls  string // fresh: class (allocated type) of the callee-fresh object
}

type fkey2 struct {
	cls string
	k   string
}

type rsrc struct {
	ri int // result index
	s  src
}

type witness struct {
	pos    token.Pos
	what   string
	via    *ssa.Function // callee that carries the effect (nil: local instruction)
	viaEff string        // key of the callee's effect
}

type summary struct {
	writes     map[ppath]*witness  // writes to parameter-rooted objects
	flags      map[string]*witness // writes-global, writes-heap, spawns, nondet:*, chan, sync, unknown-call:*
	ret        map[rsrc]struct{}
	contentAdd map[ppath]map[string]map[src]struct{} // path -> key -> sources stored there
	freshHolds map[fkey2]map[src]struct{}            // what callee-fresh objects (by class, key) may contain
	reads      map[string]bool
}

func newSummary() *summary {
	return &summary{writes: map[ppath]*witness{}, flags: map[string]*witness{}, ret: map[rsrc]struct{}{},
		contentAdd: map[ppath]map[string]map[src]struct{}{}, freshHolds: map[fkey2]map[src]struct{}{}}
}

func (s *summary) size() int {
	n := len(s.writes) + len(s.flags) + len(s.ret)
	for _, m := range s.freshHolds {
		n += len(m)
	}
	for _, m := range s.contentAdd {
		for _, x := range m {
			n += len(x)
		}
	}
	return n
}

type effAnalysis struct {
	p             *Program
	cg            *callgraph.Graph
	sums          map[*ssa.Function]*summary
	external      func(fn *ssa.Function) *extSpec
	deep          bool // analyse dependency bodies instead of trusting the table
	unknown       map[string]token.Pos
	funcs         []*ssa.Function
	trustedUnsafe map[string]bool
	keep          *ssa.Function
	kept          *fstate
}

const maxDepth = 3

// per-function state
type fstate struct {
	ea       *effAnalysis
	fn       *ssa.Function
	params   []*aobj
	pts      map[ssa.Value]locset
	tup      map[ssa.Value]map[int]locset
	content  map[loc]locset
	children map[loc]*aobj
	fresh    map[ssa.Instruction]*aobj
	named    map[string]*aobj
	global   *aobj
	heap     *aobj
	nobj     int
	sum      *summary
	changed  bool
}

func (st *fstate) newObj(k okind) *aobj {
	st.nobj++
	return &aobj{kind: k, id: st.nobj}
}

func (st *fstate) freshAt(in ssa.Instruction, what string) *aobj {
	if o, ok := st.fresh[in]; ok {
		return o
	}
	o := st.newObj(oFresh)
	if v, ok := in.(ssa.Value); ok {
		t := v.Type()
		if a, ok := in.(*ssa.Alloc); ok {
			t = a.Type().Underlying().(*types.Pointer).Elem()
		}
		o.cls = typeStr(t)
	}
	o.site = what + "@" + st.ea.p.Pos(in.Pos())
	st.fresh[in] = o
	return o
}

func pointerLike(t types.Type) bool {
	switch u := t.Underlying().(type) {
	case *types.Pointer, *types.Slice, *types.Map, *types.Chan, *types.Signature, *types.Interface:
		return true
	case *types.Basic:
		return u.Kind() == types.UnsafePointer
	case *types.Struct:
		for i := 0; i < u.NumFields(); i++ {
			if pointerLike(u.Field(i).Type()) {
				return true
			}
		}
	case *types.Array:
		return pointerLike(u.Elem())
	case *types.Tuple:
		for i := 0; i < u.Len(); i++ {
			if pointerLike(u.At(i).Type()) {
				return true
			}
		}
	}
	return false
}

func (st *fstate) get(v ssa.Value) locset {
	if s, ok := st.pts[v]; ok {
		return s
	}
	s := locset{}
	switch x := v.(type) {
	case *ssa.Global:
		s.add(loc{st.global, ""})
	case *ssa.Const, *ssa.Function, *ssa.Builtin:
	case *ssa.Parameter, *ssa.FreeVar:
		_ = x
	}
	st.pts[v] = s
	return s
}

func (st *fstate) addPts(v ssa.Value, s locset) {
	if len(s) == 0 {
		return
	}
	if st.get(v).addAll(s) {
		st.changed = true
	}
}

// child returns the symbolic object that was stored under (o,k) at entry.
func (st *fstate) child(l loc) *aobj {
	switch l.o.kind {
	case oGlobal, oHeap:
		return l.o
	case oFresh:
		return nil
	}
	if l.o.depth >= maxDepth {
		return l.o
	}
	if c, ok := st.children[l]; ok {
		return c
	}
	c := st.newObj(oChild)
	c.parent, c.key, c.depth = l.o, l.k, l.o.depth+1
	st.children[l] = c
	return c
}

func keyPrefix(a, b string) bool { // a is a prefix path of b (or equal)
	return a == b || strings.HasPrefix(b, a+".") || a == ""
}

// load returns what may be stored at the locations in s.
func (st *fstate) load(s locset) locset {
	out := locset{}
	for l := range s {
		for l2, c := range st.content {
			if l2.o == l.o && (keyPrefix(l2.k, l.k) || keyPrefix(l.k, l2.k)) {
				out.addAll(c)
			}
		}
		if c := st.child(l); c != nil {
			out.add(loc{c, ""})
		}
	}
	return out
}

func (st *fstate) store(dst locset, v locset) {
	for l := range dst {
		c, ok := st.content[l]
		if !ok {
			c = locset{}
			st.content[l] = c
		}
		if c.addAll(v) {
			st.changed = true
		}
	}
}

func (st *fstate) pathOf(o *aobj) (ppath, bool) {
	var keys []string
	for o.kind == oChild {
		keys = append([]string{o.key}, keys...)
		o = o.parent
	}
	if o.kind != oParam {
		return ppath{}, false
	}
	enc := ""
	for _, k := range keys {
		enc += "\x00" + k
	}
	return ppath{param: o.idx, keys: enc}, true
}

func (st *fstate) flag(name string, pos token.Pos, what string, via *ssa.Function, viaEff string) {
	if _, ok := st.sum.flags[name]; !ok {
		st.sum.flags[name] = &witness{pos: pos, what: what, via: via, viaEff: viaEff}
		st.changed = true
	}
}

// recordWrite notes that memory of the given locations is written.
func (st *fstate) recordWrite(dst locset, pos token.Pos, what string, via *ssa.Function, viaEff string) {
	for l := range dst {
		switch l.o.root().kind {
		case oFresh:
		case oGlobal:
			st.flag("writes-global", pos, what, via, viaEff)
		case oHeap:
			st.flag("writes-heap", pos, what, via, viaEff)
		case oParam:
			if pp, ok := st.pathOf(l.o); ok {
				if _, ok := st.sum.writes[pp]; !ok {
					st.sum.writes[pp] = &witness{pos: pos, what: what, via: via, viaEff: viaEff}
					st.changed = true
				}
			}
		}
	}
}

func (st *fstate) srcOf(l loc) (src, bool) {
	switch l.o.root().kind {
	case oFresh:
		return src{kind: sFresh, cls: l.o.cls, k: l.k}, true
	case oGlobal:
		return src{kind: sGlobal}, true
	case oHeap:
		return src{kind: sHeap}, true
	}
	pp, ok := st.pathOf(l.o)
	if !ok {
		return src{}, false
	}
	return src{kind: sPath, path: pp, k: l.k}, true
}

func withKey(s locset, k string) locset {
	out := locset{}
	for l := range s {
		nk := k
		if l.k != "" {
			nk = l.k + "." + k
		}
		out.add(loc{l.o, nk})
	}
	return out
}

// resolve maps a callee path to caller locations, starting from the actual argument.
func (st *fstate) resolve(arg locset, keys string) locset {
	cur := arg
	if keys == "" {
		return cur
	}
	for _, k := range strings.Split(keys, "\x00")[1:] {
		cur = st.load(withKeyRaw(cur, k))
	}
	return cur
}

// withKeyRaw re-bases on an already complete key (callee keys are complete interior keys).
func withKeyRaw(s locset, k string) locset {
	out := locset{}
	for l := range s {
		nk := k
		if l.k != "" && k != "" {
			nk = l.k + "." + k
		} else if k == "" {
			nk = l.k
		}
		out.add(loc{l.o, nk})
	}
	return out
}

func (ea *effAnalysis) analyse(fn *ssa.Function) bool {
	old := ea.sums[fn]
	st := &fstate{ea: ea, fn: fn, pts: map[ssa.Value]locset{}, tup: map[ssa.Value]map[int]locset{}, content: map[loc]locset{}, children: map[loc]*aobj{},
		fresh: map[ssa.Instruction]*aobj{}, named: map[string]*aobj{}, sum: newSummary()}
	st.global = st.newObj(oGlobal)
	st.heap = st.newObj(oHeap)
	i := 0
	for _, p := range fn.Params {
		o := st.newObj(oParam)
		o.idx = i
		st.params = append(st.params, o)
		if pointerLike(p.Type()) {
			st.pts[p] = locset{loc{o, ""}: {}}
		}
		i++
	}
	for _, fv := range fn.FreeVars {
		o := st.newObj(oParam)
		o.idx = i
		st.params = append(st.params, o)
		st.pts[fv] = locset{loc{o, ""}: {}}
		i++
	}
	for iter := 0; iter < 50; iter++ {
		st.changed = false
		for _, b := range fn.Blocks {
			st.block(b)
		}
		if !st.changed {
			break
		}
	}
	// content added to parameter-rooted memory, and what fresh objects hold
	for l, c := range st.content {
		switch l.o.root().kind {
		case oParam:
			pp, ok := st.pathOf(l.o)
			if !ok {
				continue
			}
			for v := range c {
				if s, ok := st.srcOf(v); ok {
					m := st.sum.contentAdd[pp]
					if m == nil {
						m = map[string]map[src]struct{}{}
						st.sum.contentAdd[pp] = m
					}
					if m[l.k] == nil {
						m[l.k] = map[src]struct{}{}
					}
					m[l.k][s] = struct{}{}
				}
			}
		case oFresh:
			for v := range c {
				if s, ok := st.srcOf(v); ok {
					fk := fkey2{l.o.cls, l.k}
					if st.sum.freshHolds[fk] == nil {
						st.sum.freshHolds[fk] = map[src]struct{}{}
					}
					st.sum.freshHolds[fk][s] = struct{}{}
				}
			}
		}
	}
	ea.sums[fn] = st.sum
	if ea.keep == fn {
		ea.kept = st
	}
	if d := os.Getenv("GEOVERIF_E3_STATE"); d != "" && d == SSAName(fn) {
		fmt.Println("== state of", d)
		for l, c := range st.content {
			var parts []string
			for v := range c {
				parts = append(parts, v.o.String()+"/"+v.k)
			}
			sort.Strings(parts)
			fmt.Printf("  content[%s / %q] = %v\n", l.o, l.k, parts)
		}
	}
	return old == nil || old.size() != st.sum.size()
}

func (st *fstate) block(b *ssa.BasicBlock) {
	// store-to-load forwarding for fields of local allocations within the block
	type fkey struct {
		base ssa.Value
		path string
	}
	fwd := map[fkey]ssa.Value{}
	addrKey := func(a ssa.Value) (fkey, bool) {
		path := ""
		for {
			switch x := a.(type) {
			case *ssa.FieldAddr:
				path = fmt.Sprint(x.Field) + "." + path
				a = x.X
				continue
			case *ssa.Alloc:
				return fkey{x, path}, true
			}
			return fkey{}, false
		}
	}
	for _, in := range b.Instrs {
		switch x := in.(type) {
		case *ssa.Store:
			dst := st.get(x.Addr)
			st.store(dst, st.get(x.Val))
			st.recordWrite(dst, x.Pos(), "store", nil, "")
			if k, ok := addrKey(x.Addr); ok {
				// a store to one field kills forwarded values of overlapping paths only
				for k2 := range fwd {
					if k2.base == k.base && (strings.HasPrefix(k2.path, k.path) || strings.HasPrefix(k.path, k2.path)) {
						delete(fwd, k2)
					}
				}
				fwd[k] = x.Val
			} else {
				fwd = map[fkey]ssa.Value{}
			}
		case *ssa.UnOp:
			switch x.Op {
			case token.MUL:
				if k, ok := addrKey(x.X); ok {
					if v, ok := fwd[k]; ok {
						st.addPts(x, st.get(v))
						continue
					}
				}
				if pointerLike(x.Type()) {
					st.addPts(x, st.load(st.get(x.X)))
				}
			case token.ARROW:
				st.flag("chan", x.Pos(), "channel receive", nil, "")
			default:
				st.addPts(x, st.get(x.X))
			}
		case *ssa.Alloc:
			st.addPts(x, locset{loc{st.freshAt(x, "alloc"), ""}: {}})
		case *ssa.MakeSlice:
			st.addPts(x, locset{loc{st.freshAt(x, "make"), ""}: {}})
		case *ssa.MakeMap:
			st.addPts(x, locset{loc{st.freshAt(x, "make"), ""}: {}})
		case *ssa.MakeChan:
			st.flag("chan", x.Pos(), "make(chan)", nil, "")
		case *ssa.MakeInterface:
			st.addPts(x, st.get(x.X))
		case *ssa.MakeClosure:
			o := st.freshAt(x, "closure")
			st.addPts(x, locset{loc{o, ""}: {}})
			cfn := x.Fn.(*ssa.Function)
			// the closure's effects are charged where it is created: its
			// free variables are the bindings, its parameters are unknown
			// values supplied by whoever calls it
			var args []locset
			for range cfn.Params {
				args = append(args, locset{loc{st.heap, ""}: {}})
			}
			for _, bnd := range x.Bindings {
				args = append(args, st.get(bnd))
			}
			st.applySummary(cfn, args, nil, x.Pos(), "closure "+SSAName(cfn), true)
			fwd = map[fkey]ssa.Value{}
		case *ssa.Phi:
			for _, e := range x.Edges {
				st.addPts(x, st.get(e))
			}
		case *ssa.ChangeType:
			st.addPts(x, st.get(x.X))
		case *ssa.ChangeInterface:
			st.addPts(x, st.get(x.X))
		case *ssa.SliceToArrayPointer:
			st.addPts(x, st.get(x.X))
		case *ssa.Convert:
			ft, tt := x.X.Type().Underlying(), x.Type().Underlying()
			_, toSlice := tt.(*types.Slice)
			fb, fromBasic := ft.(*types.Basic)
			if toSlice && fromBasic && fb.Info()&types.IsString != 0 {
				st.addPts(x, locset{loc{st.freshAt(x, "[]byte(string)"), ""}: {}})
			} else if tb, ok := tt.(*types.Basic); ok && tb.Info()&types.IsString != 0 {
				// []byte -> string copies; strings are immutable
			} else {
				if tb, ok := tt.(*types.Basic); ok && tb.Kind() == types.UnsafePointer {
					st.flag("unsafe", x.Pos(), "conversion to unsafe.Pointer", nil, "")
				}
				st.addPts(x, st.get(x.X))
			}
		case *ssa.FieldAddr:
			st.addPts(x, withKey(st.get(x.X), fmt.Sprint(x.Field)))
		case *ssa.Field:
			st.addPts(x, st.get(x.X))
		case *ssa.IndexAddr:
			base := st.get(x.X)
			if _, isSlice := x.X.Type().Underlying().(*types.Slice); isSlice {
				st.addPts(x, withKey(base, "[]"))
			} else {
				st.addPts(x, withKey(base, "[]"))
			}
		case *ssa.Index:
			st.addPts(x, st.get(x.X))
		case *ssa.Slice:
			st.addPts(x, st.get(x.X))
		case *ssa.Lookup:
			if pointerLike(x.Type()) {
				st.addPts(x, st.load(withKey(st.get(x.X), "[]")))
			}
		case *ssa.Extract:
			if t, ok := st.tup[x.Tuple]; ok {
				st.addPts(x, t[x.Index])
			}
			st.addPts(x, st.get(x.Tuple))
		case *ssa.TypeAssert:
			st.addPts(x, st.get(x.X))
		case *ssa.Range:
			if _, ok := x.X.Type().Underlying().(*types.Map); ok {
				st.flag("nondet:map-iteration", x.Pos(), "range over a map", nil, "")
			}
			st.addPts(x, st.get(x.X))
		case *ssa.Next:
			st.addPts(x, st.load(withKey(st.get(x.Iter), "[]")))
		case *ssa.Select:
			st.flag("chan", x.Pos(), "select", nil, "")
		case *ssa.Send:
			st.flag("chan", x.Pos(), "channel send", nil, "")
		case *ssa.Go:
			st.flag("spawns", x.Pos(), "go statement", nil, "")
			st.call(nil, &x.Call, x.Pos())
		case *ssa.Defer:
			st.call(nil, &x.Call, x.Pos())
			fwd = map[fkey]ssa.Value{}
		case *ssa.Call:
			st.call(x, &x.Call, x.Pos())
			fwd = map[fkey]ssa.Value{}
		case *ssa.MapUpdate:
			dst := withKey(st.get(x.Map), "[]")
			st.store(dst, st.get(x.Value))
			st.store(dst, st.get(x.Key))
			st.recordWrite(dst, x.Pos(), "map update", nil, "")
		case *ssa.Return:
			for ri, r := range x.Results {
				for l := range st.get(r) {
					if s, ok := st.srcOf(l); ok {
						if _, ok := st.sum.ret[rsrc{ri, s}]; !ok {
							st.sum.ret[rsrc{ri, s}] = struct{}{}
							st.changed = true
						}
					}
				}
			}
		case *ssa.BinOp:
			// strings are immutable and numbers carry no pointers
		}
	}
}

// applySummary instantiates a callee summary at a call site.
func (st *fstate) applySummary(callee *ssa.Function, args []locset, result ssa.Value, pos token.Pos, what string, isClosureCreation bool) {
	sum := st.ea.sums[callee]
	if sum == nil {
		return
	}
	argOf := func(pp ppath) locset {
		if pp.param >= len(args) {
			return locset{}
		}
		return st.resolve(args[pp.param], pp.keys)
	}
	fresh := func(cls string) *aobj {
		o := st.namedFresh(fmt.Sprintf("call %s@%s<%s>", SSAName(callee), st.ea.p.Pos(pos), cls))
		o.cls = cls
		return o
	}
	mapSrc := func(s src) locset {
		switch s.kind {
		case sFresh:
			return locset{loc{fresh(s.cls), s.k}: {}}
		case sGlobal:
			return locset{loc{st.global, ""}: {}}
		case sHeap:
			return locset{loc{st.heap, ""}: {}}
		}
		return withKeyRaw(argOf(s.path), s.k)
	}
	for pp, w := range sum.writes {
		_ = w
		st.recordWrite(argOf(pp), pos, what, callee, fmt.Sprintf("w:%d:%s", pp.param, pp.keys))
	}
	for name := range sum.flags {
		st.flag(name, pos, what, callee, name)
	}
	for pp, m := range sum.contentAdd {
		base := argOf(pp)
		for k, srcs := range m {
			dst := withKeyRaw(base, k)
			for s := range srcs {
				st.store(dst, mapSrc(s))
			}
		}
	}
	for fk, srcs := range sum.freshHolds {
		fo := locset{loc{fresh(fk.cls), fk.k}: {}}
		for s := range srcs {
			st.store(fo, mapSrc(s))
		}
	}
	if result != nil && pointerLike(result.Type()) {
		_, isTuple := result.Type().(*types.Tuple)
		for rs := range sum.ret {
			m := mapSrc(rs.s)
			if isTuple {
				t := st.tup[result]
				if t == nil {
					t = map[int]locset{}
					st.tup[result] = t
				}
				if t[rs.ri] == nil {
					t[rs.ri] = locset{}
				}
				if t[rs.ri].addAll(m) {
					st.changed = true
				}
			} else {
				st.addPts(result, m)
			}
		}
	}
}

func (st *fstate) namedFresh(key string) *aobj {
	if o, ok := st.named[key]; ok {
		return o
	}
	o := st.newObj(oFresh)
	o.site = key
	st.named[key] = o
	return o
}

func (st *fstate) newObjAtCall(pos token.Pos, callee *ssa.Function) *aobj {
	return st.namedFresh(fmt.Sprintf("call %s@%s", SSAName(callee), st.ea.p.Pos(pos)))
}

func (st *fstate) call(res *ssa.Call, cc *ssa.CallCommon, pos token.Pos) {
	var result ssa.Value
	if res != nil {
		result = res
	}
	var args []locset
	if cc.IsInvoke() {
		args = append(args, st.get(cc.Value))
	}
	for _, a := range cc.Args {
		args = append(args, st.get(a))
	}
	if b, ok := cc.Value.(*ssa.Builtin); ok {
		st.builtin(b, cc, result, args, pos)
		return
	}
	var targets []*ssa.Function
	if f := cc.StaticCallee(); f != nil {
		targets = []*ssa.Function{f}
		if _, isClosure := cc.Value.(*ssa.MakeClosure); isClosure {
			// free variables follow the parameters
			mc := cc.Value.(*ssa.MakeClosure)
			for _, b := range mc.Bindings {
				args = append(args, st.get(b))
			}
		}
	} else if cc.IsInvoke() {
		targets = st.ea.invokeTargets(st.fn, cc)
		if len(targets) == 0 {
			// no implementation in the analysed program (e.g. user types): nothing to charge
		}
	} else {
		// call of a function value: closures and function constants are
		// charged where they are created, the call itself adds nothing; the
		// result is unknown
		if result != nil && pointerLike(result.Type()) {
			st.addPts(result, locset{loc{st.heap, ""}: {}})
		}
		// function constants passed around without MakeClosure: charge known targets
		for _, t := range st.ea.dynTargets(st.fn, cc) {
			if t.Parent() == nil && len(t.FreeVars) == 0 {
				targets = append(targets, t)
			}
		}
	}
	for _, t := range targets {
		if t.Blocks != nil && (st.ea.p.IsRepoFn(t) || (st.ea.deep && st.ea.isDep(t))) {
			st.applySummary(t, args, result, pos, "call "+SSAName(t), false)
		} else {
			st.externalCall(t, cc, result, args, pos)
		}
	}
}

func (st *fstate) builtin(b *ssa.Builtin, cc *ssa.CallCommon, result ssa.Value, args []locset, pos token.Pos) {
	switch b.Name() {
	case "append":
		// writes into the spare capacity of its first argument and may return it
		dst := withKey(args[0], "[]")
		st.recordWrite(dst, pos, "append (writes the backing array of its first argument)", nil, "")
		fo := locset{loc{st.freshAtCall(cc, pos, "append"), ""}: {}}
		if result != nil {
			st.addPts(result, args[0])
			st.addPts(result, fo)
		}
		if len(args) > 1 {
			el := args[1]
			// appended slice: its elements are copied
			el2 := st.load(withKey(el, "[]"))
			st.store(withKey(args[0], "[]"), el2)
			st.store(withKey(fo, "[]"), el2)
			st.store(withKey(fo, "[]"), st.load(withKey(args[0], "[]")))
		}
	case "copy":
		dst := withKey(args[0], "[]")
		st.recordWrite(dst, pos, "copy (writes its first argument)", nil, "")
		st.store(dst, st.load(withKey(args[1], "[]")))
	case "delete":
		st.recordWrite(withKey(args[0], "[]"), pos, "delete", nil, "")
	case "recover":
		if result != nil {
			st.addPts(result, locset{loc{st.heap, ""}: {}})
		}
	}
}

func (st *fstate) freshAtCall(cc *ssa.CallCommon, pos token.Pos, what string) *aobj {
	o := st.namedFresh(what + "@" + st.ea.p.Pos(pos))
	if o.cls == "" && cc != nil {
		if res := cc.Signature().Results(); res != nil && res.Len() > 0 {
			o.cls = typeStr(res.At(0).Type())
		} else if len(cc.Args) > 0 {
			o.cls = typeStr(cc.Args[0].Type())
		}
	}
	return o
}

func (ea *effAnalysis) invokeTargets(caller *ssa.Function, cc *ssa.CallCommon) []*ssa.Function {
	return ea.edgeTargets(caller, cc)
}

func (ea *effAnalysis) dynTargets(caller *ssa.Function, cc *ssa.CallCommon) []*ssa.Function {
	return ea.edgeTargets(caller, cc)
}

func (ea *effAnalysis) edgeTargets(caller *ssa.Function, cc *ssa.CallCommon) []*ssa.Function {
	n := ea.cg.Nodes[caller]
	if n == nil {
		return nil
	}
	var out []*ssa.Function
	seen := map[*ssa.Function]bool{}
	for _, e := range n.Out {
		if e.Site != nil && e.Site.Common() == cc && !seen[e.Callee.Func] {
			seen[e.Callee.Func] = true
			out = append(out, e.Callee.Func)
		}
	}
	sort.Slice(out, func(i, j int) bool { return out[i].String() < out[j].String() })
	return out
}

// ---- external functions ----

type extSpec struct {
	writes  []int    // argument indices (receiver first) whose pointee is written
	ret     string   // "fresh" | "arg:N" | "none" | "heap"
	stores  [][2]int // [dst arg, src arg]: src is stored into dst's memory
	callsFn []int    // function-typed arguments that are invoked (already charged at creation)
	flag    string
	pure    bool
}

func (st *fstate) externalCall(t *ssa.Function, cc *ssa.CallCommon, result ssa.Value, args []locset, pos token.Pos) {
	name := t.String()
	if t.Object() != nil {
		if f, ok := t.Object().(*types.Func); ok {
			name = f.FullName()
		}
	}
	spec := externalTable(name)
	if spec == nil {
		// an unknown external callee is harmless when no pointer-like
		// argument is passed and nothing pointer-like is returned
		anyPtr := false
		for _, a := range args {
			if len(a) > 0 {
				anyPtr = true
			}
		}
		if !anyPtr && (result == nil || !pointerLike(result.Type())) && !strings.HasPrefix(name, "os.") && !strings.HasPrefix(name, "time.") && !strings.Contains(name, "math/rand") {
			return
		}
		st.flag("unknown-call:"+name, pos, "call of "+name+", which has no entry in the effect table", nil, "")
		if st.ea.unknown != nil {
			st.ea.unknown[name] = pos
		}
		if result != nil && pointerLike(result.Type()) {
			st.addPts(result, locset{loc{st.heap, ""}: {}})
		}
		return
	}
	if spec.flag != "" {
		st.flag(spec.flag, pos, "call of "+name, nil, "")
	}
	for _, i := range spec.writes {
		if i < len(args) {
			w := locset{}
			w.addAll(args[i])
			w.addAll(withKey(args[i], "[]"))
			st.recordWrite(w, pos, "call of "+name+" (writes its argument "+fmt.Sprint(i)+")", nil, "")
		}
	}
	for _, pr := range spec.stores {
		if pr[0] < len(args) && pr[1] < len(args) {
			st.store(withKey(args[pr[0]], "[]"), args[pr[1]])
		}
	}
	if result != nil && pointerLike(result.Type()) {
		switch {
		case spec.ret == "fresh":
			st.addPts(result, locset{loc{st.freshAtCall(cc, pos, "call "+name), ""}: {}})
		case strings.HasPrefix(spec.ret, "arg:"):
			var i int
			fmt.Sscanf(spec.ret, "arg:%d", &i)
			if i < len(args) {
				st.addPts(result, args[i])
			}
		case spec.ret == "args":
			for _, a := range args {
				st.addPts(result, a)
			}
		case spec.ret == "stored":
			// values previously stored into the receiver
			if len(args) > 0 {
				st.addPts(result, st.load(withKey(args[0], "[]")))
			}
		case spec.ret == "heap":
			st.addPts(result, locset{loc{st.heap, ""}: {}})
		}
	}
}

// externalTable: effects of callees outside the repository (stdlib and the
// tidwall dependencies), keyed by types.Func.FullName.  One line of reason each.
func externalTable(name string) *extSpec {
	pure := &extSpec{pure: true, ret: "none"}
	switch {
	case strings.HasPrefix(name, "math."):
		return pure // numeric functions
	case strings.HasPrefix(name, "strings."):
		return &extSpec{ret: "fresh"} // strings are immutable; results are strings
	case name == "errors.New", name == "fmt.Errorf":
		return &extSpec{ret: "fresh"} // a new error value
	case name == "fmt.Sprintf", name == "fmt.Sprint":
		return &extSpec{ret: "fresh"}
	case name == "strconv.AppendFloat", name == "strconv.AppendInt", name == "strconv.AppendQuote":
		return &extSpec{writes: []int{0}, ret: "arg:0"} // appends to its first argument
	case strings.HasPrefix(name, "strconv."):
		return &extSpec{ret: "fresh"}
	case strings.HasPrefix(name, "(encoding/binary.littleEndian).Put"), strings.HasPrefix(name, "(encoding/binary.bigEndian).Put"):
		return &extSpec{writes: []int{1}, ret: "none"} // PutUintN(b, v) writes b (argument 1 after the receiver)
	case strings.HasPrefix(name, "(encoding/binary.littleEndian).Uint"), strings.HasPrefix(name, "(encoding/binary.bigEndian).Uint"):
		return pure
	case name == "sort.Slice", name == "sort.SliceStable":
		return &extSpec{writes: []int{0}, ret: "none", callsFn: []int{1}} // permutes the slice in place
	case name == "sort.Ints", name == "sort.Float64s", name == "sort.Strings":
		return &extSpec{writes: []int{0}, ret: "none"}
	// github.com/tidwall/gjson: parsers over immutable strings; results are values holding substrings
	case strings.HasPrefix(name, "github.com/tidwall/gjson.") || strings.HasPrefix(name, "(github.com/tidwall/gjson.Result)."):
		if strings.HasSuffix(name, ".ForEach") {
			return &extSpec{ret: "none", callsFn: []int{1}}
		}
		return &extSpec{ret: "fresh"}
	case name == "github.com/tidwall/pretty.UglyInPlace", name == "github.com/tidwall/pretty.Ugly":
		return &extSpec{writes: []int{0}, ret: "arg:0"} // rewrites its argument in place and returns it
	case strings.HasPrefix(name, "github.com/tidwall/sjson."):
		return &extSpec{ret: "fresh"} // string in, new string out
	case name == "(*github.com/tidwall/rtree.RTree).Insert", name == "(*github.com/tidwall/rtree.RTreeG[T]).Insert", strings.Contains(name, "rtree.") && strings.HasSuffix(name, ".Insert"):
		return &extSpec{writes: []int{0}, ret: "none", stores: [][2]int{{0, 3}}} // mutates the tree, keeps the value
	case strings.Contains(name, "rtree.") && (strings.HasSuffix(name, ".Search") || strings.HasSuffix(name, ".Scan")):
		return &extSpec{ret: "none", callsFn: []int{3}} // read-only traversal calling the iterator
	case strings.Contains(name, "rtree.") && (strings.HasSuffix(name, ".Len") || strings.HasSuffix(name, ".Bounds")):
		return pure
	}
	return nil
}

// ---- driver ----

func (p *Program) newEffAnalysis(cg *callgraph.Graph, deep bool) *effAnalysis {
	ea := &effAnalysis{p: p, cg: cg, sums: map[*ssa.Function]*summary{}, deep: deep, unknown: map[string]token.Pos{}}
	for fn := range p.AllFunctions() {
		if fn.Blocks == nil {
			continue
		}
		if p.IsRepoFn(fn) || (deep && ea.isDep(fn)) {
			ea.funcs = append(ea.funcs, fn)
		}
	}
	sort.Slice(ea.funcs, func(i, j int) bool { return ea.funcs[i].String() < ea.funcs[j].String() })
	return ea
}

func (ea *effAnalysis) isDep(fn *ssa.Function) bool {
	for fn.Parent() != nil {
		fn = fn.Parent()
	}
	pk := ""
	if fn.Pkg != nil {
		pk = fn.Pkg.Pkg.Path()
	} else if fn.Object() != nil && fn.Object().Pkg() != nil {
		pk = fn.Object().Pkg().Path()
	}
	return strings.HasPrefix(pk, "github.com/tidwall/") && !strings.HasPrefix(pk, ea.p.ModPath)
}

func (ea *effAnalysis) run() int {
	rounds := 0
	for {
		rounds++
		changed := false
		for _, fn := range ea.funcs {
			if ea.analyse(fn) {
				changed = true
			}
		}
		if !changed || rounds > 40 {
			break
		}
	}
	return rounds
}

// explain renders the chain of call sites from fn down to the instruction
// that has the effect.
func (ea *effAnalysis) explain(fn *ssa.Function, w *witness, depth int) []string {
	if w == nil || depth > 12 {
		return nil
	}
	line := fmt.Sprintf("%s: %s at %s", SSAName(fn), w.what, ea.p.Pos(w.pos))
	if w.via == nil {
		return []string{line}
	}
	sum := ea.sums[w.via]
	var next *witness
	if sum != nil {
		if strings.HasPrefix(w.viaEff, "w:") {
			var pi int
			var keys string
			parts := strings.SplitN(w.viaEff, ":", 3)
			fmt.Sscan(parts[1], &pi)
			if len(parts) > 2 {
				keys = parts[2]
			}
			next = sum.writes[ppath{pi, keys}]
		} else {
			next = sum.flags[w.viaEff]
		}
	}
	return append([]string{line}, ea.explain(w.via, next, depth+1)...)
}
