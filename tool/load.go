package main

import (
	"fmt"
	"go/ast"
	"go/token"
	"go/types"
	"os"
	"path/filepath"
	"sort"
	"strings"

	"golang.org/x/tools/go/callgraph"
	"golang.org/x/tools/go/callgraph/cha"
	"golang.org/x/tools/go/callgraph/vta"
	"golang.org/x/tools/go/packages"
	"golang.org/x/tools/go/ssa"
	"golang.org/x/tools/go/ssa/ssautil"
)

// Program is the resolved program every engine works on: type-checked
// packages of the repository (and its dependencies), their syntax, the SSA
// form and, lazily, the call graph.
type Program struct {
	RepoDir string
	ModPath string
	GOARCH  string
	Fset    *token.FileSet
	All     []*packages.Package
	ByPath  map[string]*packages.Package
	Geojson *packages.Package
	Geom    *packages.Package
	Geo     *packages.Package
	Repo    []*packages.Package // the three repository packages

	SSA     *ssa.Program
	SSAPkg  map[*types.Package]*ssa.Package
	decls   map[*types.Func]*ast.FuncDecl
	declPkg map[*types.Func]*packages.Package
	vtaCG   *callgraph.Graph
	chaCG   *callgraph.Graph
	allFns  map[*ssa.Function]bool
}

type LoadConfig struct {
	RepoDir string
	GOARCH  string
	Overlay map[string][]byte
}

func readModPath(dir string) (string, error) {
	b, err := os.ReadFile(filepath.Join(dir, "go.mod"))
	if err != nil {
		return "", err
	}
	for _, l := range strings.Split(string(b), "\n") {
		l = strings.TrimSpace(l)
		if strings.HasPrefix(l, "module ") {
			return strings.TrimSpace(strings.TrimPrefix(l, "module ")), nil
		}
	}
	return "", fmt.Errorf("no module line in go.mod")
}

func Load(cfg LoadConfig) (*Program, error) {
	mod, err := readModPath(cfg.RepoDir)
	if err != nil {
		return nil, err
	}
	env := []string{}
	for _, e := range os.Environ() {
		if strings.HasPrefix(e, "GOWORK=") || strings.HasPrefix(e, "GOFLAGS=") ||
			strings.HasPrefix(e, "GOARCH=") || strings.HasPrefix(e, "GOPROXY=") ||
			strings.HasPrefix(e, "GOSUMDB=") || strings.HasPrefix(e, "GOTOOLCHAIN=") {
			continue
		}
		env = append(env, e)
	}
	env = append(env, "GOWORK=off", "GOFLAGS=-mod=mod", "GOPROXY=off", "GOSUMDB=off", "GOTOOLCHAIN=local")
	if cfg.GOARCH != "" {
		env = append(env, "GOARCH="+cfg.GOARCH)
	}
	fset := token.NewFileSet()
	pc := &packages.Config{
		Mode:    packages.LoadAllSyntax,
		Dir:     cfg.RepoDir,
		Env:     env,
		Fset:    fset,
		Tests:   false,
		Overlay: cfg.Overlay,
	}
	pkgs, err := packages.Load(pc, "./...")
	if err != nil {
		return nil, fmt.Errorf("packages.Load: %v", err)
	}
	if len(pkgs) == 0 {
		return nil, fmt.Errorf("no packages loaded from %s", cfg.RepoDir)
	}
	p := &Program{RepoDir: cfg.RepoDir, ModPath: mod, GOARCH: cfg.GOARCH, Fset: fset,
		ByPath: map[string]*packages.Package{}, SSAPkg: map[*types.Package]*ssa.Package{},
		decls: map[*types.Func]*ast.FuncDecl{}, declPkg: map[*types.Func]*packages.Package{}}
	var errs []string
	packages.Visit(pkgs, nil, func(pkg *packages.Package) {
		p.All = append(p.All, pkg)
		p.ByPath[pkg.PkgPath] = pkg
		if strings.HasPrefix(pkg.PkgPath, mod) {
			for _, e := range pkg.Errors {
				errs = append(errs, e.Error())
			}
		}
	})
	if len(errs) > 0 {
		sort.Strings(errs)
		return nil, fmt.Errorf("type-check errors in repository packages: %s", strings.Join(errs, "; "))
	}
	p.Geojson = p.ByPath[mod]
	p.Geom = p.ByPath[mod+"/geometry"]
	p.Geo = p.ByPath[mod+"/geo"]
	if p.Geojson == nil || p.Geom == nil || p.Geo == nil {
		return nil, fmt.Errorf("repository packages not found (module %s)", mod)
	}
	p.Repo = []*packages.Package{p.Geojson, p.Geom, p.Geo}
	for _, pkg := range p.Repo {
		if pkg.Types == nil || pkg.TypesInfo == nil || len(pkg.Syntax) == 0 {
			return nil, fmt.Errorf("package %s has no type information", pkg.PkgPath)
		}
	}
	for _, pkg := range p.All {
		if pkg.TypesInfo == nil {
			continue
		}
		for _, f := range pkg.Syntax {
			for _, d := range f.Decls {
				if fd, ok := d.(*ast.FuncDecl); ok {
					if fn, ok := pkg.TypesInfo.Defs[fd.Name].(*types.Func); ok {
						p.decls[fn] = fd
						p.declPkg[fn] = pkg
					}
				}
			}
		}
	}
	prog, ssapkgs := ssautil.AllPackages(pkgs, ssa.InstantiateGenerics)
	_ = ssapkgs
	prog.Build()
	p.SSA = prog
	for _, sp := range prog.AllPackages() {
		p.SSAPkg[sp.Pkg] = sp
	}
	return p, nil
}

func (p *Program) IsRepoPkg(pkg *types.Package) bool {
	if pkg == nil {
		return false
	}
	return pkg == p.Geojson.Types || pkg == p.Geom.Types || pkg == p.Geo.Types
}

func (p *Program) IsRepoFn(fn *ssa.Function) bool {
	if fn == nil {
		return false
	}
	for fn.Parent() != nil {
		fn = fn.Parent()
	}
	if fn.Pkg != nil {
		return p.IsRepoPkg(fn.Pkg.Pkg)
	}
	if o := fn.Object(); o != nil {
		return p.IsRepoPkg(o.Pkg())
	}
	// synthetic wrappers / bound methods: look at the origin
	if fn.Origin() != nil {
		return p.IsRepoFn(fn.Origin())
	}
	return false
}

func (p *Program) AllFunctions() map[*ssa.Function]bool {
	if p.allFns == nil {
		p.allFns = ssautil.AllFunctions(p.SSA)
	}
	return p.allFns
}

func (p *Program) VTA() *callgraph.Graph {
	if p.vtaCG == nil {
		p.vtaCG = vta.CallGraph(p.AllFunctions(), p.CHA())
	}
	return p.vtaCG
}

func (p *Program) CHA() *callgraph.Graph {
	if p.chaCG == nil {
		p.chaCG = cha.CallGraph(p.SSA)
	}
	return p.chaCG
}

// pkgByShort maps "geojson" / "geometry" / "geo" to the loaded package.
func (p *Program) pkgByShort(short string) *packages.Package {
	switch short {
	case "geojson":
		return p.Geojson
	case "geometry":
		return p.Geom
	case "geo":
		return p.Geo
	}
	for _, pkg := range p.All {
		if pkg.Name == short || pkg.PkgPath == short {
			return pkg
		}
	}
	return nil
}

// Named returns the named type pkg.name or nil.
func (p *Program) Named(short, name string) *types.Named {
	pkg := p.pkgByShort(short)
	if pkg == nil {
		return nil
	}
	o := pkg.Types.Scope().Lookup(name)
	if o == nil {
		return nil
	}
	tn, ok := o.(*types.TypeName)
	if !ok {
		return nil
	}
	n, _ := tn.Type().(*types.Named)
	if n == nil {
		// alias
		if a, ok := tn.Type().(*types.Alias); ok {
			n, _ = types.Unalias(a).(*types.Named)
		}
	}
	return n
}

// Func returns the package-level function pkg.name or nil.
func (p *Program) Func(short, name string) *types.Func {
	pkg := p.pkgByShort(short)
	if pkg == nil {
		return nil
	}
	f, _ := pkg.Types.Scope().Lookup(name).(*types.Func)
	return f
}

// Method returns the method (declared or promoted) named m in the method set
// of *T (so both value and pointer receivers are found).
func (p *Program) Method(short, typ, m string) *types.Func {
	n := p.Named(short, typ)
	if n == nil {
		return nil
	}
	pkg := p.pkgByShort(short)
	obj, _, _ := types.LookupFieldOrMethod(types.NewPointer(n), true, pkg.Types, m)
	f, _ := obj.(*types.Func)
	return f
}

// IfaceMethod returns the abstract method of an interface type.
func (p *Program) IfaceMethod(short, iface, m string) *types.Func {
	n := p.Named(short, iface)
	if n == nil {
		return nil
	}
	it, ok := n.Underlying().(*types.Interface)
	if !ok {
		return nil
	}
	for i := 0; i < it.NumMethods(); i++ {
		if it.Method(i).Name() == m {
			return it.Method(i)
		}
	}
	return nil
}

// Field returns the field variable of struct type pkg.typ (direct fields only).
func (p *Program) Field(short, typ, field string) *types.Var {
	n := p.Named(short, typ)
	if n == nil {
		return nil
	}
	st, ok := n.Underlying().(*types.Struct)
	if !ok {
		return nil
	}
	for i := 0; i < st.NumFields(); i++ {
		if st.Field(i).Name() == field {
			return st.Field(i)
		}
	}
	return nil
}

func (p *Program) Decl(fn *types.Func) *ast.FuncDecl { return p.decls[fn] }

func (p *Program) DeclPkg(fn *types.Func) *packages.Package { return p.declPkg[fn] }

func (p *Program) SSAFunc(fn *types.Func) *ssa.Function {
	if fn == nil {
		return nil
	}
	return p.SSA.FuncValue(fn)
}

// Pos renders a position relative to the repository root.
func (p *Program) Pos(pos token.Pos) string {
	if !pos.IsValid() {
		return ""
	}
	ps := p.Fset.Position(pos)
	rel, err := filepath.Rel(p.RepoDir, ps.Filename)
	if err != nil || strings.HasPrefix(rel, "..") {
		rel = ps.Filename
	}
	return fmt.Sprintf("%s:%d", rel, ps.Line)
}

func shortPkg(pkg *types.Package) string {
	if pkg == nil {
		return ""
	}
	return pkg.Name()
}

// FuncName is the canonical, position-free name used in obligation keys:
// (*geometry.Line).ContainsLine, geometry.ringContainsPoint, geojson.Parse.
func FuncName(fn *types.Func) string {
	if fn == nil {
		return "<nil>"
	}
	sig, _ := fn.Type().(*types.Signature)
	if sig != nil && sig.Recv() != nil {
		t := sig.Recv().Type()
		ptr := ""
		if pt, ok := t.(*types.Pointer); ok {
			t = pt.Elem()
			ptr = "*"
		}
		t = types.Unalias(t)
		name := t.String()
		if n, ok := t.(*types.Named); ok {
			name = shortPkg(n.Obj().Pkg()) + "." + n.Obj().Name()
		}
		if ptr != "" {
			return "(" + ptr + name + ")." + fn.Name()
		}
		return name + "." + fn.Name()
	}
	return shortPkg(fn.Pkg()) + "." + fn.Name()
}

// SSAName names an SSA function (closures: parent$N).
func SSAName(fn *ssa.Function) string {
	if fn == nil {
		return "<nil>"
	}
	if fn.Parent() != nil {
		return SSAName(fn.Parent()) + "$" + strings.TrimPrefix(fn.Name(), fn.Parent().Name()+"$")
	}
	if o, ok := fn.Object().(*types.Func); ok && o != nil {
		return FuncName(o)
	}
	return fn.String()
}

// RepoSourceFuncs lists every SSA function with a body that belongs to the
// three repository packages (methods, functions, closures, init), sorted.
func (p *Program) RepoSourceFuncs() []*ssa.Function {
	var out []*ssa.Function
	for fn := range p.AllFunctions() {
		if fn.Blocks == nil || fn.Synthetic != "" && fn.Name() != "init" {
			continue
		}
		if p.IsRepoFn(fn) {
			out = append(out, fn)
		}
	}
	sort.Slice(out, func(i, j int) bool { return SSAName(out[i]) < SSAName(out[j]) })
	return out
}

// RepoDecls lists all function declarations with bodies in the repository packages.
func (p *Program) RepoDecls() []*types.Func {
	var out []*types.Func
	for fn, d := range p.decls {
		if d.Body != nil && p.IsRepoPkg(fn.Pkg()) {
			out = append(out, fn)
		}
	}
	sort.Slice(out, func(i, j int) bool { return FuncName(out[i]) < FuncName(out[j]) })
	return out
}
