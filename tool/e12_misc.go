package main

import (
	"fmt"
	"go/token"
	"go/types"
	"strings"

	"golang.org/x/tools/go/ssa"
)

// Small structural rules shared by several properties.

// ruleSegmentForwarders (C19/C01): ContainsPoint is Raycast(p).On,
// ContainsSegment is "both endpoints On", eqZero is the two-sided zero test.
func (p *Program) ruleSegmentForwarders(c *Check) {
	rc := p.Method("geometry", "Segment", "Raycast")
	on := p.Field("geometry", "RaycastResult", "On")
	segA, segB := p.Field("geometry", "Segment", "A"), p.Field("geometry", "Segment", "B")
	if rc == nil || on == nil {
		c.Undecided("E12.seg", "anchor:geometry.Segment.Raycast", "", "not found")
		return
	}
	onOf := func(arg *Term) *Term { return tField(tCall(rc, tRecv(), arg), on) }
	p.expectForward(c, "E12.seg", p.Method("geometry", "Segment", "ContainsPoint"), "a point is on a segment iff the ray cast reports 'on'", onOf(tParam(0)))
	_ = segA
	_ = segB
	cs := p.Method("geometry", "Segment", "ContainsSegment")
	if cs == nil {
		c.Undecided("E12.seg", "anchor:geometry.Segment.ContainsSegment", "", "not found")
	} else {
		before := len(c.Obs)
		p.runE8(c, &e8row{id: "geometry.Segment.ContainsSegment", fn: cs, opaque: map[*types.Func]bool{rc: true},
			what: "a segment contains another iff the ray cast reports 'on' for both of its endpoints (and for nothing else)",
			spec: func(a *e8assign, n *e8names, out *e8out) string {
				got, ok := retBool(out)
				if !ok {
					return "no boolean result"
				}
				var onA, onB string
				for _, b := range n.bools {
					if strings.HasPrefix(b, "Raycast(") && strings.HasSuffix(b, ".On") {
						if strings.Contains(b, "p0.A") {
							onA = b
						}
						if strings.Contains(b, "p0.B") {
							onB = b
						}
					}
				}
				if onA == "" || onB == "" {
					return "the ray cast is not consulted for both endpoints of the other segment"
				}
				if want := a.B(onA) && a.B(onB); got != want {
					return fmt.Sprintf("returns %v when on(A)=%v and on(B)=%v", got, a.B(onA), a.B(onB))
				}
				return ""
			}})
		for _, o := range c.Obs[before:] {
			o.Rule = "E12.seg"
		}
	}
	ez := p.Func("geometry", "eqZero")
	if ez != nil {
		p.runE8(c, &e8row{id: "geometry.eqZero", fn: ez, what: "true exactly for zero (neither negative nor positive)", atoms: []string{"0"},
			group: func(string) int { return 0 },
			spec: func(a *e8assign, n *e8names, out *e8out) string {
				got, ok := retBool(out)
				want := a.R("p0") == a.R("0")
				if !ok || got != want {
					return fmt.Sprintf("returns %v for a value whose comparison with zero is %v", got, want)
				}
				return ""
			}})
	}
	// Line.ContainsPoint: some segment found by Search reports 'on'
	lcp := p.SSAFunc(p.Method("geometry", "Line", "ContainsPoint"))
	if lcp != nil {
		okOn := false
		for _, fn := range p.RepoSourceFuncs() {
			if fn.Parent() != lcp {
				continue
			}
			for _, b := range fn.Blocks {
				for _, in := range b.Instrs {
					if f, ok := in.(*ssa.Field); ok {
						if st, ok := f.X.Type().Underlying().(*types.Struct); ok && st.Field(f.Field) == on {
							if cl, ok := f.X.(*ssa.Call); ok && cl.Call.StaticCallee() != nil && cl.Call.StaticCallee().Object() == rc {
								okOn = true
							}
						}
					}
				}
			}
		}
		c.Expect(okOn, "E12.seg", "(*geometry.Line).ContainsPoint", p.Pos(lcp.Pos()), "a point is on a line iff Raycast(point).On holds for a segment delivered by Search", "Line.ContainsPoint no longer decides by Raycast(point).On of the searched segments")
	}
}

// ruleObjectForwarders (C11): Valid/Rect/Empty/Center of the leaf kinds come from the base geometry.
func (p *Program) ruleObjectForwarders(c *Check) {
	kinds := p.leafKinds(c, "E12.fwd")
	rectCenter := p.Method("geometry", "Rect", "Center")
	for _, k := range kinds {
		for _, m := range []string{"Valid", "Empty", "Rect"} {
			om := p.Method("geojson", k.Name, m)
			gm := p.Method("geometry", k.Geom, m)
			if k.Name == "Rect" && m == "Rect" {
				p.expectForward(c, "E12.fwd", om, "Rect.Rect() is the rectangle itself", tField(tRecv(), k.BaseVar))
				continue
			}
			recv := tField(tRecv(), k.BaseVar)
			var r *Term = recv
			if k.ByAddr {
				r = tAddr(recv)
			}
			p.expectForward(c, "E12.fwd", om, k.Name+"."+m+"() is the base geometry's", tCall(gm, r), tCall(gm, recv))
		}
		cm := p.Method("geojson", k.Name, "Center")
		switch k.Geom {
		case "Point":
			p.expectForward(c, "E12.fwd", cm, "the centre of a point is the point", tField(tRecv(), k.BaseVar))
		case "Rect":
			p.expectForward(c, "E12.fwd", cm, "the centre of a rectangle", tCall(rectCenter, tField(tRecv(), k.BaseVar)))
		default:
			rm := p.Method("geojson", k.Name, "Rect")
			p.expectForward(c, "E12.fwd", cm, "Center() is the midpoint of Rect()", tCall(rectCenter, tCall(rm, tRecv())))
		}
	}
	// the midpoint itself
	sh, ok := p.shapeOf(rectCenter)
	good := false
	if ok && sh.final() != nil {
		s := sh.final().String()
		mid := func(ax string) []string {
			return []string{"(/ (+ recv.Max." + ax + " recv.Min." + ax + ") 2)", "(/ (+ recv.Min." + ax + " recv.Max." + ax + ") 2)"}
		}
		for _, x := range mid("X") {
			for _, y := range mid("Y") {
				if s == "geometry.Point{"+x+","+y+"}" || s == "geometry.Point{X:"+x+",Y:"+y+"}" {
					good = true
				}
			}
		}
	}
	c.Expect(good, "E12.fwd", "geometry.Rect.Center", p.declPos(rectCenter), "the centre is ((Max.X+Min.X)/2, (Max.Y+Min.Y)/2)", "Rect.Center is not the per-axis midpoint of Min and Max")
	// collection: Center is Rect().Center(), Valid is Rect().Valid()
	for _, m := range []string{"Center", "Valid"} {
		cm := p.Method("geojson", "collection", m)
		gm := p.Method("geometry", "Rect", m)
		rm := p.Method("geojson", "collection", "Rect")
		p.expectForward(c, "E12.fwd", cm, "collection."+m+"() is "+m+" of its rectangle", tCall(gm, tCall(rm, tRecv())))
	}
	// polygon: Rect/Empty of Poly come from the exterior
	for _, m := range []string{"Rect", "Empty"} {
		pm := p.Method("geometry", "Poly", m)
		sh, ok := p.shapeOf(pm)
		good := ok && sh.final() != nil && strings.HasSuffix(sh.final().String(), "."+m+"(recv.Exterior)")
		c.Expect(good, "E12.fwd", "(*geometry.Poly)."+m, p.declPos(pm), m+"() of a polygon is its exterior's", "Poly."+m+" does not answer with its exterior ring's "+m+"()")
	}
}

// ruleEmptyContainee (C03): every Contains{Line,Poly} kernel answers false for an empty containee.
func (p *Program) ruleEmptyContainee(c *Check) {
	n := 0
	for _, T := range geomKinds {
		for _, B := range []string{"Line", "Poly"} {
			fn := p.SSAFunc(p.Method("geometry", T, "Contains"+B))
			con := "geometry." + T + ".Contains" + B
			if fn == nil {
				c.Undecided("E12.empty", con, "", "kernel not found")
				continue
			}
			n++
			pi := len(fn.Params) - 1
			if p.emptyGuarded(fn, pi, 0) {
				c.OK("E12.empty", con, p.Pos(fn.Pos()), "an empty containee is rejected before anything else can answer true")
			} else {
				c.Bad("E12.empty", con, p.Pos(fn.Pos()), "no test of the containee's emptiness leads to 'false': an empty line/polygon could be reported as contained (C03 requires B to be non-empty)")
			}
		}
	}
	c.Floor("E12.empty", n, 8, "Contains{Line,Poly} kernels")
}

func derivedFrom(v ssa.Value, prm *ssa.Parameter, depth int) bool {
	if depth > 6 {
		return false
	}
	switch x := v.(type) {
	case *ssa.Parameter:
		return x == prm
	case *ssa.FieldAddr:
		return derivedFrom(x.X, prm, depth+1)
	case *ssa.UnOp:
		return derivedFrom(x.X, prm, depth+1)
	case *ssa.MakeInterface:
		return derivedFrom(x.X, prm, depth+1)
	case *ssa.ChangeInterface:
		return derivedFrom(x.X, prm, depth+1)
	case *ssa.ChangeType:
		return derivedFrom(x.X, prm, depth+1)
	case *ssa.Alloc:
		// a temporary that is filled from the parameter (&Poly{Exterior: rect}; the two-point line of a flat polygon)
		for _, r := range *x.Referrers() {
			switch s := r.(type) {
			case *ssa.Store:
				if s.Addr == x && derivedFrom(s.Val, prm, depth+1) {
					return true
				}
			case *ssa.FieldAddr:
				for _, r2 := range *s.Referrers() {
					if st, ok := r2.(*ssa.Store); ok && derivedFrom(st.Val, prm, depth+1) {
						return true
					}
				}
			}
		}
	case *ssa.Call:
		for _, a := range x.Call.Args {
			if derivedFrom(a, prm, depth+1) {
				return true
			}
		}
		if x.Call.IsInvoke() {
			return derivedFrom(x.Call.Value, prm, depth+1)
		}
	case *ssa.Slice:
		return derivedFrom(x.X, prm, depth+1)
	case *ssa.Field:
		return derivedFrom(x.X, prm, depth+1)
	}
	return false
}

func (p *Program) emptyGuarded(fn *ssa.Function, pi int, depth int) bool {
	if fn == nil || fn.Blocks == nil || depth > 3 || pi >= len(fn.Params) {
		return false
	}
	prm := fn.Params[pi]
	for _, b := range fn.Blocks {
		iff, ok := b.Instrs[len(b.Instrs)-1].(*ssa.If)
		if !ok {
			continue
		}
		cond := iff.Cond
		emptySucc := 0
		if u, ok := cond.(*ssa.UnOp); ok && u.Op == token.NOT {
			cond = u.X
			emptySucc = 1
		}
		cl, ok := cond.(*ssa.Call)
		if !ok {
			continue
		}
		name := ""
		var recv ssa.Value
		if cl.Call.IsInvoke() {
			name, recv = cl.Call.Method.Name(), cl.Call.Value
		} else if sc := cl.Call.StaticCallee(); sc != nil && len(cl.Call.Args) > 0 {
			name, recv = sc.Name(), cl.Call.Args[0]
		}
		if name != "Empty" || !derivedFrom(recv, prm, 0) {
			continue
		}
		es := b.Succs[emptySucc]
		// the empty edge must end in false: a return of false, or a phi edge false
		if ret, ok := es.Instrs[len(es.Instrs)-1].(*ssa.Return); ok && len(es.Instrs) <= 2 && len(ret.Results) == 1 {
			if k, ok := ret.Results[0].(*ssa.Const); ok && k.Value != nil && !boolConst(k) {
				return true
			}
		}
		for _, in := range es.Instrs {
			ph, ok := in.(*ssa.Phi)
			if !ok {
				break
			}
			for i, pred := range es.Preds {
				if pred == b {
					if k, ok := ph.Edges[i].(*ssa.Const); ok && k.Value != nil && !boolConst(k) {
						return true
					}
				}
			}
		}
	}
	// delegation: a call that receives (something built from) the parameter, to a guarded callee
	for _, b := range fn.Blocks {
		for _, in := range b.Instrs {
			cl, ok := in.(*ssa.Call)
			if !ok {
				continue
			}
			sc := cl.Call.StaticCallee()
			if sc == nil || !p.IsRepoFn(sc) || sc == fn {
				continue
			}
			for j, a := range cl.Call.Args {
				if derivedFrom(a, prm, 0) && p.emptyGuarded(sc, j, depth+1) {
					return true
				}
			}
		}
	}
	return false
}

func boolConst(k *ssa.Const) bool {
	return k.Value != nil && k.Value.String() == "true"
}

// ruleConvexGate (C03): the "all points inside ⇒ contained" shortcut is taken
// only under the container ring's own Convex(), and only rectangles claim
// convexity by constant.
func (p *Program) ruleConvexGate(c *Check) {
	for _, name := range []string{"ringContainsSegment", "ringContainsRing"} {
		fn := p.SSAFunc(p.Func("geometry", name))
		con := "geometry." + name + "#convex-gate"
		if fn == nil {
			c.Undecided("E12.convex", con, "", "function not found")
			continue
		}
		gated := false
		for _, b := range fn.Blocks {
			if iff, ok := b.Instrs[len(b.Instrs)-1].(*ssa.If); ok {
				if cl, ok := iff.Cond.(*ssa.Call); ok && cl.Call.IsInvoke() && cl.Call.Method.Name() == "Convex" && cl.Call.Value == fn.Params[0] {
					gated = true
				}
			}
		}
		c.Expect(gated, "E12.convex", con, p.Pos(fn.Pos()), "the shortcut is decided by Convex() of the container ring", "the convex shortcut is not gated by the container ring's Convex(): a concave container would accept segments that leave it")
	}
	for _, fn := range p.RepoSourceFuncs() {
		if fn.Name() != "Convex" || fn.Signature.Recv() == nil || fn.Synthetic != "" {
			continue
		}
		for _, b := range fn.Blocks {
			if ret, ok := b.Instrs[len(b.Instrs)-1].(*ssa.Return); ok && len(ret.Results) == 1 {
				if k, ok := ret.Results[0].(*ssa.Const); ok && boolConst(k) {
					isRect := typeStr(fn.Signature.Recv().Type()) == "geometry.Rect"
					c.Expect(isRect, "E12.convex", SSAName(fn)+"#constant", p.Pos(fn.Pos()), "only a rectangle is convex by construction", "a ring type other than Rect claims to be convex unconditionally")
				}
			}
		}
	}
}

// ruleDerivedAttributes (C18): convex, clockwise, rect and closed are written
// once, at construction, from the same points.
func (p *Program) ruleDerivedAttributes(c *Check) {
	allowed := map[string][]string{
		"convex": {"geometry.makeSeries"}, "clockwise": {"geometry.makeSeries"}, "closed": {"geometry.makeSeries"},
		"rect":   {"geometry.makeSeries", "(*geometry.Line).ContainsPoly"},
		"points": {"geometry.makeSeries", "(*geometry.Line).ContainsPoly"},
	}
	for field, allow := range allowed {
		fv := p.Field("geometry", "baseSeries", field)
		if fv == nil {
			c.Undecided("E12.attr", "anchor:geometry.baseSeries."+field, "", "field not found")
			continue
		}
		for _, fn := range p.RepoSourceFuncs() {
			for _, b := range fn.Blocks {
				for _, in := range b.Instrs {
					st, ok := in.(*ssa.Store)
					if !ok {
						continue
					}
					fa, ok := st.Addr.(*ssa.FieldAddr)
					if !ok {
						continue
					}
					stt, ok := fa.X.Type().Underlying().(*types.Pointer).Elem().Underlying().(*types.Struct)
					if !ok || stt.Field(fa.Field) != fv {
						continue
					}
					name := SSAName(rootFn2(fn))
					con := name + " writes baseSeries." + field
					if inList(allow, name) {
						c.OK("E12.attr", con, p.Pos(st.Pos()), "construction-time writer")
					} else {
						c.Bad("E12.attr", con, p.Pos(st.Pos()), "a derived attribute of a series is written outside its constructor: it can disagree with the points it was computed from")
					}
				}
			}
		}
	}
	// makeSeries derives them from its own points and closed flag
	ms := p.SSAFunc(p.Func("geometry", "makeSeries"))
	pp := p.SSAFunc(p.Func("geometry", "processPoints"))
	if ms != nil && pp != nil {
		good := false
		for _, b := range ms.Blocks {
			for _, in := range b.Instrs {
				if cl, ok := in.(*ssa.Call); ok && cl.Call.StaticCallee() == pp && len(cl.Call.Args) == 2 {
					_, p0 := cl.Call.Args[0].(*ssa.Parameter)
					_, p1 := cl.Call.Args[1].(*ssa.Parameter)
					good = p0 && p1
				}
			}
		}
		c.Expect(good, "E12.attr", "geometry.makeSeries#processPoints", p.Pos(ms.Pos()), "the attributes are computed from the constructor's own points and closed flag", "makeSeries does not compute the attributes from its own (points, closed)")
	}
}
