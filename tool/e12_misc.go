package main

import (
	"fmt"
	"go/ast"
	"go/constant"
	"go/token"
	"go/types"
	"sort"
	"strings"

	"golang.org/x/tools/go/ssa"
	"golang.org/x/tools/go/types/typeutil"
)

// Small structural rules shared by several properties.

// ruleSegmentForwarders (C19/C01): ContainsPoint is Raycast(p).On,
// ContainsSegment is "both endpoints On", eqZero is the two-sided zero test.
func (p *Program) ruleSegmentForwarders(c *Check) {
	rc := p.Method("geometry", "Segment", "Raycast")
	on := p.Field("geometry", "RaycastResult", "On")
	segA, segB := p.Field("geometry", "Segment", "A"), p.Field("geometry", "Segment", "B")
	if rc == nil || on == nil {
		c.Undecided("E12.seg", "anchor:geometry.Segment.Raycast", "", "not found")
		return
	}
	onOf := func(arg *Term) *Term { return tField(tCall(rc, tRecv(), arg), on) }
	p.expectForward(c, "E12.seg", p.Method("geometry", "Segment", "ContainsPoint"), "a point is on a segment iff the ray cast reports 'on'", onOf(tParam(0)))
	_ = segA
	_ = segB
	cs := p.Method("geometry", "Segment", "ContainsSegment")
	if cs == nil {
		c.Undecided("E12.seg", "anchor:geometry.Segment.ContainsSegment", "", "not found")
	} else {
		before := len(c.Obs)
		p.runE8(c, &e8row{id: "geometry.Segment.ContainsSegment", fn: cs, opaque: map[*types.Func]bool{rc: true},
			what: "a segment contains another iff the ray cast reports 'on' for both of its endpoints (and for nothing else)",
			spec: func(a *e8assign, n *e8names, out *e8out) string {
				got, ok := retBool(out)
				if !ok {
					return "no boolean result"
				}
				var onA, onB string
				for _, b := range n.bools {
					if strings.HasPrefix(b, "Raycast(") && strings.HasSuffix(b, ".On") {
						if strings.Contains(b, "p0.A") {
							onA = b
						}
						if strings.Contains(b, "p0.B") {
							onB = b
						}
					}
				}
				if onA == "" || onB == "" {
					return "the ray cast is not consulted for both endpoints of the other segment"
				}
				if want := a.B(onA) && a.B(onB); got != want {
					return fmt.Sprintf("returns %v when on(A)=%v and on(B)=%v", got, a.B(onA), a.B(onB))
				}
				return ""
			}})
		for _, o := range c.Obs[before:] {
			o.Rule = "E12.seg"
		}
	}
	ez := p.Func("geometry", "eqZero")
	if ez != nil {
		p.runE8(c, &e8row{id: "geometry.eqZero", fn: ez, what: "true exactly for zero (neither negative nor positive)", atoms: []string{"0"},
			group: func(string) int { return 0 },
			spec: func(a *e8assign, n *e8names, out *e8out) string {
				got, ok := retBool(out)
				want := a.R("p0") == a.R("0")
				if !ok || got != want {
					return fmt.Sprintf("returns %v for a value whose comparison with zero is %v", got, want)
				}
				return ""
			}})
	}
	// Line.ContainsPoint: some segment found by Search reports 'on'
	lcp := p.SSAFunc(p.Method("geometry", "Line", "ContainsPoint"))
	if lcp != nil {
		okOn := false
		// the method itself and the same-package helpers it delegates to
		// (depth 2); the Search callback is a closure of one of them
		owners := map[*ssa.Function]bool{lcp: true}
		for depth := 0; depth < 2; depth++ {
			for o := range owners {
				for _, b := range o.Blocks {
					for _, in := range b.Instrs {
						if cl, ok := in.(ssa.CallInstruction); ok {
							if sc := cl.Common().StaticCallee(); sc != nil && sc.Pkg == lcp.Pkg && sc.Object() != rc && sc.Blocks != nil {
								owners[sc] = true
							}
						}
					}
				}
			}
		}
		for _, fn := range p.RepoSourceFuncs() {
			if !owners[fn.Parent()] && !owners[fn] {
				continue
			}
			for _, b := range fn.Blocks {
				for _, in := range b.Instrs {
					if f, ok := in.(*ssa.Field); ok {
						if st, ok := f.X.Type().Underlying().(*types.Struct); ok && st.Field(f.Field) == on {
							if cl, ok := f.X.(*ssa.Call); ok && cl.Call.StaticCallee() != nil && cl.Call.StaticCallee().Object() == rc {
								okOn = true
							}
						}
					}
				}
			}
		}
		c.Expect(okOn, "E12.seg", "(*geometry.Line).ContainsPoint", p.Pos(lcp.Pos()), "a point is on a line iff Raycast(point).On holds for a segment delivered by Search", "Line.ContainsPoint no longer decides by Raycast(point).On of the searched segments")
	}
}

// ruleObjectForwarders (C11): Valid/Rect/Empty/Center of the leaf kinds come from the base geometry.
func (p *Program) ruleObjectForwarders(c *Check) {
	kinds := p.leafKinds(c, "E12.fwd")
	rectCenter := p.Method("geometry", "Rect", "Center")
	for _, k := range kinds {
		for _, m := range []string{"Valid", "Empty", "Rect"} {
			om := p.Method("geojson", k.Name, m)
			gm := p.Method("geometry", k.Geom, m)
			if k.Name == "Rect" && m == "Rect" {
				p.expectForward(c, "E12.fwd", om, "Rect.Rect() is the rectangle itself", tField(tRecv(), k.BaseVar))
				continue
			}
			recv := tField(tRecv(), k.BaseVar)
			var r *Term = recv
			if k.ByAddr {
				r = tAddr(recv)
			}
			p.expectForward(c, "E12.fwd", om, k.Name+"."+m+"() is the base geometry's", tCall(gm, r), tCall(gm, recv))
		}
		cm := p.Method("geojson", k.Name, "Center")
		switch k.Geom {
		case "Point":
			p.expectForward(c, "E12.fwd", cm, "the centre of a point is the point", tField(tRecv(), k.BaseVar))
		case "Rect":
			p.expectForward(c, "E12.fwd", cm, "the centre of a rectangle", tCall(rectCenter, tField(tRecv(), k.BaseVar)))
		default:
			rm := p.Method("geojson", k.Name, "Rect")
			p.expectForward(c, "E12.fwd", cm, "Center() is the midpoint of Rect()", tCall(rectCenter, tCall(rm, tRecv())))
		}
	}
	// the midpoint itself
	sh, ok := p.shapeOf(rectCenter)
	good := false
	if ok && sh.final() != nil {
		s := sh.final().String()
		mid := func(ax string) []string {
			return []string{"(/ (+ recv.Max." + ax + " recv.Min." + ax + ") 2)", "(/ (+ recv.Min." + ax + " recv.Max." + ax + ") 2)"}
		}
		for _, x := range mid("X") {
			for _, y := range mid("Y") {
				if s == "geometry.Point{"+x+","+y+"}" || s == "geometry.Point{X:"+x+",Y:"+y+"}" {
					good = true
				}
			}
		}
	}
	c.Expect(good, "E12.fwd", "geometry.Rect.Center", p.declPos(rectCenter), "the centre is ((Max.X+Min.X)/2, (Max.Y+Min.Y)/2)", "Rect.Center is not the per-axis midpoint of Min and Max")
	// collection: Center is Rect().Center(), Valid is Rect().Valid()
	for _, m := range []string{"Center", "Valid"} {
		cm := p.Method("geojson", "collection", m)
		gm := p.Method("geometry", "Rect", m)
		rm := p.Method("geojson", "collection", "Rect")
		p.expectForward(c, "E12.fwd", cm, "collection."+m+"() is "+m+" of its rectangle", tCall(gm, tCall(rm, tRecv())))
	}
	// polygon: Rect/Empty of Poly come from the exterior
	for _, m := range []string{"Rect", "Empty"} {
		pm := p.Method("geometry", "Poly", m)
		sh, ok := p.shapeOf(pm)
		good := ok && sh.final() != nil && strings.HasSuffix(sh.final().String(), "."+m+"(recv.Exterior)")
		c.Expect(good, "E12.fwd", "(*geometry.Poly)."+m, p.declPos(pm), m+"() of a polygon is its exterior's", "Poly."+m+" does not answer with its exterior ring's "+m+"()")
	}
}

// ruleEmptyContainee (C03): every Contains{Line,Poly} kernel answers false for an empty containee.
func (p *Program) ruleEmptyContainee(c *Check) {
	n := 0
	for _, T := range geomKinds {
		for _, B := range []string{"Line", "Poly"} {
			fn := p.SSAFunc(p.Method("geometry", T, "Contains"+B))
			con := "geometry." + T + ".Contains" + B
			if fn == nil {
				c.Undecided("E12.empty", con, "", "kernel not found")
				continue
			}
			n++
			pi := len(fn.Params) - 1
			if p.emptyGuarded(fn, pi, 0) {
				c.OK("E12.empty", con, p.Pos(fn.Pos()), "an empty containee is rejected before anything else can answer true")
			} else {
				c.Bad("E12.empty", con, p.Pos(fn.Pos()), "no test of the containee's emptiness leads to 'false': an empty line/polygon could be reported as contained (C03 requires B to be non-empty)")
			}
		}
	}
	c.Floor("E12.empty", n, 8, "Contains{Line,Poly} kernels")
}

func derivedFrom(v ssa.Value, prm *ssa.Parameter, depth int) bool {
	if depth > 6 {
		return false
	}
	switch x := v.(type) {
	case *ssa.Parameter:
		return x == prm
	case *ssa.FieldAddr:
		return derivedFrom(x.X, prm, depth+1)
	case *ssa.UnOp:
		return derivedFrom(x.X, prm, depth+1)
	case *ssa.MakeInterface:
		return derivedFrom(x.X, prm, depth+1)
	case *ssa.ChangeInterface:
		return derivedFrom(x.X, prm, depth+1)
	case *ssa.ChangeType:
		return derivedFrom(x.X, prm, depth+1)
	case *ssa.Alloc:
		// a temporary that is filled from the parameter (&Poly{Exterior: rect}; the two-point line of a flat polygon)
		for _, r := range *x.Referrers() {
			switch s := r.(type) {
			case *ssa.Store:
				if s.Addr == x && derivedFrom(s.Val, prm, depth+1) {
					return true
				}
			case *ssa.FieldAddr:
				for _, r2 := range *s.Referrers() {
					if st, ok := r2.(*ssa.Store); ok && derivedFrom(st.Val, prm, depth+1) {
						return true
					}
				}
			}
		}
	case *ssa.Call:
		for _, a := range x.Call.Args {
			if derivedFrom(a, prm, depth+1) {
				return true
			}
		}
		if x.Call.IsInvoke() {
			return derivedFrom(x.Call.Value, prm, depth+1)
		}
	case *ssa.Slice:
		return derivedFrom(x.X, prm, depth+1)
	case *ssa.Field:
		return derivedFrom(x.X, prm, depth+1)
	}
	return false
}

func (p *Program) emptyGuarded(fn *ssa.Function, pi int, depth int) bool {
	if fn == nil || fn.Blocks == nil || depth > 3 || pi >= len(fn.Params) {
		return false
	}
	prm := fn.Params[pi]
	for _, b := range fn.Blocks {
		iff, ok := b.Instrs[len(b.Instrs)-1].(*ssa.If)
		if !ok {
			continue
		}
		cond := iff.Cond
		emptySucc := 0
		if u, ok := cond.(*ssa.UnOp); ok && u.Op == token.NOT {
			cond = u.X
			emptySucc = 1
		}
		cl, ok := cond.(*ssa.Call)
		if !ok {
			continue
		}
		name := ""
		var recv ssa.Value
		if cl.Call.IsInvoke() {
			name, recv = cl.Call.Method.Name(), cl.Call.Value
		} else if sc := cl.Call.StaticCallee(); sc != nil && len(cl.Call.Args) > 0 {
			name, recv = sc.Name(), cl.Call.Args[0]
		}
		if name != "Empty" || !derivedFrom(recv, prm, 0) {
			continue
		}
		es := b.Succs[emptySucc]
		// the empty edge must end in false: a return of false, or a phi edge false
		if ret, ok := es.Instrs[len(es.Instrs)-1].(*ssa.Return); ok && len(es.Instrs) <= 2 && len(ret.Results) == 1 {
			if k, ok := ret.Results[0].(*ssa.Const); ok && k.Value != nil && !boolConst(k) {
				return true
			}
		}
		for _, in := range es.Instrs {
			ph, ok := in.(*ssa.Phi)
			if !ok {
				break
			}
			for i, pred := range es.Preds {
				if pred == b {
					if k, ok := ph.Edges[i].(*ssa.Const); ok && k.Value != nil && !boolConst(k) {
						return true
					}
				}
			}
		}
	}
	// delegation: a call that receives (something built from) the parameter, to a guarded callee
	for _, b := range fn.Blocks {
		for _, in := range b.Instrs {
			cl, ok := in.(*ssa.Call)
			if !ok {
				continue
			}
			sc := cl.Call.StaticCallee()
			if sc == nil || !p.IsRepoFn(sc) || sc == fn {
				continue
			}
			for j, a := range cl.Call.Args {
				if derivedFrom(a, prm, 0) && p.emptyGuarded(sc, j, depth+1) {
					return true
				}
			}
		}
	}
	return false
}

func boolConst(k *ssa.Const) bool {
	return k.Value != nil && k.Value.String() == "true"
}

// ruleConvexGate (C03): the "all points inside ⇒ contained" shortcut is taken
// only under the container ring's own Convex(), and only rectangles claim
// convexity by constant.
func (p *Program) ruleConvexGate(c *Check) {
	rcp := p.SSAFunc(p.Func("geometry", "ringContainsPoint"))
	rcs := p.SSAFunc(p.Func("geometry", "ringContainsSegment"))
	rcr := p.SSAFunc(p.Func("geometry", "ringContainsRing"))
	for _, fn := range []*ssa.Function{rcs, rcr} {
		if fn == nil || rcp == nil || rcs == nil || len(fn.Params) < 2 {
			c.Undecided("E12.convex", "anchor:geometry.ringContainsSegment/ringContainsRing", "", "function not found")
			continue
		}
		con := "geometry." + fn.Name() + "#convex-gate"
		type edge struct{ from, to *ssa.BasicBlock }
		// polarity-aware edges of every `if` in fn
		edgesOf := func(b *ssa.BasicBlock) (cond ssa.Value, tEdge, fEdge edge, ok bool) {
			if len(b.Instrs) == 0 {
				return
			}
			iff, isIf := b.Instrs[len(b.Instrs)-1].(*ssa.If)
			if !isIf {
				return
			}
			cond = iff.Cond
			t, f := b.Succs[0], b.Succs[1]
			for {
				u, isNot := cond.(*ssa.UnOp)
				if !isNot || u.Op != token.NOT {
					break
				}
				cond = u.X
				t, f = f, t
			}
			return cond, edge{b, t}, edge{b, f}, true
		}
		isConvexOfContainer := func(v ssa.Value) bool {
			cl, ok := v.(*ssa.Call)
			return ok && cl.Call.IsInvoke() && cl.Call.Method.Name() == "Convex" && cl.Call.Value == fn.Params[0]
		}
		callsIn := func(b *ssa.BasicBlock, callee *ssa.Function) bool {
			for _, in := range b.Instrs {
				if cl, ok := in.(*ssa.Call); ok && cl.Call.StaticCallee() == callee {
					return true
				}
			}
			return false
		}
		removedT := map[edge]bool{} // Convex()==true edges
		removedAll := map[edge]bool{}
		gates := 0
		for _, b := range fn.Blocks {
			cond, te, fe, ok := edgesOf(b)
			if !ok {
				continue
			}
			if isConvexOfContainer(cond) {
				gates++
				removedT[te] = true
				removedAll[te] = true
				// the concave arm: the false successor dominates a per-segment test
				for _, sb := range fn.Blocks {
					if callsIn(sb, rcs) && fe.to.Dominates(sb) && fn != rcs {
						removedAll[fe] = true
					}
				}
			}
			// the bounding-rectangle shortcut of ringContainsRing: ringContainsRing(container, X.Rect(), …) == true
			if cl, ok := cond.(*ssa.Call); ok && fn == rcr && cl.Call.StaticCallee() == rcr && len(cl.Call.Args) >= 2 && cl.Call.Args[0] == fn.Params[0] {
				removedAll[te] = true
			}
			// degenerate segment (A == B) and the on-edge case analysis of ringContainsSegment
			if fn == rcs {
				if bo, ok := cond.(*ssa.BinOp); ok && bo.Op == token.EQL && isStructType(bo.X.Type()) && derivedFromParam(bo.X, fn.Params[1]) && derivedFromParam(bo.Y, fn.Params[1]) {
					removedAll[te] = true
				}
				if len(fn.Params) >= 3 && cond == ssa.Value(fn.Params[2]) {
					removedAll[te] = true
				}
			}
		}
		reach := func(removed map[edge]bool) map[*ssa.BasicBlock]bool {
			seen := map[*ssa.BasicBlock]bool{fn.Blocks[0]: true}
			work := []*ssa.BasicBlock{fn.Blocks[0]}
			for len(work) > 0 {
				b := work[len(work)-1]
				work = work[:len(work)-1]
				for _, s := range b.Succs {
					if removed[edge{b, s}] || seen[s] {
						continue
					}
					seen[s] = true
					work = append(work, s)
				}
			}
			return seen
		}
		if gates == 0 {
			c.Bad("E12.convex", con, p.Pos(fn.Pos()), "the convex shortcut is not gated by the container ring's Convex(): a concave container would accept segments that leave it")
			continue
		}
		bad := ""
		// (1) the vertex-only test (ringContainsRing) is reachable only through Convex()==true
		if fn == rcr {
			rT := reach(removedT)
			for _, b := range fn.Blocks {
				if rT[b] && callsIn(b, rcp) {
					bad = "the vertices-only containment test can be reached without the container ring's Convex() being true (" + p.Pos(b.Instrs[0].Pos()) + ")"
				}
			}
		}
		// (2) no constant acceptance is reachable except through Convex()==true, the per-segment arm, or a recognised special case
		rA := reach(removedAll)
		for _, b := range fn.Blocks {
			if !rA[b] || len(b.Instrs) == 0 {
				continue
			}
			if ret, ok := b.Instrs[len(b.Instrs)-1].(*ssa.Return); ok && len(ret.Results) == 1 {
				if k, ok := ret.Results[0].(*ssa.Const); ok && boolConst(k) && fn == rcs {
					bad = "ringContainsSegment accepts (returns true) on a path that neither tests the container's Convex() nor searches the ring's segments (" + p.Pos(ret.Pos()) + ")"
				}
				if k, ok := ret.Results[0].(*ssa.Const); ok && boolConst(k) && fn == rcr {
					bad = "ringContainsRing accepts (returns true) on a path that passes neither Convex()==true, nor the per-segment arm, nor the rectangle shortcut (" + p.Pos(ret.Pos()) + ")"
				}
				if ph, ok := ret.Results[0].(*ssa.Phi); ok {
					for i, e := range ph.Edges {
						if k, ok := e.(*ssa.Const); ok && boolConst(k) && rA[ph.Block().Preds[i]] && !removedAll[edge{ph.Block().Preds[i], ph.Block()}] {
							bad = "accepts (true) on a path that is not gated by the container's Convex() (" + p.Pos(ret.Pos()) + ")"
						}
					}
				}
			}
		}
		c.Expect(bad == "", "E12.convex", con, p.Pos(fn.Pos()), "every acceptance that skips the segment tests is reachable only through Convex()==true of the container ring (or a recognised special case: A==B, on-edge analysis, rectangle shortcut)", bad)
	}
	for _, fn := range p.RepoSourceFuncs() {
		if fn.Name() != "Convex" || fn.Signature.Recv() == nil || fn.Synthetic != "" {
			continue
		}
		for _, b := range fn.Blocks {
			if ret, ok := b.Instrs[len(b.Instrs)-1].(*ssa.Return); ok && len(ret.Results) == 1 {
				if k, ok := ret.Results[0].(*ssa.Const); ok && boolConst(k) {
					isRect := typeStr(fn.Signature.Recv().Type()) == "geometry.Rect"
					c.Expect(isRect, "E12.convex", SSAName(fn)+"#constant", p.Pos(fn.Pos()), "only a rectangle is convex by construction", "a ring type other than Rect claims to be convex unconditionally")
				}
			}
		}
	}
}

// ruleDerivedAttributes (C18): convex, clockwise, rect and closed are written
// once, at construction, from the same points.
func (p *Program) ruleDerivedAttributes(c *Check) {
	allowed := map[string][]string{
		"convex": {"geometry.makeSeries"}, "clockwise": {"geometry.makeSeries"}, "closed": {"geometry.makeSeries"},
		"rect":   {"geometry.makeSeries", "(*geometry.Line).ContainsPoly"},
		"points": {"geometry.makeSeries", "(*geometry.Line).ContainsPoly"},
	}
	for field, allow := range allowed {
		fv := p.Field("geometry", "baseSeries", field)
		if fv == nil {
			c.Undecided("E12.attr", "anchor:geometry.baseSeries."+field, "", "field not found")
			continue
		}
		for _, fn := range p.RepoSourceFuncs() {
			for _, b := range fn.Blocks {
				for _, in := range b.Instrs {
					st, ok := in.(*ssa.Store)
					if !ok {
						continue
					}
					fa, ok := st.Addr.(*ssa.FieldAddr)
					if !ok {
						continue
					}
					stt, ok := fa.X.Type().Underlying().(*types.Pointer).Elem().Underlying().(*types.Struct)
					if !ok || stt.Field(fa.Field) != fv {
						continue
					}
					name := SSAName(rootFn2(fn))
					con := name + " writes baseSeries." + field
					if inList(allow, name) {
						c.OK("E12.attr", con, p.Pos(st.Pos()), "construction-time writer")
					} else {
						c.Bad("E12.attr", con, p.Pos(st.Pos()), "a derived attribute of a series is written outside its constructor: it can disagree with the points it was computed from")
					}
				}
			}
		}
	}
	// makeSeries derives them from its own points and closed flag
	ms := p.SSAFunc(p.Func("geometry", "makeSeries"))
	pp := p.SSAFunc(p.Func("geometry", "processPoints"))
	if ms != nil && pp != nil {
		good := false
		for _, b := range ms.Blocks {
			for _, in := range b.Instrs {
				if cl, ok := in.(*ssa.Call); ok && cl.Call.StaticCallee() == pp && len(cl.Call.Args) == 2 {
					_, p0 := cl.Call.Args[0].(*ssa.Parameter)
					_, p1 := cl.Call.Args[1].(*ssa.Parameter)
					good = p0 && p1
				}
			}
		}
		c.Expect(good, "E12.attr", "geometry.makeSeries#processPoints", p.Pos(ms.Pos()), "the attributes are computed from the constructor's own points and closed flag", "makeSeries does not compute the attributes from its own (points, closed)")
	}
}

// derivedFromParam: v is par or obtained from it by field/index selection and loads.
func derivedFromParam(v ssa.Value, par *ssa.Parameter) bool {
	for i := 0; i < 12; i++ {
		switch x := v.(type) {
		case *ssa.Parameter:
			return x == par
		case *ssa.Field:
			v = x.X
		case *ssa.FieldAddr:
			v = x.X
		case *ssa.UnOp:
			v = x.X
		case *ssa.Alloc:
			// spilled parameter: find the store of the parameter into it
			for _, r := range *x.Referrers() {
				if st, ok := r.(*ssa.Store); ok && st.Addr == x {
					if pp, ok := st.Val.(*ssa.Parameter); ok {
						return pp == par
					}
				}
			}
			return false
		default:
			return false
		}
	}
	return false
}

// ruleCircleConstructor (C13): NewCircle keeps the centre and the radius it
// was given, and the threshold it stores for containsPoint is exactly
// geo.DistanceToHaversine of the (normalised) radius — the same function of
// distance that geo.Haversine is compared with.  The constructor (and any
// repository helper it uses) is run for every order type of its arguments with
// the geo package opaque.
func (p *Program) ruleCircleConstructor(c *Check) {
	fn := p.Func("geojson", "NewCircle")
	if fn == nil || p.Decl(fn) == nil {
		c.Undecided("E12.circle", "anchor:geojson.NewCircle", "", "function not found")
		return
	}
	before := len(c.Obs)
	p.runE8(c, &e8row{id: "geojson.NewCircle#fields", fn: fn, opaquePkg: map[*types.Package]bool{p.Geo.Types: true},
		atoms: []string{"0"},
		what:  "the circle keeps centre and radius as given; for a positive radius the stored threshold is geo.DistanceToHaversine(radius) with the radius at most normalised by geo.NormalizeDistance",
		spec: func(a *e8assign, n *e8names, out *e8out) string {
			if !out.returned || len(out.ret) != 1 || out.ret[0] == nil || out.ret[0].k != kStruct {
				return "no circle is returned"
			}
			g := out.ret[0]
			if x, y := leaf(g, "center", "X"), leaf(g, "center", "Y"); x == nil || y == nil || x.name != "p0.X" || y.name != "p0.Y" {
				return "the centre stored is not the centre given"
			}
			if m := leaf(g, "meters"); m == nil || m.k != kScalar || m.name != "p1" {
				return "the radius stored is not the radius given"
			}
			h := leaf(g, "haversine")
			if h == nil || h.k != kScalar {
				return "no haversine threshold is stored"
			}
			exact := h.name == "geo.DistanceToHaversine(geo.NormalizeDistance(p1))" || h.name == "geo.DistanceToHaversine(p1)"
			if a.R("p1") > a.R("0") {
				if !exact {
					return "for a positive radius the stored threshold is " + h.name + ", not geo.DistanceToHaversine of the (normalised) radius: containsPoint would compare geo.Haversine with a different function of distance"
				}
			} else if !exact && h.name != "0" {
				return "for a non-positive radius the stored threshold is " + h.name
			}
			return ""
		}})
	for _, o := range c.Obs[before:] {
		o.Rule = "E12.circle"
	}
}

// ruleNudge (C01/C19): the half-open rule of the ray cast ("an endpoint level
// with the point counts as below it") is implemented by moving the query
// point's Y to the next representable value above, for as long as it is level
// with an endpoint.  Every write to the Y of the (copied) query point inside
// Raycast must therefore be `y = math.Nextafter(y, +Inf)` (directly or through
// a one-line helper), inside a loop that re-tests the level condition.
func (p *Program) ruleNudge(c *Check) {
	fn := p.Method("geometry", "Segment", "Raycast")
	fd, pkg := p.Decl(fn), p.DeclPkg(fn)
	con := "geometry.Segment.Raycast#nudge"
	if fd == nil || fd.Type.Params == nil || len(fd.Type.Params.List) == 0 {
		c.Undecided("E12.nudge", con, "", "function not found")
		return
	}
	info := pkg.TypesInfo
	isUp := func(e ast.Expr, lhs string, depth int) bool { return false }
	var isUpImpl func(e ast.Expr, lhs string, cinfo *types.Info, depth int) bool
	isUpImpl = func(e ast.Expr, lhs string, cinfo *types.Info, depth int) bool {
		call, ok := ast.Unparen(e).(*ast.CallExpr)
		if !ok {
			return false
		}
		callee, _ := typeutil.Callee(cinfo, call).(*types.Func)
		if callee == nil || callee.Pkg() == nil {
			return false
		}
		if callee.Pkg().Path() == "math" && callee.Name() == "Nextafter" && len(call.Args) == 2 {
			if lhs != "" && p.src(call.Args[0]) != lhs {
				return false
			}
			inf, ok := resolveSingleDef(cinfo, fd.Body, call.Args[1]).(*ast.CallExpr)
			if !ok || len(inf.Args) != 1 {
				return false
			}
			ic, _ := typeutil.Callee(cinfo, inf).(*types.Func)
			if ic == nil || ic.Pkg() == nil || ic.Pkg().Path() != "math" || ic.Name() != "Inf" {
				return false
			}
			tv, ok := cinfo.Types[inf.Args[0]]
			return ok && tv.Value != nil && constant.Sign(tv.Value) > 0
		}
		// a one-line repository helper: return math.Nextafter(param, +Inf)
		if depth < 2 && p.IsRepoPkg(callee.Pkg()) && len(call.Args) == 1 && (lhs == "" || p.src(call.Args[0]) == lhs) {
			if hd := p.Decl(callee); hd != nil && hd.Body != nil && len(hd.Body.List) == 1 && len(hd.Type.Params.List) == 1 && len(hd.Type.Params.List[0].Names) == 1 {
				if ret, ok := hd.Body.List[0].(*ast.ReturnStmt); ok && len(ret.Results) == 1 {
					return isUpImpl(ret.Results[0], hd.Type.Params.List[0].Names[0].Name, p.DeclPkg(callee).TypesInfo, depth+1)
				}
			}
		}
		return false
	}
	_ = isUp
	// the local copies of the query point
	qp := map[types.Object]bool{}
	for _, nm := range fd.Type.Params.List[0].Names {
		qp[info.Defs[nm]] = true
	}
	ast.Inspect(fd.Body, func(n ast.Node) bool {
		as, ok := n.(*ast.AssignStmt)
		if !ok || as.Tok != token.DEFINE || len(as.Lhs) != len(as.Rhs) {
			return true
		}
		for i, r := range as.Rhs {
			if id, ok := ast.Unparen(r).(*ast.Ident); ok && qp[info.ObjectOf(id)] {
				if l, ok := as.Lhs[i].(*ast.Ident); ok {
					qp[info.ObjectOf(l)] = true
				}
			}
		}
		return true
	})
	writes, bad := 0, ""
	var stack []ast.Node
	ast.Inspect(fd.Body, func(n ast.Node) bool {
		if n == nil {
			stack = stack[:len(stack)-1]
			return true
		}
		stack = append(stack, n)
		var lhs ast.Expr
		var rhs ast.Expr
		switch st := n.(type) {
		case *ast.AssignStmt:
			if len(st.Lhs) == 1 && len(st.Rhs) == 1 {
				lhs, rhs = st.Lhs[0], st.Rhs[0]
				if st.Tok != token.ASSIGN && st.Tok != token.DEFINE {
					rhs = nil // op-assignment
				}
			}
		case *ast.IncDecStmt:
			lhs = st.X
		}
		sel, ok := lhs.(*ast.SelectorExpr)
		if !ok || sel.Sel.Name != "Y" {
			return true
		}
		id, ok := ast.Unparen(sel.X).(*ast.Ident)
		if !ok || !qp[info.ObjectOf(id)] {
			return true
		}
		writes++
		if rhs != nil && p.isNudgeHelperCall(info, rhs, p.src(lhs), isUpImpl) {
			return true // y = helper(y, …) where the helper is the nudge loop itself
		}
		if rhs == nil || !isUpImpl(rhs, p.src(lhs), info, 0) {
			bad = "the query point's Y is changed by something other than math.Nextafter(y, +Inf) (" + p.Pos(n.Pos()) + "): the half-open rule at endpoints is no longer exact for every coordinate"
			return true
		}
		inLoop := false
		for _, anc := range stack {
			if f, ok := anc.(*ast.ForStmt); ok && f.Cond != nil {
				eqs := 0
				ast.Inspect(f.Cond, func(m ast.Node) bool {
					if be, ok := m.(*ast.BinaryExpr); ok && be.Op == token.EQL && (p.src(be.X) == p.src(lhs) || p.src(be.Y) == p.src(lhs)) {
						eqs++
					}
					return true
				})
				if eqs >= 2 {
					inLoop = true
				}
			}
		}
		if !inLoop {
			bad = "the nudge is not repeated while the point is level with either endpoint (" + p.Pos(n.Pos()) + "): one step can land on the other endpoint's Y"
		}
		return true
	})
	switch {
	case bad != "":
		c.Bad("E12.nudge", con, p.declPos(fn), bad)
	case writes == 0:
		c.Bad("E12.nudge", con, p.declPos(fn), "the query point is never nudged off an endpoint's level: a vertex level with the point is counted for both segments that share it")
	default:
		c.OK("E12.nudge", con, p.declPos(fn), "the only writes to the query point's Y are y = math.Nextafter(y, +Inf), repeated while level with an endpoint")
	}
}

// isNudgeHelperCall: e is H(lhs, …) with H a repository function whose body
// is the nudge loop on its first parameter: every write to that parameter is
// y = math.Nextafter(y, +Inf) inside a loop that tests y against (at least)
// two values for equality, and H returns the parameter.
func (p *Program) isNudgeHelperCall(info *types.Info, e ast.Expr, lhs string, isUp func(ast.Expr, string, *types.Info, int) bool) bool {
	call, ok := ast.Unparen(e).(*ast.CallExpr)
	if !ok || len(call.Args) < 1 || p.src(call.Args[0]) != lhs {
		return false
	}
	callee, _ := typeutil.Callee(info, call).(*types.Func)
	if callee == nil || !p.IsRepoPkg(callee.Pkg()) {
		return false
	}
	fd, pkg := p.Decl(callee), p.DeclPkg(callee)
	if fd == nil || fd.Body == nil || len(fd.Type.Params.List) == 0 || len(fd.Type.Params.List[0].Names) == 0 {
		return false
	}
	hinfo := pkg.TypesInfo
	par := hinfo.Defs[fd.Type.Params.List[0].Names[0]]
	writes, good, returns := 0, true, false
	var stack []ast.Node
	ast.Inspect(fd.Body, func(n ast.Node) bool {
		if n == nil {
			stack = stack[:len(stack)-1]
			return true
		}
		stack = append(stack, n)
		switch st := n.(type) {
		case *ast.AssignStmt:
			for i, l := range st.Lhs {
				id, ok := l.(*ast.Ident)
				if !ok || hinfo.ObjectOf(id) != par {
					continue
				}
				writes++
				if st.Tok != token.ASSIGN || len(st.Lhs) != len(st.Rhs) || !isUp(st.Rhs[i], id.Name, hinfo, 1) {
					good = false
					continue
				}
				inLoop := false
				for _, anc := range stack {
					if f, ok := anc.(*ast.ForStmt); ok && f.Cond != nil {
						eqs := 0
						ast.Inspect(f.Cond, func(m ast.Node) bool {
							if be, ok := m.(*ast.BinaryExpr); ok && be.Op == token.EQL && (p.src(be.X) == id.Name || p.src(be.Y) == id.Name) {
								eqs++
							}
							return true
						})
						if eqs >= 2 {
							inLoop = true
						}
					}
				}
				if !inLoop {
					good = false
				}
			}
		case *ast.IncDecStmt:
			if id, ok := st.X.(*ast.Ident); ok && hinfo.ObjectOf(id) == par {
				good = false
			}
		case *ast.ReturnStmt:
			if len(st.Results) == 1 {
				if id, ok := ast.Unparen(st.Results[0]).(*ast.Ident); ok && hinfo.ObjectOf(id) == par {
					returns = true
				} else {
					good = false
				}
			}
		}
		return true
	})
	return good && writes >= 1 && returns
}

// ruleScanExits (C02/C03): an ∃-scan (`for … { if hit { return true } } return
// false`) or ∀-scan (`… return false … return true`) over the segments, points
// or holes of a geometry answers with its default only after every element
// was considered.  Inside such a loop a `return` must therefore carry the
// non-default answer, and a bare `break` (which falls through to the default
// answer) is an early default exit: the remaining elements are never looked at.
// `continue` is unrestricted (skipping one element is a local decision).
func (p *Program) ruleScanExits(c *Check) {
	n := 0
	for _, fn := range p.RepoDecls() {
		fd, pkg := p.Decl(fn), p.DeclPkg(fn)
		if fd == nil || fd.Body == nil || pkg != p.Geom {
			continue
		}
		info := pkg.TypesInfo
		sig := fn.Type().(*types.Signature)
		if sig.Results().Len() != 1 {
			continue
		}
		if bt, ok := sig.Results().At(0).Type().Underlying().(*types.Basic); !ok || bt.Kind() != types.Bool {
			continue
		}
		boolConst := func(e ast.Expr) (bool, bool) {
			tv, ok := info.Types[e]
			if !ok || tv.Value == nil || tv.Value.Kind() != constant.Bool {
				return false, false
			}
			return constant.BoolVal(tv.Value), true
		}
		var visitBlock func(list []ast.Stmt)
		visitBlock = func(list []ast.Stmt) {
			for i, st := range list {
				// descend into nested blocks first
				switch s := st.(type) {
				case *ast.IfStmt:
					visitBlock(s.Body.List)
					if e, ok := s.Else.(*ast.BlockStmt); ok {
						visitBlock(e.List)
					} else if e, ok := s.Else.(*ast.IfStmt); ok {
						visitBlock([]ast.Stmt{e})
					}
				case *ast.BlockStmt:
					visitBlock(s.List)
				case *ast.SwitchStmt:
					for _, cl := range s.Body.List {
						visitBlock(cl.(*ast.CaseClause).Body)
					}
				}
				var body *ast.BlockStmt
				switch s := st.(type) {
				case *ast.ForStmt:
					body = s.Body
				case *ast.RangeStmt:
					body = s.Body
				}
				if body == nil {
					continue
				}
				visitBlock(body.List)
				// the default answer: a constant return right after the loop
				if i+1 >= len(list) {
					continue
				}
				ret, ok := list[i+1].(*ast.ReturnStmt)
				if !ok || len(ret.Results) != 1 {
					continue
				}
				def, isConst := boolConst(ret.Results[0])
				if !isConst {
					continue
				}
				// only scans over the elements of a geometry (their index/element is used to fetch a segment, point or hole)
				if !mentions(body, func(m ast.Node) bool {
					call, ok := m.(*ast.CallExpr)
					if !ok {
						return false
					}
					if sel, ok := ast.Unparen(call.Fun).(*ast.SelectorExpr); ok {
						return sel.Sel.Name == "SegmentAt" || sel.Sel.Name == "PointAt"
					}
					return false
				}) {
					if _, isRange := st.(*ast.RangeStmt); !isRange {
						continue
					}
				}
				n++
				con := fmt.Sprintf("%s#scan@%s", FuncName(fn), p.src(loopHead(st)))
				bad := ""
				var walk func(nd ast.Node, depthLoop int)
				walk = func(nd ast.Node, depthLoop int) {
					ast.Inspect(nd, func(m ast.Node) bool {
						switch x := m.(type) {
						case *ast.FuncLit:
							return false
						case *ast.ForStmt:
							if m != nd {
								walk(x.Body, depthLoop+1)
								return false
							}
						case *ast.RangeStmt:
							if m != nd {
								walk(x.Body, depthLoop+1)
								return false
							}
						case *ast.SwitchStmt, *ast.TypeSwitchStmt, *ast.SelectStmt:
							if m != nd {
								// a break inside a switch leaves the switch, not the loop
								ast.Inspect(m, func(k ast.Node) bool {
									if r, ok := k.(*ast.ReturnStmt); ok && len(r.Results) == 1 {
										if v, isK := boolConst(r.Results[0]); isK && v == def {
											bad = "returns the default answer (" + fmt.Sprint(def) + ") from inside the scan at " + p.Pos(r.Pos())
										}
									}
									_, isLit := k.(*ast.FuncLit)
									return !isLit
								})
								return false
							}
						case *ast.BranchStmt:
							if x.Tok == token.BREAK && depthLoop == 0 && x.Label == nil {
								bad = "leaves the scan with a bare break at " + p.Pos(x.Pos()) + ": the default answer (" + fmt.Sprint(def) + ") is given although later elements were never considered"
							}
						case *ast.ReturnStmt:
							if len(x.Results) == 1 {
								if v, isK := boolConst(x.Results[0]); isK && v == def {
									bad = "returns the default answer (" + fmt.Sprint(def) + ") from inside the scan at " + p.Pos(x.Pos()) + ": later elements are never considered"
								}
							}
						}
						return true
					})
				}
				walk(body, 0)
				if bad != "" {
					c.Bad("E12.scan", con, p.Pos(st.Pos()), bad)
				} else {
					c.OK("E12.scan", con, p.Pos(st.Pos()), fmt.Sprintf("the default answer %v is given only after the loop; exits from inside the loop carry the opposite answer", def))
				}
			}
		}
		visitBlock(fd.Body.List)
	}
	c.Floor("E12.scan", n, 6, "∃/∀ scans over geometry elements")
}

func loopHead(st ast.Stmt) ast.Expr {
	switch s := st.(type) {
	case *ast.ForStmt:
		if s.Cond != nil {
			return s.Cond
		}
	case *ast.RangeStmt:
		return s.X
	}
	return &ast.Ident{Name: "loop"}
}

// rulePolyHoles (C01/C02/C03): a polygon is its exterior minus its holes.
// Every Poly predicate is run on the interpreter with the ring kernels opaque
// and its loops over the holes unrolled for up to two holes (distinct opaque
// rings); the answer must be the stated combination of the kernel verdicts —
// in particular no acceptance may skip the hole scan, and state must not leak
// from one hole to the next.
func (p *Program) rulePolyHoles(c *Check) {
	kernels := map[*types.Func]bool{}
	for _, n := range []string{"ringContainsPoint", "ringIntersectsLine", "ringContainsRing", "ringIntersectsRing", "ringContainsSegment", "ringIntersectsSegment"} { // ringContainsLine is a forwarder to ringContainsRing and is entered
		if f := p.Func("geometry", n); f != nil {
			kernels[f] = true
		}
	}
	// truth of the kernel atom whose name contains all of subs (and, for point results, its .hit)
	find := func(a *e8assign, n *e8names, subs ...string) (bool, bool) {
		for _, b := range n.bools {
			ok := true
			for _, s := range subs {
				if !strings.Contains(b, s) {
					ok = false
				}
			}
			if ok {
				return a.B(b), true
			}
		}
		return false, false
	}
	more := func(a *e8assign, n *e8names, slice string, j int) bool {
		if _, ranged := find(a, n, "more(", slice, ")#0"); ranged {
			for k := 0; k <= j; k++ {
				v, ok := find(a, n, "more(", slice, fmt.Sprintf(")#%d", k))
				if !ok || !v {
					return false
				}
			}
			return true
		}
		// a counted loop: hole j exists iff len(slice) > j, read off the ranks of len(slice) and the integer atoms
		ln := "len(" + slice + ")"
		if !a.has(ln) {
			return false
		}
		for _, s := range n.scalars {
			if v, ok := numericAtom(s); ok && a.has(s) {
				if v >= float64(j) && a.R(ln) > a.R(s) {
					return true
				}
			}
		}
		return false
	}
	type spec struct {
		method string
		what   string
		want   func(a *e8assign, n *e8names) (bool, string)
	}
	holeFree := func(kernel string, slice string) func(a *e8assign, n *e8names) bool {
		return func(a *e8assign, n *e8names) bool {
			for j := 0; j < 8; j++ {
				if more(a, n, slice, j) {
					for _, idx := range []string{fmt.Sprintf("%s[#%d]", slice, j), fmt.Sprintf("%s[%d]", slice, j)} {
						if v, ok := find(a, n, kernel+"(", idx); ok && v {
							return false
						}
					}
				}
			}
			return true
		}
	}
	specs := []spec{
		{"ContainsPoint", "in the exterior (boundary included) and in no hole (a hole's boundary belongs to the polygon)", func(a *e8assign, n *e8names) (bool, string) {
			e, ok := find(a, n, "ringContainsPoint(", "Exterior", ".hit")
			if !ok {
				return false, "the exterior is never tested"
			}
			return e && holeFree("ringContainsPoint", "recv.Holes")(a, n), ""
		}},
		{"ContainsLine", "the exterior contains the line and no hole intersects it", func(a *e8assign, n *e8names) (bool, string) {
			e, ok := find(a, n, "ringContainsRing(", "Exterior")
			if !ok {
				return false, "the exterior is never tested"
			}
			return e && holeFree("ringIntersectsLine", "recv.Holes")(a, n), ""
		}},
		{"IntersectsLine", "the exterior intersects the line and no hole contains it", func(a *e8assign, n *e8names) (bool, string) {
			e, ok := find(a, n, "ringIntersectsLine(", "Exterior")
			if !ok {
				return false, "the exterior is never tested"
			}
			return e && holeFree("ringContainsRing", "recv.Holes")(a, n), ""
		}},
		{"IntersectsPoly", "the exteriors intersect and no hole of either polygon contains the other's exterior", func(a *e8assign, n *e8names) (bool, string) {
			e, ok := find(a, n, "ringIntersectsRing(", "Exterior")
			if !ok {
				return false, "the exteriors are never tested"
			}
			return e && holeFree("ringContainsRing", "recv.Holes")(a, n) && holeFree("ringContainsRing", "p0.Holes")(a, n), ""
		}},
		{"ContainsPoly", "the exterior contains the other exterior, and every hole that the other exterior intersects lies inside one of the other polygon's holes", func(a *e8assign, n *e8names) (bool, string) {
			e, ok := find(a, n, "ringContainsRing(recv.Exterior", "p0.Exterior")
			if !ok {
				return false, "the exteriors are never tested"
			}
			if !e {
				return false, ""
			}
			for j := 0; j < 8; j++ {
				if !more(a, n, "recv.Holes", j) {
					continue
				}
				hit := false
				for _, hj := range []string{fmt.Sprintf("recv.Holes[#%d]", j), fmt.Sprintf("recv.Holes[%d]", j)} {
					if v, ok := find(a, n, "ringIntersectsRing(", hj, "p0.Exterior"); ok && v {
						hit = true
					}
				}
				if !hit {
					continue
				}
				covered := false
				for k := 0; k < 8; k++ {
					if more(a, n, "p0.Holes", k) {
						for _, hk := range []string{fmt.Sprintf("p0.Holes[#%d]", k), fmt.Sprintf("p0.Holes[%d]", k)} {
							for _, hj := range []string{fmt.Sprintf("recv.Holes[#%d]", j), fmt.Sprintf("recv.Holes[%d]", j)} {
								if v, ok := find(a, n, "ringContainsRing(", hk+",", hj+","); ok && v {
									covered = true
								}
							}
						}
					}
				}
				if !covered {
					return false, ""
				}
			}
			return true, ""
		}},
	}
	n := 0
	for _, sp := range specs {
		fn := p.Method("geometry", "Poly", sp.method)
		if fn == nil || p.Decl(fn) == nil {
			c.Undecided("E12.holes", "anchor:(*geometry.Poly)."+sp.method, "", "method not found")
			continue
		}
		n++
		sp := sp
		before := len(c.Obs)
		holes := 2
		if deepTier && (sp.method == "ContainsPoint" || sp.method == "ContainsLine" || sp.method == "IntersectsLine") {
			holes = 4
		}
		p.runE8(c, &e8row{id: "(*geometry.Poly)." + sp.method + "#holes", fn: fn, opaque: kernels, rangeMax: holes, maxBools: 16,
			what: fmt.Sprintf("for polygons with up to %d holes (and as many holes of the operand): ", holes) + sp.what,
			pre: func(a *e8assign, nm *e8names) bool {
				// receiver and operand are present (the nil guards are T3's business)
				for _, b := range nm.bools {
					if v, ok := a.bools[b]; ok && v && strings.HasPrefix(b, "isnil(") {
						return false
					}
					// len(x) and the existence of x's first element must agree
					if strings.HasPrefix(b, "more(") && strings.HasSuffix(b, ")#0") {
						ln := "len(" + b[5:len(b)-3] + ")"
						if v, ok := a.bools[b]; ok && a.has(ln, "0") {
							if a.R(ln) < a.R("0") || (a.R(ln) == a.R("0")) == v {
								return false
							}
						}
					}
				}
				return true
			},
			spec: func(a *e8assign, nm *e8names, out *e8out) string {
				got, ok := retBool(out)
				if !ok {
					return "no boolean result"
				}
				want, why := sp.want(a, nm)
				if why != "" {
					return why
				}
				if got != want {
					return fmt.Sprintf("answers %v where the kernels' verdicts give %v", got, want)
				}
				return ""
			}})
		for _, o := range c.Obs[before:] {
			o.Rule = "E12.holes"
		}
	}
	c.Floor("E12.holes", n, 5, "Poly predicates with a hole scan")
}

// ruleCyclicNeighbours (C12/C18): while it walks the points of a series,
// processPoints looks at the triple (points[i], points[i+1], points[i+2]) with
// the indices taken cyclically — this is what makes the derived attributes
// independent of where the ring starts.  The statements that select the
// triple (the backward slice of the operands of the turn computation) are run
// on the interpreter with the length of the series fixed to 3, 4, 5 and 6 and
// the index to every position; the points selected must be points[(i+1) mod n]
// and points[(i+2) mod n].  Only indices are concrete: coordinates stay
// symbolic.
func (p *Program) ruleCyclicNeighbours(c *Check) {
	fn := p.Func("geometry", "processPoints")
	fd, pkg := p.Decl(fn), p.DeclPkg(fn)
	con := "geometry.processPoints#cyclic-neighbours"
	if fd == nil || fd.Body == nil || len(fd.Type.Params.List) == 0 {
		c.Undecided("E12.cyclic", con, "", "function not found")
		return
	}
	info := pkg.TypesInfo
	// the walking loop and its index
	var loop ast.Stmt
	var loopBody *ast.BlockStmt
	var idxObj, elemObj types.Object
	for _, st := range fd.Body.List {
		if loop != nil {
			break
		}
		switch f := st.(type) {
		case *ast.ForStmt:
			if as, ok := f.Init.(*ast.AssignStmt); ok && len(as.Lhs) == 1 {
				if id, ok := as.Lhs[0].(*ast.Ident); ok {
					loop, loopBody, idxObj = f, f.Body, info.ObjectOf(id)
				}
			}
		case *ast.RangeStmt:
			if id, ok := f.Key.(*ast.Ident); ok && id.Name != "_" {
				loop, loopBody, idxObj = f, f.Body, info.ObjectOf(id)
				if vid, ok := f.Value.(*ast.Ident); ok && vid.Name != "_" {
					elemObj = info.ObjectOf(vid)
				}
			}
		}
	}
	ptsObj := info.Defs[fd.Type.Params.List[0].Names[0]]
	if loop == nil || idxObj == nil || ptsObj == nil {
		c.Undecided("E12.cyclic", con, p.declPos(fn), "the loop over the points was not found")
		return
	}
	// the turn computation: an assignment whose right side multiplies differences of X/Y coordinates of three point variables
	pointVars := map[types.Object]bool{}
	var turn *ast.AssignStmt
	ast.Inspect(loopBody, func(n ast.Node) bool {
		as, ok := n.(*ast.AssignStmt)
		if !ok || len(as.Rhs) != 1 || turn != nil {
			return true
		}
		vars := map[types.Object]bool{}
		ast.Inspect(as.Rhs[0], func(m ast.Node) bool {
			if sel, ok := m.(*ast.SelectorExpr); ok && (sel.Sel.Name == "X" || sel.Sel.Name == "Y") {
				if id, ok := ast.Unparen(sel.X).(*ast.Ident); ok {
					if o := info.ObjectOf(id); o != nil {
						vars[o] = true
					}
				}
			}
			return true
		})
		if len(vars) == 3 {
			turn, pointVars = as, vars
		}
		return true
	})
	if turn == nil {
		c.Undecided("E12.cyclic", con, p.declPos(fn), "the turn computation over three point variables was not found")
		return
	}
	// backward slice: top-level statements of the loop body (before the turn computation) that write one of the
	// three variables, an integer local, or a variable one of those is computed from (p := points[i]; a = p)
	relevant := map[types.Object]bool{}
	for o := range pointVars {
		relevant[o] = true
	}
	for changed := true; changed; {
		changed = false
		ast.Inspect(loopBody, func(m ast.Node) bool {
			as, ok := m.(*ast.AssignStmt)
			if !ok || as.Pos() >= turn.Pos() {
				return true
			}
			hit := false
			for _, l := range as.Lhs {
				if id, ok := l.(*ast.Ident); ok && relevant[info.ObjectOf(id)] {
					hit = true
				}
			}
			if hit {
				for _, r := range as.Rhs {
					ast.Inspect(r, func(k ast.Node) bool {
						if id, ok := k.(*ast.Ident); ok {
							if o, isVar := info.ObjectOf(id).(*types.Var); isVar && !relevant[o] && o != ptsObj && o != idxObj && !o.IsField() {
								relevant[o] = true
								changed = true
							}
						}
						return true
					})
				}
			}
			return true
		})
	}
	var slice []ast.Stmt
	for _, st := range loopBody.List {
		if st.Pos() >= turn.Pos() {
			break
		}
		writes := mentions(st, func(m ast.Node) bool {
			as, ok := m.(*ast.AssignStmt)
			if !ok {
				return false
			}
			for _, l := range as.Lhs {
				if id, ok := l.(*ast.Ident); ok && (relevant[info.ObjectOf(id)] || isIntLocal(info, id)) {
					return true
				}
			}
			return false
		})
		hasArith := mentions(st, func(m ast.Node) bool {
			be, ok := m.(*ast.BinaryExpr)
			if !ok {
				return false
			}
			if be.Op != token.MUL && be.Op != token.QUO {
				return false
			}
			_, isK := constInt(info, be)
			return !isK
		})
		if writes && !hasArith {
			slice = append(slice, st)
		}
	}
	if len(slice) == 0 {
		c.Undecided("E12.cyclic", con, p.declPos(fn), "the statements that select the triple were not found")
		return
	}
	// integer locals defined before the loop (n := len(points), last := n - 1, …)
	var prelude []ast.Stmt
	for _, st := range fd.Body.List {
		if st.Pos() >= loop.Pos() {
			break
		}
		if as, ok := st.(*ast.AssignStmt); ok && as.Tok == token.DEFINE {
			allInt := true
			for _, l := range as.Lhs {
				if id, ok := l.(*ast.Ident); !ok || !isIntLocal(info, id) {
					allInt = false
				}
			}
			if allInt {
				prelude = append(prelude, st)
			}
		}
	}
	bad := ""
	cases := 0
	maxN := int64(6)
	if deepTier {
		maxN = 16
	}
	for n := int64(3); n <= maxN && bad == ""; n++ {
		for i := int64(0); i < n && bad == ""; i++ {
			cases++
			func() {
				defer func() {
					if r := recover(); r != nil {
						if e, ok := r.(e8err); ok {
							bad = "the selection could not be evaluated for n=" + fmt.Sprint(n) + ", i=" + fmt.Sprint(i) + ": " + e.msg
							return
						}
						if u, ok := r.(e8unknown); ok {
							bad = "the selection depends on " + u.name + " (not only on the index and the length)"
							return
						}
						panic(r)
					}
				}()
				in := &e8interp{p: p, a: &e8assign{rank: map[string]int{}, bools: map[string]bool{}}, lens: map[string]int64{"points": n}}
				fr := newFrame(pkg)
				fr.vars[ptsObj] = in.newInput("points", ptsObj.Type())
				fr.vars[idxObj] = &val{k: kInt, n: i, typ: idxObj.Type()}
				if elemObj != nil {
					base := fr.vars[ptsObj]
					ev := in.newInput(fmt.Sprintf("points[%d]", i), elemObj.Type())
					if base.f != nil {
						base.f[fmt.Sprint(i)] = ev
					}
					fr.vars[elemObj] = ev
				}
				in.runBody(fr, prelude)
				in.runBody(fr, slice)
				// which points were selected
				sel := map[string]bool{}
				for o := range pointVars {
					v := fr.vars[o]
					if v == nil || v.k != kStruct || v.f["X"] == nil {
						bad = fmt.Sprintf("for n=%d, i=%d the variable %s does not hold a point of the series", n, i, o.Name())
						return
					}
					sel[strings.TrimSuffix(v.f["X"].name, ".X")] = true
				}
				for _, k := range []int64{i, (i + 1) % n, (i + 2) % n} {
					if !sel[fmt.Sprintf("points[%d]", k)] {
						var got []string
						for s := range sel {
							got = append(got, s)
						}
						sort.Strings(got)
						bad = fmt.Sprintf("for a series of %d points, at index %d the triple examined is {%s}; the cyclic neighbours are points[%d], points[%d], points[%d]", n, i, strings.Join(got, ", "), i, (i+1)%n, (i+2)%n)
						return
					}
				}
			}()
		}
	}
	if bad != "" {
		c.Bad("E12.cyclic", con, p.Pos(loop.Pos()), bad+": the turn at the seam is computed from the wrong vertices, so convexity depends on where the ring starts")
	} else {
		c.OK("E12.cyclic", con, p.Pos(loop.Pos()), fmt.Sprintf("for n = 3…%d and every index (%d cases) the triple is points[i], points[(i+1) mod n], points[(i+2) mod n]", maxN, cases))
	}
}

func isIntLocal(info *types.Info, id *ast.Ident) bool {
	o := info.ObjectOf(id)
	if o == nil {
		return false
	}
	bt, ok := o.Type().Underlying().(*types.Basic)
	return ok && bt.Info()&types.IsInteger != 0
}

// resolveSingleDef: an identifier of a local that is defined exactly once (x := e) and never
// assigned again stands for e; anything else stands for itself.
func resolveSingleDef(info *types.Info, body *ast.BlockStmt, e ast.Expr) ast.Expr {
	id, ok := ast.Unparen(e).(*ast.Ident)
	if !ok || body == nil {
		return ast.Unparen(e)
	}
	obj := info.ObjectOf(id)
	var def ast.Expr
	n := 0
	ast.Inspect(body, func(nd ast.Node) bool {
		switch st := nd.(type) {
		case *ast.AssignStmt:
			for i, l := range st.Lhs {
				if lid, ok := l.(*ast.Ident); ok && info.ObjectOf(lid) == obj {
					n++
					if len(st.Lhs) == len(st.Rhs) && st.Tok == token.DEFINE {
						def = st.Rhs[i]
					} else {
						n += 10
					}
				}
			}
		case *ast.IncDecStmt:
			if lid, ok := st.X.(*ast.Ident); ok && info.ObjectOf(lid) == obj {
				n += 10
			}
		case *ast.UnaryExpr:
			if lid, ok := st.X.(*ast.Ident); ok && st.Op == token.AND && info.ObjectOf(lid) == obj {
				n += 10
			}
		}
		return true
	})
	if n == 1 && def != nil {
		return ast.Unparen(def)
	}
	return ast.Unparen(e)
}
