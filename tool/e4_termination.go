package main

import (
	"fmt"
	"go/ast"
	"go/constant"
	"go/token"
	"go/types"
	"sort"
	"strings"

	"golang.org/x/tools/go/ssa"
	"golang.org/x/tools/go/types/typeutil"
)

// E4 — termination and totality.  See DESIGN.md §3/E4.

// ---- T1: every loop has a checked progress measure ----

type delta struct{ di, db int }

type pathSet struct {
	ends    []delta // paths that reach the end of the statement list
	unknown string  // non-empty: the induction variable or bound is changed in a way the rule cannot account for
}

type loopCtx struct {
	info     *types.Info
	ivar     types.Object
	bound    string // canonical text of the bound expression ("" if constant/none)
	boundObj types.Object
	// offset aliases: a local defined in the current statement list as
	// <ivar|bound> ± c, valid while neither it nor its source has changed
	aliases map[types.Object]offAlias
	version int // bumped at every change of the induction variable or the bound
}

type offAlias struct {
	ofBound bool
	off     int
	version int
}

// offsetOf recognises  x ± c  (x the induction variable or the bound).
func (lc *loopCtx) offsetOf(e ast.Expr) (isI, isB bool, off int, ok bool) {
	e = ast.Unparen(e)
	if lc.isIvar(e) {
		return true, false, 0, true
	}
	if lc.isBound(e) {
		return false, true, 0, true
	}
	be, isBin := e.(*ast.BinaryExpr)
	if !isBin || (be.Op != token.ADD && be.Op != token.SUB) {
		return false, false, 0, false
	}
	c, cok := constInt(lc.info, be.Y)
	if !cok {
		return false, false, 0, false
	}
	if be.Op == token.SUB {
		c = -c
	}
	switch {
	case lc.isIvar(be.X):
		return true, false, c, true
	case lc.isBound(be.X):
		return false, true, c, true
	}
	return false, false, 0, false
}

func constInt(info *types.Info, e ast.Expr) (int, bool) {
	if tv, ok := info.Types[e]; ok && tv.Value != nil && tv.Value.Kind() == constant.Int {
		n, ok := constant.Int64Val(tv.Value)
		return int(n), ok
	}
	return 0, false
}

func (lc *loopCtx) isIvar(e ast.Expr) bool {
	id, ok := ast.Unparen(e).(*ast.Ident)
	return ok && lc.ivar != nil && lc.info.Uses[id] == lc.ivar
}

func (lc *loopCtx) isBound(e ast.Expr) bool {
	return lc.bound != "" && types.ExprString(ast.Unparen(e)) == lc.bound
}

// walk computes the net changes of (i, B) over every path through stmts that
// falls out of the end (or reaches `continue`, which also leads to the post
// statement).  Paths that leave the loop are dropped.
func (lc *loopCtx) walk(stmts []ast.Stmt, in []delta, res *pathSet) []delta {
	cur := in
	// aliases live only inside the statement list that defines them: between
	// definition and use nothing but the statements in between can run
	saved := lc.aliases
	lc.aliases = map[types.Object]offAlias{}
	defer func() { lc.aliases = saved }()
	for _, st := range stmts {
		if len(cur) == 0 {
			return nil
		}
		cur = lc.stmt(st, cur, res)
		if as, ok := st.(*ast.AssignStmt); ok && as.Tok == token.DEFINE && len(as.Lhs) == 1 && len(as.Rhs) == 1 {
			if id, ok := as.Lhs[0].(*ast.Ident); ok {
				if o := lc.info.Defs[id]; o != nil {
					if _, isB, off, ok := lc.offsetOf(as.Rhs[0]); ok {
						lc.aliases[o] = offAlias{ofBound: isB, off: off, version: lc.version}
					}
				}
			}
		}
	}
	return cur
}

func addDelta(in []delta, di, db int) []delta {
	out := make([]delta, len(in))
	for i, d := range in {
		out[i] = delta{d.di + di, d.db + db}
	}
	return out
}

func dedup(in []delta) []delta {
	seen := map[delta]bool{}
	var out []delta
	for _, d := range in {
		if !seen[d] {
			seen[d] = true
			out = append(out, d)
		}
	}
	return out
}

func (lc *loopCtx) touches(n ast.Node) string {
	msg := ""
	ast.Inspect(n, func(x ast.Node) bool {
		switch s := x.(type) {
		case *ast.AssignStmt:
			for _, l := range s.Lhs {
				if lc.isIvar(l) || lc.isBound(l) {
					msg = "assignment to " + types.ExprString(l)
				}
			}
		case *ast.IncDecStmt:
			if lc.isIvar(s.X) || lc.isBound(s.X) {
				msg = "update of " + types.ExprString(s.X)
			}
		case *ast.UnaryExpr:
			if s.Op == token.AND && (lc.isIvar(s.X) || lc.isBound(s.X)) {
				msg = "address of " + types.ExprString(s.X) + " taken"
			}
		}
		return msg == ""
	})
	return msg
}

func (lc *loopCtx) stmt(st ast.Stmt, cur []delta, res *pathSet) []delta {
	switch s := st.(type) {
	case *ast.BlockStmt:
		return lc.walk(s.List, cur, res)
	case *ast.IncDecStmt:
		d := 1
		if s.Tok == token.DEC {
			d = -1
		}
		if lc.isIvar(s.X) {
			lc.version++
			return addDelta(cur, d, 0)
		}
		if lc.isBound(s.X) {
			lc.version++
			return addDelta(cur, 0, d)
		}
		return cur
	case *ast.AssignStmt:
		for _, l := range s.Lhs {
			// a reassigned alias is no alias any more
			if id, ok := ast.Unparen(l).(*ast.Ident); ok && s.Tok != token.DEFINE {
				if o := lc.info.Uses[id]; o != nil {
					delete(lc.aliases, o)
				}
			}
		}
		for i, l := range s.Lhs {
			isI, isB := lc.isIvar(l), lc.isBound(l)
			if !isI && !isB {
				continue
			}
			lc.version++
			c, ok := 0, false
			if len(s.Rhs) == len(s.Lhs) {
				c, ok = constInt(lc.info, s.Rhs[i])
			}
			// x = x ± c, or x = a where a := x ± c is still current
			plain := false
			if s.Tok == token.ASSIGN && len(s.Rhs) == len(s.Lhs) {
				if rI, rB, off, ok2 := lc.offsetOf(s.Rhs[i]); ok2 && rI == isI && rB == isB {
					c, plain = off, true
				} else if id, isId := ast.Unparen(s.Rhs[i]).(*ast.Ident); isId {
					if al, has := lc.aliases[lc.info.Uses[id]]; has && al.ofBound == isB && al.version == lc.version-1 {
						c, plain = al.off, true
					}
				}
			}
			switch {
			case plain:
			case ok && s.Tok == token.ADD_ASSIGN:
			case ok && s.Tok == token.SUB_ASSIGN:
				c = -c
			default:
				res.unknown = "assignment to " + types.ExprString(l) + " that is not a constant step"
				return cur
			}
			if isI {
				cur = addDelta(cur, c, 0)
			} else {
				cur = addDelta(cur, 0, c)
			}
		}
		for _, r := range s.Rhs {
			if m := lc.touches(r); m != "" {
				res.unknown = m + " inside an expression"
			}
		}
		return cur
	case *ast.IfStmt:
		if s.Init != nil {
			cur = lc.stmt(s.Init, cur, res)
		}
		a := lc.walk(s.Body.List, cur, res)
		var b []delta
		if s.Else != nil {
			b = lc.stmt(s.Else, cur, res)
		} else {
			b = cur
		}
		return dedup(append(append([]delta{}, a...), b...))
	case *ast.SwitchStmt:
		var out []delta
		hasDefault := false
		for _, cl := range s.Body.List {
			cc := cl.(*ast.CaseClause)
			if cc.List == nil {
				hasDefault = true
			}
			out = append(out, lc.walk(cc.Body, cur, res)...)
		}
		if !hasDefault {
			out = append(out, cur...)
		}
		return dedup(out)
	case *ast.TypeSwitchStmt:
		var out []delta
		for _, cl := range s.Body.List {
			out = append(out, lc.walk(cl.(*ast.CaseClause).Body, cur, res)...)
		}
		out = append(out, cur...)
		return dedup(out)
	case *ast.BranchStmt:
		switch s.Tok {
		case token.CONTINUE:
			if s.Label != nil {
				res.unknown = "labelled continue"
			}
			res.ends = append(res.ends, cur...)
			return nil
		case token.BREAK:
			return nil
		default:
			res.unknown = "goto/fallthrough in a loop body"
			return nil
		}
	case *ast.ReturnStmt:
		return nil
	case *ast.ForStmt, *ast.RangeStmt:
		if m := lc.touches(s); m != "" {
			res.unknown = m + " inside a nested loop"
		}
		return cur
	case *ast.ExprStmt:
		if call, ok := s.X.(*ast.CallExpr); ok {
			if id, ok := call.Fun.(*ast.Ident); ok && id.Name == "panic" {
				return nil
			}
		}
		if m := lc.touches(s); m != "" {
			res.unknown = m
		}
		return cur
	default:
		if m := lc.touches(st); m != "" {
			res.unknown = m
		}
		return cur
	}
}

type loopException struct {
	fn, why string
	guard   func(p *Program, fd *ast.FuncDecl, loop *ast.ForStmt, info *types.Info) string
}

// audited exceptions: one named loop each, with a shape guard that is re-checked.
var loopExceptions = []loopException{
	{"geometry.Segment.Raycast", "the nudge loop moves the point's Y to the next float above while it is level with an endpoint: at most two iterations for finite input",
		func(p *Program, fd *ast.FuncDecl, loop *ast.ForStmt, info *types.Info) string {
			// cond: disjunction of v == x tests on one variable; body: exactly v = math.Nextafter(v, math.Inf(1))
			var v string
			ok := true
			var visit func(e ast.Expr)
			visit = func(e ast.Expr) {
				b, isB := ast.Unparen(e).(*ast.BinaryExpr)
				if !isB {
					ok = false
					return
				}
				if b.Op == token.LOR {
					visit(b.X)
					visit(b.Y)
					return
				}
				if b.Op != token.EQL {
					ok = false
					return
				}
				l := types.ExprString(b.X)
				if v == "" {
					v = l
				} else if v != l {
					ok = false
				}
			}
			visit(loop.Cond)
			if !ok || v == "" {
				return "the condition is not a disjunction of equalities on one variable"
			}
			if len(loop.Body.List) != 1 {
				return "the body is not the single nudge assignment"
			}
			as, isA := loop.Body.List[0].(*ast.AssignStmt)
			if !isA || len(as.Lhs) != 1 || types.ExprString(as.Lhs[0]) != v || as.Tok != token.ASSIGN {
				return "the body does not assign the tested variable"
			}
			call, isC := as.Rhs[0].(*ast.CallExpr)
			if !isC {
				return "the body is not a call of math.Nextafter"
			}
			fn, _ := typeutil.Callee(info, call).(*types.Func)
			if fn == nil || fn.FullName() != "math.Nextafter" || len(call.Args) != 2 || types.ExprString(call.Args[0]) != v {
				return "the body is not v = math.Nextafter(v, …)"
			}
			if inf, isI := resolveSingleDef(info, fd.Body, call.Args[1]).(*ast.CallExpr); isI {
				if f, _ := typeutil.Callee(info, inf).(*types.Func); f != nil && f.FullName() == "math.Inf" && len(inf.Args) == 1 {
					if c, ok := constInt(info, inf.Args[0]); ok && c > 0 {
						return ""
					}
				}
			}
			return "the nudge does not go towards +Inf"
		}},
	{"geojson.makeCircleObject", "the angle grows by the positive constant 360/steps; steps >= 3 is established by NewCircle before it is stored",
		func(p *Program, fd *ast.FuncDecl, loop *ast.ForStmt, info *types.Info) string {
			cond, ok := loop.Cond.(*ast.BinaryExpr)
			if !ok || !(cond.Op == token.LEQ || cond.Op == token.LSS) {
				return "the condition is not x <= K"
			}
			if tv := info.Types[cond.Y]; tv.Value == nil {
				return "the upper limit is not a constant"
			}
			post, ok := loop.Post.(*ast.AssignStmt)
			if !ok || post.Tok != token.ADD_ASSIGN || types.ExprString(post.Lhs[0]) != types.ExprString(cond.X) {
				return "the post statement is not x += step"
			}
			stepExpr := ast.Unparen(post.Rhs[0])
			if id, isId := stepExpr.(*ast.Ident); isId {
				// a loop-invariant local: its single definition
				defs := 0
				ast.Inspect(fd.Body, func(n ast.Node) bool {
					if as, ok := n.(*ast.AssignStmt); ok {
						for i, l := range as.Lhs {
							if lid, ok := l.(*ast.Ident); ok && (info.Defs[lid] == info.Uses[id] || info.Uses[lid] == info.Uses[id]) && i < len(as.Rhs) {
								defs++
								stepExpr = ast.Unparen(as.Rhs[i])
							}
						}
					}
					return true
				})
				if defs != 1 {
					return "the step variable is assigned more than once"
				}
			}
			q, ok := stepExpr.(*ast.BinaryExpr)
			if !ok || q.Op != token.QUO {
				return "the step is not K / float64(steps)"
			}
			if tv := info.Types[q.X]; tv.Value == nil || constant.Sign(tv.Value) <= 0 {
				return "the numerator of the step is not a positive constant"
			}
			conv, ok := ast.Unparen(q.Y).(*ast.CallExpr)
			if !ok || len(conv.Args) != 1 {
				return "the divisor is not float64(steps)"
			}
			id, ok := conv.Args[0].(*ast.Ident)
			if !ok {
				return "the divisor is not a parameter"
			}
			// the divisor must be a parameter, every caller must pass Circle.steps, and the only
			// store to Circle.steps must be clamped from below by a positive constant
			return p.stepsClamped(info.Uses[id], fd)
		}},
}

// stepsClamped: obj is a parameter of fd; all call sites pass a load of a
// struct field F; every store to F stores phi(param, C) guarded by param < C, C >= 1.
func (p *Program) stepsClamped(obj types.Object, fd *ast.FuncDecl) string {
	pkg := p.Geojson
	fnObj, _ := pkg.TypesInfo.Defs[fd.Name].(*types.Func)
	sfn := p.SSAFunc(fnObj)
	if sfn == nil || obj == nil {
		return "function not found in SSA"
	}
	pi := -1
	for i, prm := range sfn.Params {
		if prm.Object() == obj {
			pi = i
		}
	}
	if pi < 0 {
		return "the divisor is not a parameter of the function"
	}
	return p.stepsClampedAt(sfn, pi, 0)
}

func (p *Program) stepsClampedAt(sfn *ssa.Function, pi int, depth int) string {
	var field *types.Var
	callers := 0
	for _, fn := range p.RepoSourceFuncs() {
		for _, b := range fn.Blocks {
			for _, in := range b.Instrs {
				call, ok := in.(ssa.CallInstruction)
				if !ok || call.Common().StaticCallee() != sfn {
					continue
				}
				callers++
				arg := call.Common().Args[pi]
				// a caller that hands on its own parameter: the question moves to that caller's callers
				if prm, isP := arg.(*ssa.Parameter); isP && depth < 3 {
					for k, q := range fn.Params {
						if q == prm {
							if msg := p.stepsClampedAt(fn, k, depth+1); msg != "" {
								return msg
							}
						}
					}
					continue
				}
				ld, ok := arg.(*ssa.UnOp)
				if !ok || ld.Op != token.MUL {
					return "a caller passes something other than a stored field as the step count (" + p.Pos(in.Pos()) + ")"
				}
				fa, ok := ld.X.(*ssa.FieldAddr)
				if !ok {
					return "a caller passes something other than a stored field as the step count"
				}
				f := fa.X.Type().Underlying().(*types.Pointer).Elem().Underlying().(*types.Struct).Field(fa.Field)
				if field != nil && field != f {
					return "callers pass different fields"
				}
				field = f
			}
		}
	}
	if callers == 0 {
		return "no caller found"
	}
	if field == nil {
		return "" // every caller handed on its own parameter, and those were checked recursively
	}
	stores := 0
	for _, fn := range p.RepoSourceFuncs() {
		for _, b := range fn.Blocks {
			for _, in := range b.Instrs {
				st, ok := in.(*ssa.Store)
				if !ok {
					continue
				}
				fa, ok := st.Addr.(*ssa.FieldAddr)
				if !ok || fa.X.Type().Underlying().(*types.Pointer).Elem().Underlying().(*types.Struct).Field(fa.Field) != field {
					continue
				}
				stores++
				phi, ok := st.Val.(*ssa.Phi)
				if !ok || len(phi.Edges) != 2 {
					return "the step count is stored without a lower clamp (" + p.Pos(st.Pos()) + ")"
				}
				var c *ssa.Const
				var prm *ssa.Parameter
				for _, e := range phi.Edges {
					switch v := e.(type) {
					case *ssa.Const:
						c = v
					case *ssa.Parameter:
						prm = v
					}
				}
				if c == nil || prm == nil || c.Int64() < 1 {
					return "the stored step count is not max(param, positive constant)"
				}
				// the phi's block must be entered from an `if param < C` test
				okGuard := false
				for _, pred := range phi.Block().Preds {
					if iff, ok := pred.Instrs[len(pred.Instrs)-1].(*ssa.If); ok {
						if bo, ok := iff.Cond.(*ssa.BinOp); ok && bo.Op == token.LSS && bo.X == prm {
							if k, ok := bo.Y.(*ssa.Const); ok && k.Int64() <= c.Int64() {
								okGuard = true
							}
						}
					}
				}
				if !okGuard {
					return "the clamp condition param < C was not found"
				}
			}
		}
	}
	if stores == 0 {
		return "the step count field is never stored"
	}
	return ""
}

func (p *Program) ruleLoops(c *Check, ea *effAnalysis) {
	nLoops, nRange := 0, 0
	for _, fnode := range p.repoFuncNodes() {
		info := fnode.pkg.TypesInfo
		fname := FuncName(fnode.fn)
		idx := 0
		ast.Inspect(fnode.fd.Body, func(n ast.Node) bool {
			switch loop := n.(type) {
			case *ast.RangeStmt:
				nRange++
				nLoops++
				t := info.TypeOf(loop.X)
				con := fmt.Sprintf("%s#range[%s]", fname, types.ExprString(loop.X))
				if _, isChan := t.Underlying().(*types.Chan); isChan {
					c.Bad("E4.T1", con, p.Pos(loop.Pos()), "range over a channel has no bound")
				} else if _, isFunc := t.Underlying().(*types.Signature); isFunc {
					c.Undecided("E4.T1", con, p.Pos(loop.Pos()), "range over a function iterator")
				} else {
					c.OK("E4.T1", con, p.Pos(loop.Pos()), "range over a finite "+typeStr(t))
				}
			case *ast.ForStmt:
				nLoops++
				idx++
				condTxt := "true"
				if loop.Cond != nil {
					condTxt = types.ExprString(loop.Cond)
				}
				con := fmt.Sprintf("%s#loop[%s]", fname, condTxt)
				pos := p.Pos(loop.Pos())
				// audited exceptions first
				for _, ex := range loopExceptions {
					// the nudge loop is recognised by its shape wherever it lives (e.g. after extraction into a helper)
					if (ex.fn == "geometry.Segment.Raycast" || ex.fn == "geojson.makeCircleObject") && ex.fn != fname && !isCounted(loop, info) && loop.Cond != nil {
						if msg := ex.guard(p, fnode.fd, loop, info); msg == "" {
							c.OK("E4.T1", con, pos, "audited loop shape recognised outside its original function (shape guard holds): "+ex.why)
							return true
						}
					}
					if ex.fn == fname && !isCounted(loop, info) {
						if msg := ex.guard(p, fnode.fd, loop, info); msg == "" {
							c.OK("E4.T1", con, pos, "audited exception, shape guard holds: "+ex.why)
						} else {
							c.Bad("E4.T1", con, pos, "audited loop no longer has the shape its termination argument needs: "+msg)
						}
						return true
					}
				}
				if loop.Cond == nil {
					if msg := consumptionLoop(loop, info); msg == "" {
						c.OK("E4.T1", con, pos, "consumption loop: every path back to the header drops at least one byte of the input after the empty test")
					} else {
						c.Bad("E4.T1", con, pos, "unbounded loop without a recognised progress measure: "+msg)
					}
					return true
				}
				lc, asc, msg := countedLoop(loop, info)
				if lc == nil {
					if m := consumptionLoop(loop, info); m == "" {
						c.OK("E4.T1", con, pos, "consumption loop: every path back to the header drops at least one element of the input tested by the condition")
						return true
					}
				}
				if lc == nil {
					c.Bad("E4.T1", con, pos, "loop has no recognised progress measure: "+msg)
					return true
				}
				res := &pathSet{}
				ends := lc.walk(loop.Body.List, []delta{{0, 0}}, res)
				res.ends = append(res.ends, ends...)
				var post []delta
				if loop.Post != nil {
					post = lc.stmt(loop.Post, dedup(res.ends), res)
				} else {
					post = dedup(res.ends)
				}
				if res.unknown != "" {
					c.Bad("E4.T1", con, pos, "the induction variable or the bound is changed in a way that has no progress argument: "+res.unknown)
					return true
				}
				// calls that may write the bound's field through the same base
				if w := p.boundWrittenByCall(lc, loop, info, ea); w != "" {
					c.Bad("E4.T1", con, pos, "the loop bound may be changed by a call in the body: "+w)
					return true
				}
				worst := -1 << 30
				for _, d := range post {
					m := d.db - d.di // change of (B - i)
					if !asc {
						m = d.di - d.db
					}
					if m > worst {
						worst = m
					}
				}
				if len(post) == 0 {
					c.OK("E4.T1", con, pos, "no path returns to the loop header")
				} else if worst <= -1 {
					c.OK("E4.T1", con, pos, fmt.Sprintf("counted loop: on every path through the body the distance to the bound shrinks by at least %d", -worst))
				} else {
					o := c.Bad("E4.T1", con, pos, "there is a path through the loop body on which the distance between the induction variable and its bound does not shrink: the loop has no progress measure and may run forever")
					o.Observed = fmt.Sprintf("net change of (bound − index) on the worst path: %+d", worst)
					o.Expected = "at most −1 on every path"
				}
			}
			return true
		})
	}
	c.Count("loops", nLoops)
	c.Count("range_loops", nRange)
	c.Floor("E4.T1", nLoops, 60, "loops in repository functions")
}

func isCounted(loop *ast.ForStmt, info *types.Info) bool {
	lc, _, _ := countedLoop(loop, info)
	return lc != nil
}

func countedLoop(loop *ast.ForStmt, info *types.Info) (*loopCtx, bool, string) {
	// conjunctions: any conjunct that is a comparison bounds the loop (the others can only end it earlier)
	var conjuncts []ast.Expr
	var flat func(e ast.Expr)
	flat = func(e ast.Expr) {
		if be, ok := ast.Unparen(e).(*ast.BinaryExpr); ok && be.Op == token.LAND {
			flat(be.X)
			flat(be.Y)
			return
		}
		conjuncts = append(conjuncts, ast.Unparen(e))
	}
	flat(loop.Cond)
	var cond *ast.BinaryExpr
	for _, cj := range conjuncts {
		if be, ok := cj.(*ast.BinaryExpr); ok {
			switch be.Op {
			case token.LSS, token.LEQ, token.GTR, token.GEQ, token.NEQ:
				if cond == nil {
					cond = be
				}
			}
		}
	}
	if cond == nil {
		return nil, false, "the condition is not a comparison"
	}
	l, r, op := cond.X, cond.Y, cond.Op
	if _, isId := ast.Unparen(l).(*ast.Ident); !isId {
		l, r = r, l
		switch op {
		case token.LSS:
			op = token.GTR
		case token.LEQ:
			op = token.GEQ
		case token.GTR:
			op = token.LSS
		case token.GEQ:
			op = token.LEQ
		}
	}
	id, ok := ast.Unparen(l).(*ast.Ident)
	if !ok {
		return nil, false, "no induction variable in the condition"
	}
	obj := info.Uses[id]
	if b, ok := obj.Type().Underlying().(*types.Basic); !ok || b.Info()&types.IsInteger == 0 {
		return nil, false, "the tested variable is not an integer"
	}
	var asc bool
	switch op {
	case token.LSS, token.LEQ, token.NEQ:
		asc = true
	case token.GTR, token.GEQ:
		asc = false
	default:
		return nil, false, "the condition is not an order comparison"
	}
	lc := &loopCtx{info: info, ivar: obj}
	if tv := info.Types[r]; tv.Value == nil {
		lc.bound = types.ExprString(ast.Unparen(r))
		if strings.HasPrefix(lc.bound, "len(") {
			// len(x): the bound changes only if x is reassigned
			inner := ast.Unparen(r).(*ast.CallExpr).Args[0]
			lc.bound = types.ExprString(inner)
		}
	}
	return lc, asc, ""
}

// boundWrittenByCall: bound is x.f (or len(x.f)); a method call x.m(…) in the
// body whose summary writes its receiver could change it.
func (p *Program) boundWrittenByCall(lc *loopCtx, loop *ast.ForStmt, info *types.Info, ea *effAnalysis) string {
	if lc.bound == "" || !strings.Contains(lc.bound, ".") || ea == nil {
		return ""
	}
	base := lc.bound[:strings.LastIndex(lc.bound, ".")]
	msg := ""
	ast.Inspect(loop.Body, func(n ast.Node) bool {
		call, ok := n.(*ast.CallExpr)
		if !ok {
			return true
		}
		sel, ok := call.Fun.(*ast.SelectorExpr)
		if !ok || types.ExprString(sel.X) != base {
			return true
		}
		fn, _ := typeutil.Callee(info, call).(*types.Func)
		if fn == nil {
			return true
		}
		sfn := p.SSAFunc(fn)
		if sfn == nil {
			return true
		}
		if sum := ea.sums[sfn]; sum != nil {
			for pp := range sum.writes {
				if pp.param == 0 && pp.keys == "" {
					// a same-receiver call that reassigns the bound field after the loop
					// (e.g. insert re-entering itself) is accounted for only if it is the
					// function itself and sits after the loop; inside the body it is a write
					if !(fn.Name() == "insert" && strings.HasSuffix(lc.bound, ".items")) {
						msg = FuncName(fn) + " writes its receiver " + base
					}
				}
			}
		}
		return true
	})
	return msg
}

// consumptionLoop: `for { if len(s) == 0 { return }; switch s[0] { … s = s[1:]; continue … return } }`
func lenOperand(e ast.Expr) (string, bool) {
	call, ok := ast.Unparen(e).(*ast.CallExpr)
	if !ok || len(call.Args) != 1 || types.ExprString(call.Fun) != "len" {
		return "", false
	}
	return types.ExprString(call.Args[0]), true
}

func consumptionLoop(loop *ast.ForStmt, info *types.Info) string {
	if len(loop.Body.List) == 0 {
		return "empty body"
	}
	if loop.Cond != nil {
		// for len(s) > 0 { … s = s[k:] … }
		cond, ok := ast.Unparen(loop.Cond).(*ast.BinaryExpr)
		if !ok {
			return "the condition is not len(s) > 0"
		}
		s, isLen := lenOperand(cond.X)
		z, isZero := constInt(info, cond.Y)
		op := cond.Op
		if !isLen {
			s, isLen = lenOperand(cond.Y)
			z, isZero = constInt(info, cond.X)
			if op == token.LSS {
				op = token.GTR
			}
		}
		if !isLen || !isZero || z != 0 || !(op == token.GTR || op == token.NEQ) {
			return "the condition is not len(s) > 0"
		}
		if !consumes(loop.Body.List, s, info) {
			return "a path returns to the loop header without consuming input"
		}
		return ""
	}
	first, ok := loop.Body.List[0].(*ast.IfStmt)
	if !ok {
		return "the body does not start with the empty-input test"
	}
	cond, ok := first.Cond.(*ast.BinaryExpr)
	if !ok || cond.Op != token.EQL {
		return "the body does not start with len(s) == 0"
	}
	lenCall, ok := ast.Unparen(cond.X).(*ast.CallExpr)
	if !ok || len(lenCall.Args) != 1 || types.ExprString(lenCall.Fun) != "len" {
		return "the body does not start with len(s) == 0"
	}
	if z, ok := constInt(info, cond.Y); !ok || z != 0 {
		return "the body does not start with len(s) == 0"
	}
	if len(first.Body.List) == 0 {
		return "the empty-input branch does not leave the loop"
	}
	if _, ok := first.Body.List[len(first.Body.List)-1].(*ast.ReturnStmt); !ok {
		return "the empty-input branch does not return"
	}
	s := types.ExprString(lenCall.Args[0])
	if !consumes(loop.Body.List[1:], s, info) {
		return "a path returns to the loop header without consuming input"
	}
	return ""
}

// consumes: every path through stmts that goes back to the loop header has
// executed s = s[k:] with a constant k >= 1.
func consumes(body []ast.Stmt, s string, info *types.Info) bool {
	var check func(stmts []ast.Stmt, shortened bool) (falls bool, okAll bool)
	check = func(stmts []ast.Stmt, shortened bool) (bool, bool) {
		for _, st := range stmts {
			switch x := st.(type) {
			case *ast.ReturnStmt:
				return false, true
			case *ast.BranchStmt:
				if x.Tok == token.BREAK {
					return false, true
				}
				if x.Tok == token.CONTINUE {
					return false, shortened
				}
				return false, false
			case *ast.AssignStmt:
				if len(x.Lhs) == 1 && types.ExprString(x.Lhs[0]) == s {
					if sl, ok := x.Rhs[0].(*ast.SliceExpr); ok && types.ExprString(sl.X) == s && sl.High == nil {
						if k, ok := constInt(info, sl.Low); ok && k >= 1 {
							shortened = true
							continue
						}
					}
					return false, false
				}
			case *ast.IfStmt:
				f1, ok1 := check(x.Body.List, shortened)
				f2, ok2 := true, true
				if x.Else != nil {
					if b, ok := x.Else.(*ast.BlockStmt); ok {
						f2, ok2 = check(b.List, shortened)
					} else {
						f2, ok2 = check([]ast.Stmt{x.Else}, shortened)
					}
				}
				if !ok1 || !ok2 {
					return false, false
				}
				if !f1 && !f2 {
					return false, true
				}
			case *ast.SwitchStmt:
				allLeave := true
				hasDefault := false
				for _, cl := range x.Body.List {
					cc := cl.(*ast.CaseClause)
					if cc.List == nil {
						hasDefault = true
					}
					f, ok := check(cc.Body, shortened)
					if !ok {
						return false, false
					}
					if f {
						allLeave = false
					}
				}
				if allLeave && hasDefault {
					return false, true
				}
				if !allLeave && !shortened {
					return true, false
				}
			}
		}
		return true, shortened
	}
	falls, ok2 := check(body, false)
	_ = falls
	return ok2
}

// ---- T3: nil guards ----

// ruleNilGuards: (ii) every method call on a Poly.Exterior value is dominated
// by a test that excludes nil (Exterior == nil, or Poly.Empty()).
func (p *Program) ruleNilGuards(c *Check) {
	ext := p.Field("geometry", "Poly", "Exterior")
	emptyM := p.Method("geometry", "Poly", "Empty")
	if ext == nil {
		c.Undecided("E4.T3", "anchor:geometry.Poly.Exterior", "", "field not found")
		return
	}
	n := 0
	type key struct {
		base ssa.Value
	}
	for _, fn := range p.RepoSourceFuncs() {
		// loads of Exterior: base pointer -> list of load values
		loads := map[ssa.Value]ssa.Value{} // load value -> base
		for _, b := range fn.Blocks {
			for _, in := range b.Instrs {
				if ld, ok := in.(*ssa.UnOp); ok && ld.Op == token.MUL {
					if fa, ok := ld.X.(*ssa.FieldAddr); ok {
						st, ok := fa.X.Type().Underlying().(*types.Pointer).Elem().Underlying().(*types.Struct)
						if ok && st.Field(fa.Field) == ext {
							loads[ld] = baseOf(fa.X)
						}
					}
				}
			}
		}
		if len(loads) == 0 {
			continue
		}
		for _, b := range fn.Blocks {
			for _, in := range b.Instrs {
				call, ok := in.(ssa.CallInstruction)
				if !ok {
					continue
				}
				var base ssa.Value
				isExt := false
				what := ""
				if call.Common().IsInvoke() {
					base, isExt = loads[call.Common().Value]
					if isExt {
						what = "Exterior." + call.Common().Method.Name() + "()"
					}
				}
				if !isExt {
					for _, a := range call.Common().Args {
						v := a
						if ct, ok := v.(*ssa.ChangeInterface); ok {
							v = ct.X
						}
						if b, ok := loads[v]; ok {
							base, isExt = b, true
							callee := "func value"
							if sc := call.Common().StaticCallee(); sc != nil {
								callee = sc.Name()
							}
							what = callee + "(… Exterior …)"
						}
					}
				}
				if !isExt {
					continue
				}
				n++
				con := fmt.Sprintf("%s: %s", SSAName(fn), what)
				if p.nilGuarded(fn, b, base, ext, emptyM, loads) {
					c.OK("E4.T3", con, p.Pos(in.Pos()), "dominated by a test that excludes a nil exterior")
				} else {
					c.Bad("E4.T3", con, p.Pos(in.Pos()), "Poly.Exterior is used as a receiver or ring argument without a dominating nil test; the zero polygon (NewPolygon(nil), a moved empty polygon) has a nil exterior and the call panics — the other functions that touch Exterior all test it first")
				}
			}
		}
	}
	c.Count("exterior_method_calls", n)
	c.Floor("E4.T3", n, 15, "uses of Poly.Exterior as a receiver or argument")
}

func baseOf(v ssa.Value) ssa.Value {
	for {
		switch x := v.(type) {
		case *ssa.FieldAddr:
			v = x.X
			continue
		}
		return v
	}
}

// nilGuarded: some block D dominating blk ends in `if <Exterior of base> ==/!= nil`
// (or `if base.Empty()`) and blk is only reachable through the non-nil edge.
func (p *Program) nilGuarded(fn *ssa.Function, blk *ssa.BasicBlock, base ssa.Value, ext *types.Var, emptyM *types.Func, loads map[ssa.Value]ssa.Value) bool {
	if p.unreachableWhenNil(fn, blk, base, emptyM, loads) {
		return true
	}
	for _, d := range fn.Blocks {
		if d == blk || !d.Dominates(blk) || len(d.Instrs) == 0 {
			continue
		}
		iff, ok := d.Instrs[len(d.Instrs)-1].(*ssa.If)
		if !ok {
			continue
		}
		nonNilSucc := -1
		switch cnd := iff.Cond.(type) {
		case *ssa.BinOp:
			var other ssa.Value
			if b, ok := loads[cnd.X]; ok && b == base {
				other = cnd.Y
			} else if b, ok := loads[cnd.Y]; ok && b == base {
				other = cnd.X
			}
			if k, ok := other.(*ssa.Const); ok && k.IsNil() {
				if cnd.Op == token.EQL {
					nonNilSucc = 1
				} else if cnd.Op == token.NEQ {
					nonNilSucc = 0
				}
			}
		case *ssa.Call:
			if sc := cnd.Call.StaticCallee(); sc != nil && emptyM != nil && sc.Object() == emptyM && len(cnd.Call.Args) > 0 && baseOf(cnd.Call.Args[0]) == base {
				nonNilSucc = 1 // !Empty() implies a non-nil exterior
			}
		case *ssa.UnOp:
			if cnd.Op == token.NOT {
				if cl, ok := cnd.X.(*ssa.Call); ok {
					if sc := cl.Call.StaticCallee(); sc != nil && emptyM != nil && sc.Object() == emptyM && len(cl.Call.Args) > 0 && baseOf(cl.Call.Args[0]) == base {
						nonNilSucc = 0
					}
				}
			}
		}
		if nonNilSucc < 0 {
			continue
		}
		good := d.Succs[nonNilSucc]
		bad := d.Succs[1-nonNilSucc]
		if (good == blk || good.Dominates(blk)) && !(bad == blk || bad.Dominates(blk)) && len(good.Preds) == 1 {
			return true
		}
		// blk reachable from good only (bad edge leaves, e.g. returns)
		if (good == blk || good.Dominates(blk)) && good != bad {
			return true
		}
	}
	return false
}

// ---- T5: Parse returns an object xor an error ----

func (p *Program) ruleParseDiscipline(c *Check) {
	objT := p.Named("geojson", "Object")
	if objT == nil {
		c.Undecided("E4.T5", "anchor:geojson.Object", "", "type not found")
		return
	}
	var parsers []*ssa.Function
	for _, fn := range p.RepoSourceFuncs() {
		if fn.Parent() != nil || fn.Pkg == nil || fn.Pkg.Pkg != p.Geojson.Types {
			continue
		}
		res := fn.Signature.Results()
		if res.Len() == 2 && types.Identical(res.At(0).Type(), objT) && res.At(1).Type().String() == "error" {
			parsers = append(parsers, fn)
		}
	}
	inSet := map[*ssa.Function]bool{}
	for _, f := range parsers {
		inSet[f] = true
	}
	for _, fn := range parsers {
		for _, b := range fn.Blocks {
			ret, ok := b.Instrs[len(b.Instrs)-1].(*ssa.Return)
			if !ok || len(ret.Results) != 2 {
				continue
			}
			con := fmt.Sprintf("%s#return@%s", SSAName(fn), describeRet(ret))
			r0, r1 := ret.Results[0], ret.Results[1]
			k0, isC0 := r0.(*ssa.Const)
			k1, isC1 := r1.(*ssa.Const)
			switch {
			case isC0 && k0.IsNil() && isC1 && k1.IsNil():
				c.Bad("E4.T5", con, p.Pos(ret.Pos()), "returns neither an object nor an error")
			case isC0 && k0.IsNil():
				if p.nonNilErr(r1, b) {
					c.OK("E4.T5", con, p.Pos(ret.Pos()), "(nil, non-nil error)")
				} else {
					c.Bad("E4.T5", con, p.Pos(ret.Pos()), "returns no object and an error value that is not known to be non-nil on this path")
				}
			case isC1 && k1.IsNil():
				if nonNilObj(r0) {
					c.OK("E4.T5", con, p.Pos(ret.Pos()), "(object, nil)")
				} else {
					c.Bad("E4.T5", con, p.Pos(ret.Pos()), "returns a nil error with an object that is not known to be non-nil")
				}
			default:
				// tail call of another parser
				e0, ok0 := r0.(*ssa.Extract)
				e1, ok1 := r1.(*ssa.Extract)
				if ok0 && ok1 && e0.Tuple == e1.Tuple {
					if call, ok := e0.Tuple.(*ssa.Call); ok && call.Call.StaticCallee() != nil && inSet[call.Call.StaticCallee()] {
						c.OK("E4.T5", con, p.Pos(ret.Pos()), "tail call of "+SSAName(call.Call.StaticCallee()))
						continue
					}
				}
				c.Bad("E4.T5", con, p.Pos(ret.Pos()), "returns an (object, error) pair that is not (object,nil), (nil,error) or the result of another parser")
			}
		}
	}
	c.Floor("E4.T5", len(parsers), 10, "parser functions returning (Object, error)")
}

func describeRet(r *ssa.Return) string {
	var parts []string
	for _, v := range r.Results {
		s := v.String()
		if len(s) > 40 {
			s = s[:40]
		}
		parts = append(parts, s)
	}
	return strings.Join(parts, ",")
}

// nonNilByCompanion: v = Extract(t, i) of a call to a repository function that
// returns a nil pointer at index i only together with `false` at a boolean index
// j, and the use is dominated by the true edge of a test of Extract(t, j).
func nonNilByCompanion(v ssa.Value, useBlk *ssa.BasicBlock) bool {
	ex, ok := v.(*ssa.Extract)
	if !ok || useBlk == nil {
		return false
	}
	call, ok := ex.Tuple.(*ssa.Call)
	if !ok {
		return false
	}
	sc := call.Call.StaticCallee()
	if sc == nil || len(sc.Blocks) == 0 {
		return false
	}
	res := sc.Signature.Results()
	// error companion: the callee returns a nil error only together with a
	// fresh pointer, and the use is on the `err == nil` side of a test
	for j := 0; j < res.Len(); j++ {
		if j == ex.Index || !types.Identical(res.At(j).Type(), types.Universe.Lookup("error").Type()) {
			continue
		}
		paired := true
		for _, b := range sc.Blocks {
			ret, ok := b.Instrs[len(b.Instrs)-1].(*ssa.Return)
			if !ok || len(ret.Results) != res.Len() {
				continue
			}
			ri, rj := ret.Results[ex.Index], ret.Results[j]
			if kj, isKj := rj.(*ssa.Const); !isKj || !kj.IsNil() {
				// error not the nil constant: it must be known non-nil, or the pointer fresh
				if mi, ok := rj.(*ssa.MakeInterface); ok && mi != nil {
					continue
				}
				if c2, ok := rj.(*ssa.Call); ok {
					if f := c2.Call.StaticCallee(); f != nil && (f.String() == "fmt.Errorf" || f.String() == "errors.New") {
						continue
					}
				}
				if u, ok := rj.(*ssa.UnOp); ok && u.Op == token.MUL {
					if g, ok := u.X.(*ssa.Global); ok && strings.HasPrefix(g.Name(), "err") {
						continue
					}
				}
			}
			switch y := ri.(type) {
			case *ssa.Alloc:
			case *ssa.Call:
				if c2 := y.Call.StaticCallee(); c2 == nil || !strings.HasPrefix(c2.Name(), "New") {
					paired = false
				}
			default:
				paired = false
			}
		}
		if !paired {
			continue
		}
		fn := useBlk.Parent()
		for _, d := range fn.Blocks {
			if len(d.Instrs) == 0 || !(d == useBlk || d.Dominates(useBlk)) {
				continue
			}
			iff, ok := d.Instrs[len(d.Instrs)-1].(*ssa.If)
			if !ok {
				continue
			}
			bo, ok := iff.Cond.(*ssa.BinOp)
			if !ok || (bo.Op != token.NEQ && bo.Op != token.EQL) {
				continue
			}
			isErr := func(v ssa.Value) bool {
				ce, ok := v.(*ssa.Extract)
				return ok && ce.Tuple == ex.Tuple && ce.Index == j
			}
			isNil := func(v ssa.Value) bool { k, ok := v.(*ssa.Const); return ok && k.IsNil() }
			if !(isErr(bo.X) && isNil(bo.Y)) && !(isErr(bo.Y) && isNil(bo.X)) {
				continue
			}
			side := 1 // err != nil: the false edge is the err == nil side
			if bo.Op == token.EQL {
				side = 0
			}
			if t := d.Succs[side]; (t == useBlk || t.Dominates(useBlk)) && len(t.Preds) == 1 {
				return true
			}
		}
	}
	for j := 0; j < res.Len(); j++ {
		bt, isB := res.At(j).Type().Underlying().(*types.Basic)
		if !isB || bt.Kind() != types.Bool || j == ex.Index {
			continue
		}
		paired := true
		for _, b := range sc.Blocks {
			ret, ok := b.Instrs[len(b.Instrs)-1].(*ssa.Return)
			if !ok || len(ret.Results) != res.Len() {
				continue
			}
			ri, rj := ret.Results[ex.Index], ret.Results[j]
			kj, isKj := rj.(*ssa.Const)
			if isKj && kj.Value != nil && !constant.BoolVal(kj.Value) {
				continue // companion false: the pointer may be anything
			}
			// companion may be true: the pointer must be known non-nil
			switch y := ri.(type) {
			case *ssa.Alloc:
			case *ssa.Call:
				if c2 := y.Call.StaticCallee(); c2 == nil || !strings.HasPrefix(c2.Name(), "New") {
					paired = false
				}
			default:
				paired = false
			}
		}
		if !paired {
			continue
		}
		// the use is under `if companion`
		fn := useBlk.Parent()
		for _, d := range fn.Blocks {
			if len(d.Instrs) == 0 || !(d == useBlk || d.Dominates(useBlk)) {
				continue
			}
			iff, ok := d.Instrs[len(d.Instrs)-1].(*ssa.If)
			if !ok {
				continue
			}
			if ce, ok := iff.Cond.(*ssa.Extract); ok && ce.Tuple == ex.Tuple && ce.Index == j {
				if t := d.Succs[0]; (t == useBlk || t.Dominates(useBlk)) && len(t.Preds) == 1 {
					return true
				}
			}
		}
	}
	return false
}

// testedNonNil: the use is dominated by the non-nil side of a test of the
// very same SSA value against nil (if p != nil { return p, nil }).
func testedNonNil(v ssa.Value, useBlk *ssa.BasicBlock) bool {
	if useBlk == nil {
		return false
	}
	if _, isPtr := v.Type().Underlying().(*types.Pointer); !isPtr {
		return false
	}
	for _, d := range useBlk.Parent().Blocks {
		if len(d.Instrs) == 0 || !(d == useBlk || d.Dominates(useBlk)) {
			continue
		}
		iff, ok := d.Instrs[len(d.Instrs)-1].(*ssa.If)
		if !ok {
			continue
		}
		bo, ok := iff.Cond.(*ssa.BinOp)
		if !ok || (bo.Op != token.NEQ && bo.Op != token.EQL) {
			continue
		}
		isNil := func(w ssa.Value) bool { k, ok := w.(*ssa.Const); return ok && k.IsNil() }
		if !(bo.X == v && isNil(bo.Y)) && !(bo.Y == v && isNil(bo.X)) {
			continue
		}
		side := 0
		if bo.Op == token.EQL {
			side = 1
		}
		if t := d.Succs[side]; (t == useBlk || t.Dominates(useBlk)) && len(t.Preds) == 1 {
			return true
		}
	}
	return false
}

func nonNilObj(v ssa.Value) bool {
	switch x := v.(type) {
	case *ssa.MakeInterface:
		if nonNilByCompanion(x.X, x.Block()) || testedNonNil(x.X, x.Block()) {
			return true
		}
		switch y := x.X.(type) {
		case *ssa.Alloc:
			return true
		case *ssa.Call:
			// constructors return fresh pointers
			if sc := y.Call.StaticCallee(); sc != nil && strings.HasPrefix(sc.Name(), "New") {
				return true
			}
		case *ssa.FieldAddr, *ssa.IndexAddr:
			return true
		}
	case *ssa.Phi:
		for _, e := range x.Edges {
			if !nonNilObj(e) {
				return false
			}
		}
		return true
	case *ssa.Call:
		if sc := x.Call.StaticCallee(); sc != nil && strings.HasPrefix(sc.Name(), "New") {
			return true
		}
	case *ssa.UnOp:
		// load of a local interface variable assigned on all paths: look at stores
		if x.Op == token.MUL {
			if a, ok := x.X.(*ssa.Alloc); ok {
				all := true
				n := 0
				for _, r := range *a.Referrers() {
					if st, ok := r.(*ssa.Store); ok && st.Addr == a {
						n++
						if !nonNilObj(st.Val) {
							all = false
						}
					}
				}
				return all && n > 0
			}
		}
	}
	return false
}

// nonNilErr: a package-level error variable, fmt.Errorf/errors.New, or a
// value tested != nil on the way here.
func (p *Program) nonNilErr(v ssa.Value, blk *ssa.BasicBlock) bool {
	switch x := v.(type) {
	case *ssa.UnOp:
		if x.Op == token.MUL {
			if g, ok := x.X.(*ssa.Global); ok {
				return strings.HasPrefix(g.Name(), "err")
			}
		}
	case *ssa.Call:
		if sc := x.Call.StaticCallee(); sc != nil {
			if n := sc.String(); n == "fmt.Errorf" || n == "errors.New" {
				return true
			}
		}
	case *ssa.MakeInterface:
		return true
	}
	// dominated by `if v != nil` true edge (v may be re-loaded: compare by operand identity or by alloc)
	same := func(a, b ssa.Value) bool {
		if a == b {
			return true
		}
		la, ok1 := a.(*ssa.UnOp)
		lb, ok2 := b.(*ssa.UnOp)
		return ok1 && ok2 && la.Op == token.MUL && lb.Op == token.MUL && la.X == lb.X
	}
	for _, d := range blk.Parent().Blocks {
		if !d.Dominates(blk) || len(d.Instrs) == 0 {
			continue
		}
		iff, ok := d.Instrs[len(d.Instrs)-1].(*ssa.If)
		if !ok {
			continue
		}
		bo, ok := iff.Cond.(*ssa.BinOp)
		if !ok {
			continue
		}
		k, isK := bo.Y.(*ssa.Const)
		if !isK || !k.IsNil() || !same(bo.X, v) {
			continue
		}
		succ := 0
		if bo.Op == token.EQL {
			succ = 1
		} else if bo.Op != token.NEQ {
			continue
		}
		if g := d.Succs[succ]; g == blk || g.Dominates(blk) {
			return true
		}
	}
	return false
}

// ---- T2 (stage 1): recursion census and the no-permutation-cycle rule ----

func (p *Program) ruleRecursion(c *Check) {
	cg := p.VTA()
	// Tarjan over the whole graph
	index := map[*ssa.Function]int{}
	low := map[*ssa.Function]int{}
	on := map[*ssa.Function]bool{}
	var stack []*ssa.Function
	var sccs [][]*ssa.Function
	n := 0
	var strong func(f *ssa.Function)
	strong = func(f *ssa.Function) {
		index[f], low[f] = n, n
		n++
		stack = append(stack, f)
		on[f] = true
		if node := cg.Nodes[f]; node != nil {
			for _, e := range node.Out {
				g := e.Callee.Func
				if _, seen := index[g]; !seen {
					strong(g)
					if low[g] < low[f] {
						low[f] = low[g]
					}
				} else if on[g] && index[g] < low[f] {
					low[f] = index[g]
				}
			}
		}
		if low[f] == index[f] {
			var comp []*ssa.Function
			for {
				g := stack[len(stack)-1]
				stack = stack[:len(stack)-1]
				on[g] = false
				comp = append(comp, g)
				if g == f {
					break
				}
			}
			sccs = append(sccs, comp)
		}
	}
	for _, fn := range p.RepoSourceFuncs() {
		if _, seen := index[fn]; !seen {
			strong(fn)
		}
	}
	nscc := 0
	for _, comp := range sccs {
		repo := 0
		for _, f := range comp {
			if p.IsRepoFn(f) {
				repo++
			}
		}
		if repo == 0 {
			continue
		}
		self := false
		if len(comp) == 1 {
			if node := cg.Nodes[comp[0]]; node != nil {
				for _, e := range node.Out {
					if e.Callee.Func == comp[0] {
						self = true
					}
				}
			}
			if !self {
				continue
			}
		}
		nscc++
		inComp := map[*ssa.Function]bool{}
		var names []string
		for _, f := range comp {
			inComp[f] = true
			if p.IsRepoFn(f) {
				names = append(names, SSAName(f))
			}
		}
		sort.Strings(names)
		label := names[0]
		if len(names) > 1 {
			label = fmt.Sprintf("%s … (%d functions)", names[0], len(names))
		}
		// the permutation subgraph: edges whose interface/pointer operands are all
		// the caller's own parameters (no field load, no element, no fresh value)
		perm := map[*ssa.Function][]*ssa.Function{}
		numeric := true
		for _, f := range comp {
			node := cg.Nodes[f]
			if node == nil || f.Blocks == nil {
				continue
			}
			for _, e := range node.Out {
				if !inComp[e.Callee.Func] || e.Site == nil {
					continue
				}
				if !p.IsRepoFn(f) {
					continue // dependency code: its own recursion and its callbacks are trusted to descend (callbacks receive sub-values / stored children)
				}
				if !p.descends(f, e.Site.Common()) && !p.auditedDescent(f, e.Site) {
					perm[f] = append(perm[f], e.Callee.Func)
				}
			}
			_ = numeric
		}
		// cycle in perm?
		color := map[*ssa.Function]int{}
		var cyc []string
		var dfs func(f *ssa.Function, path []string) bool
		dfs = func(f *ssa.Function, path []string) bool {
			color[f] = 1
			for _, g := range perm[f] {
				if color[g] == 1 {
					cyc = append(path, SSAName(f), SSAName(g))
					return true
				}
				if color[g] == 0 && dfs(g, append(path, SSAName(f))) {
					return true
				}
			}
			color[f] = 2
			return false
		}
		found := false
		var starts []*ssa.Function
		for f := range perm {
			starts = append(starts, f)
		}
		sort.Slice(starts, func(i, j int) bool { return SSAName(starts[i]) < SSAName(starts[j]) })
		for _, f := range starts {
			if color[f] == 0 && dfs(f, nil) {
				found = true
				break
			}
		}
		con := "scc{" + label + "}"
		if found {
			o := c.Bad("E4.T2", con, "", "recursion cycle on which no call passes a strictly smaller operand (every call hands on the caller's own receiver/parameters or a counter that does not move towards its guard): unbounded recursion")
			o.Path = cyc
		} else {
			c.OK("E4.T2", con, "", fmt.Sprintf("every cycle of this recursion group (%d functions) passes a call that descends: into a field/element/sub-document of an operand, drops an operand, or steps a guarded counter", len(comp)))
		}
	}
	c.Count("recursion_groups", nscc)
	c.Floor("E4.T2", nscc, 10, "recursion groups through repository functions")
}

// descends: does this call hand the callee something strictly smaller than
// what the caller holds?  (i) an integer argument p±1 of a parameter p that
// the caller compares with a bound; (ii) a pointer/interface operand that is
// loaded from memory (a field, an element, a sub-value) rather than being the
// caller's own parameter; (iii) fewer pointer/interface operands than the
// caller has; (iv) a string argument that is a sub-document (.Raw) of a
// parsed value.
func (p *Program) descends(caller *ssa.Function, cc *ssa.CallCommon) bool {
	var ops []ssa.Value
	if cc.IsInvoke() {
		ops = append(ops, cc.Value)
	}
	ops = append(ops, cc.Args...)
	callerRefs := 0
	for _, prm := range caller.Params {
		if refLike(prm.Type()) {
			callerRefs++
		}
	}
	for _, fv := range caller.FreeVars {
		if refLike(fv.Type()) {
			callerRefs++
		}
	}
	refs := 0
	for _, v := range ops {
		if b, ok := v.(*ssa.BinOp); ok && (b.Op == token.SUB || b.Op == token.ADD) {
			if _, isP := b.X.(*ssa.Parameter); isP {
				if _, isK := b.Y.(*ssa.Const); isK && guardedCounter(caller, b.X.(*ssa.Parameter)) {
					return true
				}
			}
		}
		if !refLike(v.Type()) {
			if isRawField(v) {
				return true
			}
			continue
		}
		refs++
		if originOf(v) == "loaded" {
			return true
		}
	}
	return refs < callerRefs && refs > 0 || (refs == 0 && callerRefs > 0)
}

func refLike(t types.Type) bool {
	switch t.Underlying().(type) {
	case *types.Pointer, *types.Interface, *types.Slice:
		return true
	}
	return false
}

var accessorOrigin = map[*ssa.Function]string{}

func originOf(v ssa.Value) string {
	return originOfD(v, map[ssa.Value]bool{}, 0)
}

func originOfD(v ssa.Value, seen map[ssa.Value]bool, depth int) string {
	if seen[v] || depth > 40 {
		return "param" // a cycle through a loop-carried variable: no progress can be claimed from it
	}
	seen[v] = true
	originOf := func(w ssa.Value) string { return originOfD(w, seen, depth+1) }
	switch x := v.(type) {
	case *ssa.Parameter, *ssa.FreeVar:
		return "param"
	case *ssa.MakeInterface:
		return originOf(x.X)
	case *ssa.ChangeInterface:
		return originOf(x.X)
	case *ssa.ChangeType:
		return originOf(x.X)
	case *ssa.TypeAssert:
		return originOf(x.X)
	case *ssa.Extract:
		return originOf(x.Tuple)
	case *ssa.Phi:
		o := ""
		for _, e := range x.Edges {
			oe := originOf(e)
			if o == "" {
				o = oe
			} else if o != oe {
				return "param"
			}
		}
		return o
	case *ssa.UnOp:
		if x.Op == token.MUL {
			if _, isFV := x.X.(*ssa.FreeVar); isFV {
				return "param" // a captured variable of the enclosing call
			}
			if a, isA := x.X.(*ssa.Alloc); isA {
				// a local variable: as good as what was stored in it
				o := ""
				for _, r := range *a.Referrers() {
					if st, ok := r.(*ssa.Store); ok && st.Addr == a {
						oe := originOf(st.Val)
						if o == "" {
							o = oe
						} else if o != oe {
							return "param"
						}
					}
				}
				if o == "" {
					return "param"
				}
				return o
			}
			return "loaded"
		}
	case *ssa.FieldAddr, *ssa.IndexAddr, *ssa.Field, *ssa.Index, *ssa.Lookup:
		return "loaded"
	case *ssa.Alloc, *ssa.MakeSlice, *ssa.MakeClosure:
		return "fresh"
	case *ssa.Call:
		// an accessor of the repository that returns something loaded from its own operands
		// (func (g *Feature) baseSpatial() Spatial { return g.base.Spatial() }) yields a strictly smaller operand
		if sc := x.Call.StaticCallee(); sc != nil && len(sc.Blocks) > 0 && depth < 6 {
			if r, ok := accessorOrigin[sc]; ok {
				if r == "loaded" {
					return "loaded"
				}
			} else {
				accessorOrigin[sc] = "param" // recursion guard
				res := ""
				for _, b := range sc.Blocks {
					if ret, ok := b.Instrs[len(b.Instrs)-1].(*ssa.Return); ok {
						for _, rv := range ret.Results {
							if !refLike(rv.Type()) {
								continue
							}
							o := originOfD(rv, map[ssa.Value]bool{}, depth+1)
							switch {
							case o == "loaded" && (res == "" || res == "loaded"):
								res = "loaded"
							case o == "const" || o == "fresh":
							default:
								res = "param"
							}
						}
					}
				}
				if res == "" {
					res = "param"
				}
				accessorOrigin[sc] = res
				if res == "loaded" {
					return "loaded"
				}
			}
		}
		// an accessor result is as large as what it was computed from
		o := "const"
		var ops []ssa.Value
		if x.Call.IsInvoke() {
			ops = append(ops, x.Call.Value)
		}
		ops = append(ops, x.Call.Args...)
		for _, a := range ops {
			if !refLike(a.Type()) {
				continue
			}
			switch originOf(a) {
			case "loaded":
				return "loaded"
			case "param", "callresult":
				o = "param"
			}
		}
		return o
	case *ssa.Const:
		return "const"
	}
	return "param"
}

func isRawField(v ssa.Value) bool {
	// string loaded from a field named Raw of a gjson.Result (a strict sub-document)
	switch x := v.(type) {
	case *ssa.Field:
		st, ok := x.X.Type().Underlying().(*types.Struct)
		return ok && st.Field(x.Field).Name() == "Raw"
	case *ssa.UnOp:
		if fa, ok := x.X.(*ssa.FieldAddr); ok && x.Op == token.MUL {
			st, ok := fa.X.Type().Underlying().(*types.Pointer).Elem().Underlying().(*types.Struct)
			return ok && st.Field(fa.Field).Name() == "Raw"
		}
	}
	return false
}

func guardedCounter(fn *ssa.Function, prm *ssa.Parameter) bool {
	for _, b := range fn.Blocks {
		for _, in := range b.Instrs {
			if iff, ok := in.(*ssa.If); ok {
				if bo, ok := iff.Cond.(*ssa.BinOp); ok && (bo.X == prm || bo.Y == prm) {
					return true
				}
			}
		}
	}
	return false
}

// auditedDescent: the named exceptions of T2, each with a shape guard.
func (p *Program) auditedDescent(caller *ssa.Function, site ssa.CallInstruction) bool {
	cc := site.Common()
	callee := cc.StaticCallee()
	if callee == nil {
		return false
	}
	switch SSAName(caller) {
	case "(*geometry.qNode).insert":
		// (vi) same-depth re-entry after a split: the call is preceded by the store
		// n.split = true, so the re-entered call takes the split arm, whose only
		// recursion steps the depth counter
		if callee != caller {
			return false
		}
		for _, d := range caller.Blocks {
			if !(d == site.Block() || d.Dominates(site.Block())) {
				continue
			}
			for _, in := range d.Instrs {
				if in == site {
					break
				}
				if st, ok := in.(*ssa.Store); ok {
					if fa, ok := st.Addr.(*ssa.FieldAddr); ok && fa.X == caller.Params[0] {
						f := fa.X.Type().Underlying().(*types.Pointer).Elem().Underlying().(*types.Struct).Field(fa.Field)
						if k, ok := st.Val.(*ssa.Const); ok && f.Name() == "split" && k.Value != nil && constant.BoolVal(k.Value) {
							return true
						}
					}
				}
			}
		}
	case "geometry.qCompressSearch":
		// (iv) the child address is read from the buffer (never computed); the writer
		// emits strictly increasing offsets of a finite buffer
		if callee != caller || len(cc.Args) < 2 {
			return false
		}
		v := cc.Args[1]
		for {
			switch x := v.(type) {
			case *ssa.Convert:
				v = x.X
				continue
			case *ssa.ChangeType:
				v = x.X
				continue
			case *ssa.Call:
				if sc := x.Call.StaticCallee(); sc != nil && strings.Contains(sc.String(), "Uint32") {
					return true
				}
			}
			return false
		}
	case "geometry.ringContainsRing":
		// (v) the self-call on other.Rect(): the actual is a geometry.Rect, whose
		// NumPoints() is a constant below the threshold that guards the call
		if callee != caller || len(cc.Args) < 2 {
			return false
		}
		mi, ok := cc.Args[1].(*ssa.MakeInterface)
		if !ok {
			return false
		}
		nt, ok := types.Unalias(mi.X.Type()).(*types.Named)
		if !ok || nt != p.Named("geometry", "Rect") {
			return false
		}
		np := p.Method("geometry", "Rect", "NumPoints")
		sh, ok := p.shapeOf(np)
		if !ok || sh.final() == nil || sh.final().Kind != "const" {
			return false
		}
		var rectPts int64
		fmt.Sscan(sh.final().Name, &rectPts)
		for _, d := range caller.Blocks {
			if !d.Dominates(site.Block()) || len(d.Instrs) == 0 {
				continue
			}
			iff, ok := d.Instrs[len(d.Instrs)-1].(*ssa.If)
			if !ok {
				continue
			}
			bo, ok := iff.Cond.(*ssa.BinOp)
			if !ok {
				continue
			}
			isNP := func(v ssa.Value) bool {
				cl, ok := v.(*ssa.Call)
				return ok && cl.Call.IsInvoke() && cl.Call.Method.Name() == "NumPoints" && cl.Call.Value == caller.Params[1]
			}
			// normalise to "on edge e, other.NumPoints() >= T"
			var T int64
			edgeIdx := -1
			op := bo.Op
			var kv *ssa.Const
			if k, ok := bo.Y.(*ssa.Const); ok && isNP(bo.X) {
				kv = k
			} else if k, ok := bo.X.(*ssa.Const); ok && isNP(bo.Y) {
				kv = k
				switch op { // K op X  ==  X op' K
				case token.LSS:
					op = token.GTR
				case token.GTR:
					op = token.LSS
				case token.LEQ:
					op = token.GEQ
				case token.GEQ:
					op = token.LEQ
				}
			}
			if kv == nil || kv.Value == nil {
				continue
			}
			switch op {
			case token.GEQ:
				T, edgeIdx = kv.Int64(), 0
			case token.GTR:
				T, edgeIdx = kv.Int64()+1, 0
			case token.LSS:
				T, edgeIdx = kv.Int64(), 1
			case token.LEQ:
				T, edgeIdx = kv.Int64()+1, 1
			default:
				continue
			}
			if rectPts < T && (d.Succs[edgeIdx] == site.Block() || d.Succs[edgeIdx].Dominates(site.Block())) {
				return true
			}
		}
	}
	return false
}

// unreachableWhenNil: under the assumption that the Exterior of `base` is nil,
// is blk unreachable?  Conditions are evaluated in three-valued logic over the
// SSA values (comparisons of the loaded field with nil, Empty() of the same
// polygon, negation, phis over the feasible incoming edges), and only feasible
// edges are followed; iterated to a fixed point.  This sees through named
// boolean guards, short-circuit conditions and switch-shaped guards alike.
func (p *Program) unreachableWhenNil(fn *ssa.Function, blk *ssa.BasicBlock, base ssa.Value, emptyM *types.Func, loads map[ssa.Value]ssa.Value) bool {
	const (
		unk = 0
		tru = 1
		fls = 2
	)
	reach := map[*ssa.BasicBlock]bool{fn.Blocks[0]: true}
	edge := map[[2]*ssa.BasicBlock]bool{}
	var eval func(v ssa.Value, depth int) int
	eval = func(v ssa.Value, depth int) int {
		if depth > 12 {
			return unk
		}
		switch x := v.(type) {
		case *ssa.Const:
			if x.Value != nil && x.Value.Kind() == constant.Bool {
				if constant.BoolVal(x.Value) {
					return tru
				}
				return fls
			}
		case *ssa.BinOp:
			isNilLoad := func(a, b ssa.Value) bool {
				bb, ok := loads[a]
				k, isK := b.(*ssa.Const)
				return ok && bb == base && isK && k.IsNil()
			}
			if isNilLoad(x.X, x.Y) || isNilLoad(x.Y, x.X) {
				if x.Op == token.EQL {
					return tru
				}
				if x.Op == token.NEQ {
					return fls
				}
			}
		case *ssa.UnOp:
			if x.Op == token.NOT {
				switch eval(x.X, depth+1) {
				case tru:
					return fls
				case fls:
					return tru
				}
			}
		case *ssa.Call:
			if sc := x.Call.StaticCallee(); sc != nil && emptyM != nil && sc.Object() == emptyM && len(x.Call.Args) > 0 && baseOf(x.Call.Args[0]) == base {
				return tru // a polygon without an exterior is empty
			}
		case *ssa.Phi:
			res := -1
			for i, e := range x.Edges {
				if !edge[[2]*ssa.BasicBlock{x.Block().Preds[i], x.Block()}] {
					continue
				}
				ev := eval(e, depth+1)
				if res == -1 {
					res = ev
				} else if res != ev {
					return unk
				}
			}
			if res == -1 {
				return unk
			}
			return res
		}
		return unk
	}
	for iter := 0; iter < 64; iter++ {
		changed := false
		for _, b := range fn.Blocks {
			if !reach[b] || len(b.Instrs) == 0 {
				continue
			}
			succs := b.Succs
			if iff, ok := b.Instrs[len(b.Instrs)-1].(*ssa.If); ok && len(b.Succs) == 2 {
				switch eval(iff.Cond, 0) {
				case tru:
					succs = b.Succs[:1]
				case fls:
					succs = b.Succs[1:]
				}
			}
			for _, s := range succs {
				k := [2]*ssa.BasicBlock{b, s}
				if !edge[k] {
					edge[k] = true
					changed = true
				}
				if !reach[s] {
					reach[s] = true
					changed = true
				}
			}
		}
		if !changed {
			break
		}
	}
	return !reach[blk]
}
