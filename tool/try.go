package main

import (
	"fmt"
	"os"
	"path/filepath"
	"runtime"
	"sort"
	"strings"
)

// cmdTry: developer aid — geoverif try <patch.diff|witness-id> [Cxx ...]
// analyses the variant under every (or the named) property check and prints
// the obligations that fail on the variant but not on the current tree.
func cmdTry(args []string) int {
	if len(args) < 1 {
		usage()
	}
	repo := repoDir("")
	w := &Witness{ID: args[0]}
	if strings.HasSuffix(args[0], ".diff") {
		abs, _ := filepath.Abs(args[0])
		rel, err := filepath.Rel(verifDir(), abs)
		if err != nil {
			fmt.Println(err)
			return 2
		}
		w.Patch = rel
	} else {
		ws, _ := loadWitnesses()
		found := false
		for i := range ws {
			if ws[i].ID == args[0] {
				w = &ws[i]
				found = true
			}
		}
		if !found {
			fmt.Println("unknown witness", args[0])
			return 2
		}
	}
	ov, ok, err := overlayFor(w, repo)
	if err != nil || !ok {
		fmt.Println("variant does not apply:", err)
		return 2
	}
	var ids []string
	if len(args) > 1 {
		ids = args[1:]
	} else {
		for id := range properties {
			ids = append(ids, id)
		}
	}
	sort.Strings(ids)
	for _, id := range ids {
		def := properties[id]
		if def == nil {
			continue
		}
		base, _ := runProperty(def, "quick", repo, "", nil)
		bf := map[string]bool{}
		for _, o := range base.Obs {
			if o.st != Discharged {
				bf[o.Key()] = true
			}
		}
		base = nil
		runtime.GC()
		mut, _ := runProperty(def, "quick", repo, "", ov)
		n := 0
		for _, o := range mut.Obs {
			if o.st != Discharged && !bf[o.Key()] {
				n++
				fmt.Printf("%s %s %s :: %s\n    %s\n", id, strings.ToUpper(o.Status), o.Rule, o.Construct, o.Detail)
				if o.Expected != "" {
					fmt.Printf("    expected: %s\n    observed: %s\n", o.Expected, o.Observed)
				}
			}
		}
		if n == 0 {
			fmt.Printf("%s silent\n", id)
		}
		mut = nil
		runtime.GC()
	}
	return 0
}

func dumpObs(c *Check) {
	if os.Getenv("GEOVERIF_DUMP") == "" {
		return
	}
	for _, o := range c.Obs {
		fmt.Printf("  [%s] %s :: %s @%s — %s\n", o.Status, o.Rule, o.Construct, o.Pos, o.Detail)
	}
}
