package main

import (
	"fmt"
	"go/ast"
	"go/token"
	"go/types"
	"sort"
	"strings"
)

// E13 — sign-domain model check of the streaming convexity test (C18).
//
// The part of processPoints' loop body that updates the convexity state reads
// the turn only through its sign.  The engine runs that statement slice on
// the abstract domain {-,0,+} for floats (small integers and booleans stay
// concrete), explores every reachable state of the loop-carried variables
// under every sequence of turn signs, and checks against the definition:
// the ring is flagged concave exactly when a left and a right turn have both
// been seen (zero turns are ignored).  Any implementation expressible in the
// sign domain is accepted; a wrong one yields a counterexample sign sequence.

// signOf evaluates the sign (-1,0,1) of an atom name built by the interpreter.
func signOf(name string, base map[string]int) (int, bool) {
	if s, ok := base[name]; ok {
		return s, true
	}
	if f, ok := numericAtom(name); ok {
		switch {
		case f < 0:
			return -1, true
		case f > 0:
			return 1, true
		}
		return 0, true
	}
	if strings.HasPrefix(name, "(-") && strings.HasSuffix(name, ")") && balanced(name[2:len(name)-1]) {
		if s, ok := signOf(name[2:len(name)-1], base); ok {
			return -s, true
		}
	}
	if strings.HasPrefix(name, "(") && strings.HasSuffix(name, ")") {
		inner := name[1 : len(name)-1]
		depth := 0
		for i := 0; i < len(inner); i++ {
			switch inner[i] {
			case '(':
				depth++
			case ')':
				depth--
			case '*', '/':
				if depth == 0 && i > 0 {
					l, ok1 := signOf(inner[:i], base)
					r, ok2 := signOf(inner[i+1:], base)
					if ok1 && ok2 {
						if inner[i] == '/' && r == 0 {
							return 0, false
						}
						return l * r, true
					}
					return 0, false
				}
			}
		}
	}
	return 0, false
}

func balanced(s string) bool {
	d := 0
	for _, ch := range s {
		switch ch {
		case '(':
			d++
		case ')':
			d--
			if d < 0 {
				return false
			}
		}
	}
	return d == 0
}

func (p *Program) ruleConvexFSM(c *Check) {
	fn := p.Func("geometry", "processPoints")
	fd, pkg := p.Decl(fn), p.DeclPkg(fn)
	con := "geometry.processPoints#convex-fsm"
	if fd == nil {
		c.Undecided("E13.fsm", con, "", "function not found")
		return
	}
	info := pkg.TypesInfo
	// the flag: first result is `!flag`
	var flagObj types.Object
	ast.Inspect(fd.Body, func(n ast.Node) bool {
		if ret, ok := n.(*ast.ReturnStmt); ok && len(ret.Results) >= 1 {
			if u, ok := ast.Unparen(ret.Results[0]).(*ast.UnaryExpr); ok && u.Op == token.NOT {
				if id, ok := u.X.(*ast.Ident); ok {
					flagObj = info.Uses[id]
				}
			}
		}
		return true
	})
	// the slice: statements of the main loop after `if flag { continue }`
	var slice []ast.Stmt
	ast.Inspect(fd.Body, func(n ast.Node) bool {
		fs, ok := n.(*ast.ForStmt)
		if !ok || slice != nil {
			return true
		}
		for i, st := range fs.Body.List {
			if is, ok := st.(*ast.IfStmt); ok && len(is.Body.List) == 1 {
				if br, ok := is.Body.List[0].(*ast.BranchStmt); ok && br.Tok == token.CONTINUE {
					if id, ok := is.Cond.(*ast.Ident); ok && flagObj != nil && info.Uses[id] == flagObj {
						slice = fs.Body.List[i+1:]
					}
				}
			}
		}
		return true
	})
	if flagObj == nil || slice == nil {
		c.Undecided("E13.fsm", con, p.declPos(fn), "the convexity update (statements after `if concave { continue }`) was not found")
		return
	}
	// the turn: the first := in the slice whose right-hand side is arithmetic
	var turnObj types.Object
	start := 0
	for i, st := range slice {
		if as, ok := st.(*ast.AssignStmt); ok && as.Tok == token.DEFINE && len(as.Lhs) == 1 && hasArithmetic(as) {
			if id, ok := as.Lhs[0].(*ast.Ident); ok {
				turnObj = info.Defs[id]
				start = i + 1
				break
			}
		}
	}
	if turnObj == nil {
		c.Undecided("E13.fsm", con, p.declPos(fn), "the turn (cross product) variable was not found")
		return
	}
	body := slice[start:]
	// loop-carried state: identifiers assigned in the slice, declared outside it
	stateObjs := map[types.Object]bool{}
	for _, st := range body {
		ast.Inspect(st, func(n ast.Node) bool {
			if as, ok := n.(*ast.AssignStmt); ok && as.Tok != token.DEFINE {
				for _, l := range as.Lhs {
					if id, ok := l.(*ast.Ident); ok {
						if o := info.Uses[id]; o != nil {
							stateObjs[o] = true
						}
					}
				}
			}
			return true
		})
	}
	var objs []types.Object
	for o := range stateObjs {
		objs = append(objs, o)
	}
	sort.Slice(objs, func(i, j int) bool { return objs[i].Name() < objs[j].Name() })
	type stval struct {
		kind byte // b bool, i int, s sign
		n    int
	}
	type state struct {
		vals           string // encoded
		seenPos, seenNeg bool
	}
	enc := func(vs []stval) string {
		var parts []string
		for _, v := range vs {
			parts = append(parts, fmt.Sprintf("%c%d", v.kind, v.n))
		}
		return strings.Join(parts, ",")
	}
	init := make([]stval, len(objs))
	flagIdx := -1
	for i, o := range objs {
		if o == flagObj {
			flagIdx = i
		}
		switch b := o.Type().Underlying().(*types.Basic); {
		case b.Info()&types.IsBoolean != 0:
			init[i] = stval{'b', 0}
		case b.Info()&types.IsInteger != 0:
			init[i] = stval{'i', 0}
		default:
			init[i] = stval{'s', 0}
		}
	}
	if flagIdx < 0 {
		c.Undecided("E13.fsm", con, p.declPos(fn), "the concave flag is not updated in the slice")
		return
	}
	var failure string
	run := func(vs []stval, turn int) (out []stval) {
		defer func() {
			if r := recover(); r != nil {
				if e, ok := r.(e8err); ok {
					failure = e.msg
					out = nil
					return
				}
				panic(r)
			}
		}()
		base := map[string]int{"0": 0, turnObj.Name(): turn}
		fr := newFrame(pkg)
		fr.vars[turnObj] = &val{k: kScalar, name: turnObj.Name()}
		for i, o := range objs {
			switch vs[i].kind {
			case 'b':
				fr.vars[o] = &val{k: kBool, b: vs[i].n == 1}
			case 'i':
				fr.vars[o] = &val{k: kInt, n: int64(vs[i].n)}
			default:
				fr.vars[o] = &val{k: kScalar, name: o.Name()}
				base[o.Name()] = vs[i].n
			}
		}
		a := &e8assign{rank: map[string]int{}, bools: map[string]bool{}, group: func(string) int { return 0 }}
		a.resolve = func(name string) (int, bool) { return signOf(name, base) }
		in := &e8interp{p: p, a: a}
		in.runBody(fr, body)
		out = make([]stval, len(objs))
		for i, o := range objs {
			v := fr.vars[o]
			switch vs[i].kind {
			case 'b':
				n := 0
				if v.k == kBool && v.b {
					n = 1
				}
				out[i] = stval{'b', n}
			case 'i':
				if v.k != kInt {
					e8fail("integer state variable %s received a non-constant value", o.Name())
				}
				out[i] = stval{'i', int(v.n)}
			default:
				var s int
				switch v.k {
				case kScalar:
					sg, ok := signOf(v.name, base)
					if !ok {
						e8fail("the sign of %s cannot be determined", v.name)
					}
					s = sg
				case kInt:
					if v.n > 0 {
						s = 1
					} else if v.n < 0 {
						s = -1
					}
				}
				out[i] = stval{'s', s}
			}
		}
		return out
	}
	type node struct {
		vs               []stval
		seenPos, seenNeg bool
		path             string
	}
	seen := map[string]bool{}
	queue := []node{{init, false, false, ""}}
	explored := 0
	for len(queue) > 0 && failure == "" {
		nd := queue[0]
		queue = queue[1:]
		key := fmt.Sprintf("%s|%v|%v", enc(nd.vs), nd.seenPos, nd.seenNeg)
		if seen[key] {
			continue
		}
		seen[key] = true
		explored++
		concave := nd.vs[flagIdx].n == 1
		if concave != (nd.seenPos && nd.seenNeg) {
			what := "is flagged concave although its turns do not change direction"
			if !concave {
				what = "is flagged convex although it turns both left and right"
			}
			c.Bad("E13.fsm", con, p.declPos(fn), "after the turn signs ["+strings.TrimSpace(nd.path)+"] a ring "+what+": the streaming convexity state does not implement 'no two turns of opposite orientation'")
			return
		}
		if concave {
			continue // `if concave { continue }`: the state is frozen
		}
		for _, t := range []int{-1, 0, 1} {
			out := run(nd.vs, t)
			if out == nil {
				break
			}
			sym := map[int]string{-1: "-", 0: "0", 1: "+"}[t]
			queue = append(queue, node{out, nd.seenPos || t > 0, nd.seenNeg || t < 0, nd.path + " " + sym})
		}
	}
	if failure != "" {
		c.Undecided("E13.fsm", con, p.declPos(fn), "the convexity update is not expressible in the sign domain ("+failure+")")
		return
	}
	c.OK("E13.fsm", con, p.declPos(fn), fmt.Sprintf("model-checked over the sign domain: in all %d reachable states of the loop-carried variables (under every sequence of turn signs) the ring is flagged concave exactly when a left and a right turn have both been seen; zero turns change nothing", explored))
}
