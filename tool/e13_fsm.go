package main

import (
	"fmt"
	"go/ast"
	"go/token"
	"go/types"
	"sort"
	"strings"
)

// E13 — sign-domain model check of the streaming convexity test (C18).
//
// The part of processPoints' loop body that updates the convexity state reads
// the turn only through its sign.  The engine runs that statement slice on
// the abstract domain {-,0,+} for floats (small integers and booleans stay
// concrete), explores every reachable state of the loop-carried variables
// under every sequence of turn signs, and checks against the definition:
// the ring is flagged concave exactly when a left and a right turn have both
// been seen (zero turns are ignored).  Any implementation expressible in the
// sign domain is accepted; a wrong one yields a counterexample sign sequence.

// signOf evaluates the sign (-1,0,1) of an atom name built by the interpreter.
func signOf(name string, base map[string]int) (int, bool) {
	if s, ok := base[name]; ok {
		return s, true
	}
	if f, ok := numericAtom(name); ok {
		switch {
		case f < 0:
			return -1, true
		case f > 0:
			return 1, true
		}
		return 0, true
	}
	if strings.HasPrefix(name, "(-") && strings.HasSuffix(name, ")") && balanced(name[2:len(name)-1]) {
		if s, ok := signOf(name[2:len(name)-1], base); ok {
			return -s, true
		}
	}
	if strings.HasPrefix(name, "(") && strings.HasSuffix(name, ")") {
		inner := name[1 : len(name)-1]
		depth := 0
		for i := 0; i < len(inner); i++ {
			switch inner[i] {
			case '(':
				depth++
			case ')':
				depth--
			case '*', '/':
				if depth == 0 && i > 0 {
					l, ok1 := signOf(inner[:i], base)
					r, ok2 := signOf(inner[i+1:], base)
					if ok1 && ok2 {
						if inner[i] == '/' && r == 0 {
							return 0, false
						}
						return l * r, true
					}
					return 0, false
				}
			}
		}
	}
	return 0, false
}

func balanced(s string) bool {
	d := 0
	for _, ch := range s {
		switch ch {
		case '(':
			d++
		case ')':
			d--
			if d < 0 {
				return false
			}
		}
	}
	return d == 0
}

func (p *Program) ruleConvexFSM(c *Check) {
	fn := p.Func("geometry", "processPoints")
	fd, pkg := p.Decl(fn), p.DeclPkg(fn)
	con := "geometry.processPoints#convex-fsm"
	if fd == nil {
		c.Undecided("E13.fsm", con, "", "function not found")
		return
	}
	info := pkg.TypesInfo
	// the flag: first result is `!flag`
	var flagObj types.Object
	ast.Inspect(fd.Body, func(n ast.Node) bool {
		if ret, ok := n.(*ast.ReturnStmt); ok && len(ret.Results) >= 1 {
			if u, ok := ast.Unparen(ret.Results[0]).(*ast.UnaryExpr); ok && u.Op == token.NOT {
				if id, ok := u.X.(*ast.Ident); ok {
					flagObj = info.Uses[id]
				}
			}
		}
		return true
	})
	// the loop whose body updates the flag
	var loopBody []ast.Stmt
	var loopPos token.Pos
	assignsFlag := func(n ast.Node) bool {
		return mentions(n, func(m ast.Node) bool {
			if as, ok := m.(*ast.AssignStmt); ok {
				for _, l := range as.Lhs {
					if id, ok := l.(*ast.Ident); ok && flagObj != nil && info.Uses[id] == flagObj {
						return true
					}
				}
			}
			return false
		})
	}
	ast.Inspect(fd.Body, func(n ast.Node) bool {
		switch l := n.(type) {
		case *ast.ForStmt:
			if loopBody == nil && assignsFlag(l.Body) {
				loopBody, loopPos = l.Body.List, l.Pos()
			}
		case *ast.RangeStmt:
			if loopBody == nil && assignsFlag(l.Body) {
				loopBody, loopPos = l.Body.List, l.Pos()
			}
		}
		return true
	})
	if flagObj == nil || loopBody == nil {
		c.Undecided("E13.fsm", con, p.declPos(fn), "the loop that updates the convexity flag was not found")
		return
	}
	// backward slice at statement granularity: the variables the flag depends on
	V := map[types.Object]bool{flagObj: true}
	var turnObj types.Object
	isLocalBasic := func(o types.Object) bool {
		v, ok := o.(*types.Var)
		if !ok || v.IsField() || o.Pkg() == nil || o.Parent() == o.Pkg().Scope() {
			return false
		}
		_, basic := o.Type().Underlying().(*types.Basic)
		return basic
	}
	var visit func(list []ast.Stmt, conds []ast.Expr) bool
	addIdents := func(e ast.Node) bool {
		ch := false
		ast.Inspect(e, func(m ast.Node) bool {
			if id, ok := m.(*ast.Ident); ok {
				if o := info.Uses[id]; o != nil && isLocalBasic(o) && !V[o] {
					V[o] = true
					ch = true
				}
			}
			return true
		})
		return ch
	}
	visit = func(list []ast.Stmt, conds []ast.Expr) bool {
		ch := false
		for _, st := range list {
			switch x := st.(type) {
			case *ast.AssignStmt:
				for i, l := range x.Lhs {
					id, ok := l.(*ast.Ident)
					if !ok {
						continue
					}
					o := info.Uses[id]
					if o == nil {
						o = info.Defs[id]
					}
					if o == nil || !V[o] {
						continue
					}
					if hasArithmetic(x) {
						turnObj = o // the turn: defined by arithmetic on the coordinates; an input of the sign domain
						continue
					}
					if i < len(x.Rhs) && addIdents(x.Rhs[i]) {
						ch = true
					}
					for _, cnd := range conds {
						if addIdents(cnd) {
							ch = true
						}
					}
				}
			case *ast.IfStmt:
				nc := append(append([]ast.Expr{}, conds...), x.Cond)
				if visit(x.Body.List, nc) {
					ch = true
				}
				if x.Else != nil {
					if b, ok := x.Else.(*ast.BlockStmt); ok {
						if visit(b.List, nc) {
							ch = true
						}
					} else if visit([]ast.Stmt{x.Else}, nc) {
						ch = true
					}
				}
			case *ast.SwitchStmt:
				for _, cl := range x.Body.List {
					cc := cl.(*ast.CaseClause)
					nc := append([]ast.Expr{}, conds...)
					if x.Tag != nil {
						nc = append(nc, x.Tag)
					}
					nc = append(nc, cc.List...)
					if visit(cc.Body, nc) {
						ch = true
					}
				}
			case *ast.BlockStmt:
				if visit(x.List, conds) {
					ch = true
				}
			}
		}
		return ch
	}
	for i := 0; i < 10 && visit(loopBody, nil); i++ {
	}
	if turnObj == nil {
		c.Undecided("E13.fsm", con, p.declPos(fn), "the turn (cross product) variable was not found among the variables the convexity flag depends on")
		return
	}
	// the statements of the loop body that touch those variables (the definition of the turn is skipped: it stays an input)
	var body []ast.Stmt
	for _, st := range loopBody {
		touches := mentions(st, func(m ast.Node) bool {
			id, ok := m.(*ast.Ident)
			if !ok {
				return false
			}
			o := info.Uses[id]
			if o == nil {
				o = info.Defs[id]
			}
			return o != nil && V[o]
		})
		if touches {
			body = append(body, st)
		}
	}
	// loop-carried state: the variables of the slice declared before the loop
	stateObjs := map[types.Object]bool{}
	for o := range V {
		if o != turnObj && o.Pos() < loopPos {
			if b, ok := o.Type().Underlying().(*types.Basic); ok && (b.Info()&(types.IsBoolean|types.IsInteger|types.IsFloat) != 0) {
				// only variables that the slice assigns are state; others (loop bounds, parameters) would be inputs
				assigned := false
				for _, st := range body {
					if mentions(st, func(m ast.Node) bool {
						if as, ok := m.(*ast.AssignStmt); ok {
							for _, l := range as.Lhs {
								if id, ok := l.(*ast.Ident); ok && info.Uses[id] == o {
									return true
								}
							}
						}
						return false
					}) {
						assigned = true
					}
				}
				if assigned {
					stateObjs[o] = true
				}
			}
		}
	}
	var objs []types.Object
	for o := range stateObjs {
		objs = append(objs, o)
	}
	sort.Slice(objs, func(i, j int) bool { return objs[i].Name() < objs[j].Name() })
	type stval struct {
		kind byte // b bool, i int, s sign
		n    int
	}
	type state struct {
		vals             string // encoded
		seenPos, seenNeg bool
	}
	enc := func(vs []stval) string {
		var parts []string
		for _, v := range vs {
			parts = append(parts, fmt.Sprintf("%c%d", v.kind, v.n))
		}
		return strings.Join(parts, ",")
	}
	init := make([]stval, len(objs))
	flagIdx := -1
	for i, o := range objs {
		if o == flagObj {
			flagIdx = i
		}
		switch b := o.Type().Underlying().(*types.Basic); {
		case b.Info()&types.IsBoolean != 0:
			init[i] = stval{'b', 0}
		case b.Info()&types.IsInteger != 0:
			init[i] = stval{'i', 0}
		default:
			init[i] = stval{'s', 0}
		}
	}
	if flagIdx < 0 {
		c.Undecided("E13.fsm", con, p.declPos(fn), "the concave flag is not updated in the slice")
		return
	}
	var failure string
	run := func(vs []stval, turn int) (out []stval) {
		defer func() {
			if r := recover(); r != nil {
				if e, ok := r.(e8err); ok {
					failure = e.msg
					out = nil
					return
				}
				panic(r)
			}
		}()
		base := map[string]int{"0": 0, turnObj.Name(): turn}
		fr := newFrame(pkg)
		fr.vars[turnObj] = &val{k: kScalar, name: turnObj.Name()}
		for i, o := range objs {
			switch vs[i].kind {
			case 'b':
				fr.vars[o] = &val{k: kBool, b: vs[i].n == 1}
			case 'i':
				fr.vars[o] = &val{k: kInt, n: int64(vs[i].n)}
			default:
				fr.vars[o] = &val{k: kScalar, name: o.Name()}
				base[o.Name()] = vs[i].n
			}
		}
		a := &e8assign{rank: map[string]int{}, bools: map[string]bool{}, group: func(string) int { return 0 }}
		a.resolve = func(name string) (int, bool) { return signOf(name, base) }
		in := &e8interp{p: p, a: a, frozen: map[types.Object]bool{turnObj: true}}
		for _, st := range body {
			if r := in.exec(fr, st); r != nil {
				break // continue / break: the iteration is over
			}
		}
		out = make([]stval, len(objs))
		for i, o := range objs {
			v := fr.vars[o]
			switch vs[i].kind {
			case 'b':
				n := 0
				if v.k == kBool && v.b {
					n = 1
				}
				out[i] = stval{'b', n}
			case 'i':
				if v.k != kInt {
					e8fail("integer state variable %s received a non-constant value", o.Name())
				}
				out[i] = stval{'i', int(v.n)}
			default:
				var s int
				switch v.k {
				case kScalar:
					sg, ok := signOf(v.name, base)
					if !ok {
						e8fail("the sign of %s cannot be determined", v.name)
					}
					s = sg
				case kInt:
					if v.n > 0 {
						s = 1
					} else if v.n < 0 {
						s = -1
					}
				}
				out[i] = stval{'s', s}
			}
		}
		return out
	}
	type node struct {
		vs               []stval
		seenPos, seenNeg bool
		path             string
	}
	seen := map[string]bool{}
	queue := []node{{init, false, false, ""}}
	explored := 0
	for len(queue) > 0 && failure == "" {
		nd := queue[0]
		queue = queue[1:]
		key := fmt.Sprintf("%s|%v|%v", enc(nd.vs), nd.seenPos, nd.seenNeg)
		if seen[key] {
			continue
		}
		seen[key] = true
		explored++
		concave := nd.vs[flagIdx].n == 1
		if concave != (nd.seenPos && nd.seenNeg) {
			what := "is flagged concave although its turns do not change direction"
			if !concave {
				what = "is flagged convex although it turns both left and right"
			}
			c.Bad("E13.fsm", con, p.declPos(fn), "after the turn signs ["+strings.TrimSpace(nd.path)+"] a ring "+what+": the streaming convexity state does not implement 'no two turns of opposite orientation'")
			return
		}
		if concave {
			continue // `if concave { continue }`: the state is frozen
		}
		for _, t := range []int{-1, 0, 1} {
			out := run(nd.vs, t)
			if out == nil {
				break
			}
			sym := map[int]string{-1: "-", 0: "0", 1: "+"}[t]
			queue = append(queue, node{out, nd.seenPos || t > 0, nd.seenNeg || t < 0, nd.path + " " + sym})
		}
	}
	if failure != "" {
		c.Undecided("E13.fsm", con, p.declPos(fn), "the convexity update is not expressible in the sign domain ("+failure+")")
		return
	}
	c.OK("E13.fsm", con, p.declPos(fn), fmt.Sprintf("model-checked over the sign domain: in all %d reachable states of the loop-carried variables (under every sequence of turn signs) the ring is flagged concave exactly when a left and a right turn have both been seen; zero turns change nothing", explored))
}
