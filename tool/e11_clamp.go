package main

import (
	"fmt"
	"go/constant"
	"go/token"
	"math"

	"golang.org/x/tools/go/ssa"
)

// Clamp typestate for geo.RectFromCenter (C14, narrow): at the final degree
// conversion each bound has, on every path, either been assigned an in-range
// constant or passed the not-taken edge of the matching out-of-range test;
// the pole branches and the wrap-around branch assign both longitude bounds.

func constFloat(v ssa.Value) (float64, bool) {
	k, ok := v.(*ssa.Const)
	if !ok || k.Value == nil {
		return 0, false
	}
	switch k.Value.Kind() {
	case constant.Float, constant.Int:
		f, _ := constant.Float64Val(k.Value)
		return f, true
	}
	return 0, false
}

// bounded: v <= K (upper=true) or v >= K (upper=false) on every path, by constants and tests.
func bounded(v ssa.Value, K float64, upper bool, depth int) bool {
	if depth > 8 {
		return false
	}
	if f, ok := constFloat(v); ok {
		if upper {
			return f <= K
		}
		return f >= K
	}
	ph, ok := v.(*ssa.Phi)
	if !ok {
		return false
	}
	for i, e := range ph.Edges {
		if f, ok := constFloat(e); ok {
			if (upper && f <= K) || (!upper && f >= K) {
				continue
			}
			return false
		}
		pred := ph.Block().Preds[i]
		if testedOnPath(ph.Block(), pred, e, K, upper) || bounded(e, K, upper, depth+1) {
			continue
		}
		return false
	}
	return true
}

// testedOnPath: some block D (pred itself or a dominator of it) ends in
// `if e > K'` (upper) resp. `if e < K'` (lower) with K' within the bound and
// the path to pred→join leaves D by the false edge.
func testedOnPath(join, pred *ssa.BasicBlock, e ssa.Value, K float64, upper bool) bool {
	fn := join.Parent()
	for _, d := range fn.Blocks {
		if !(d == pred || d.Dominates(pred)) || len(d.Instrs) == 0 {
			continue
		}
		iff, ok := d.Instrs[len(d.Instrs)-1].(*ssa.If)
		if !ok {
			continue
		}
		bo, ok := iff.Cond.(*ssa.BinOp)
		if !ok || bo.X != e {
			continue
		}
		kk, ok := constFloat(bo.Y)
		if !ok {
			continue
		}
		good := false
		if upper && (bo.Op == token.GTR || bo.Op == token.GEQ) && kk <= K {
			good = true
		}
		if !upper && (bo.Op == token.LSS || bo.Op == token.LEQ) && kk >= K {
			good = true
		}
		if !good {
			continue
		}
		fs := d.Succs[1]
		if d == pred {
			if fs == join {
				return true
			}
			continue
		}
		if fs == pred || fs.Dominates(pred) {
			return true
		}
	}
	return false
}

func (p *Program) ruleClamp(c *Check) {
	fn := p.SSAFunc(p.Func("geo", "RectFromCenter"))
	if fn == nil {
		c.Undecided("E11.clamp", "anchor:geo.RectFromCenter", "", "function not found")
		return
	}
	var ret *ssa.Return
	for _, b := range fn.Blocks {
		if r, ok := b.Instrs[len(b.Instrs)-1].(*ssa.Return); ok {
			if ret != nil {
				c.Undecided("E11.clamp", "geo.RectFromCenter", p.Pos(fn.Pos()), "more than one return: the clamp typestate is checked at a single exit")
				return
			}
			ret = r
		}
	}
	res := fn.Signature.Results()
	if ret == nil || len(ret.Results) != 4 || res.Len() != 4 {
		c.Undecided("E11.clamp", "geo.RectFromCenter", p.Pos(fn.Pos()), "expected four results (minLat, minLon, maxLat, maxLon)")
		return
	}
	type bound struct {
		K     float64
		upper bool
	}
	want := map[string]bound{"minLat": {-math.Pi / 2, false}, "maxLat": {math.Pi / 2, true}, "minLon": {-math.Pi, false}, "maxLon": {math.Pi, true}}
	raw := map[string]ssa.Value{}
	for i, r := range ret.Results {
		name := res.At(i).Name()
		v := r
		// strip the radians→degrees conversion
		if bo, ok := v.(*ssa.BinOp); ok && bo.Op == token.MUL {
			if _, isK := constFloat(bo.Y); isK {
				v = bo.X
			} else if _, isK := constFloat(bo.X); isK {
				v = bo.Y
			}
		}
		raw[name] = v
		b, ok := want[name]
		con := "geo.RectFromCenter#" + name
		if !ok {
			c.Undecided("E11.clamp", con, p.Pos(ret.Pos()), "unexpected result name")
			continue
		}
		side := "at most"
		if !b.upper {
			side = "at least"
		}
		if bounded(v, b.K, b.upper, 0) {
			c.OK("E11.clamp", con, p.Pos(ret.Pos()), fmt.Sprintf("on every path the value converted to degrees is a constant within range or has passed the test that it is %s %.4f rad", side, b.K))
		} else {
			c.Bad("E11.clamp", con, p.Pos(ret.Pos()), fmt.Sprintf("there is a path on which %s reaches the degree conversion without having been clamped to be %s %.4f rad: the rectangle can leave the world bounds", name, side, b.K))
		}
	}
	// widening: every join that clamps a latitude, and the wrap-around join, sets both longitudes to ∓π
	lonPhis := func(v ssa.Value) []*ssa.Phi {
		var out []*ssa.Phi
		for depth := 0; depth < 8; depth++ {
			ph, ok := v.(*ssa.Phi)
			if !ok {
				break
			}
			out = append(out, ph)
			var next ssa.Value
			for _, e := range ph.Edges {
				if _, isK := constFloat(e); !isK {
					next = e
				}
			}
			v = next
		}
		return out
	}
	latClampBlocks := map[*ssa.BasicBlock]bool{}
	for _, nm := range []string{"minLat", "maxLat"} {
		for _, ph := range lonPhis(raw[nm]) {
			for _, e := range ph.Edges {
				if _, isK := constFloat(e); isK {
					latClampBlocks[ph.Block()] = true // a join that assigns the latitude a constant: a pole clamp
				}
			}
		}
	}
	for _, nm := range []string{"minLon", "maxLon"} {
		k := want[nm].K
		blocks := map[*ssa.BasicBlock]bool{}
		for _, ph := range lonPhis(raw[nm]) {
			for _, e := range ph.Edges {
				if f, ok := constFloat(e); ok && f == k {
					blocks[ph.Block()] = true
				}
			}
		}
		missing := 0
		for b := range latClampBlocks {
			if !blocks[b] {
				missing++
			}
		}
		c.Expect(missing == 0 && len(latClampBlocks) >= 2, "E11.widen", "geo.RectFromCenter#"+nm+"@poles", p.Pos(ret.Pos()),
			"wherever a latitude is clamped at a pole this longitude bound is set to the full range",
			"a pole branch clamps the latitude without widening "+nm+" to the full longitude range")
	}
}
