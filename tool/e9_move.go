package main

import (
	"fmt"
	"go/ast"
	"go/types"
	"strings"

	"golang.org/x/tools/go/ssa"
)

// Move (C12 / C04): translation adds deltaX to every X and deltaY to every Y
// of every stored position, passes the deltas on unchanged and in order,
// keeps closedness and index kind, and re-indexes.

func floatParams(fn *ssa.Function) []*ssa.Parameter {
	var out []*ssa.Parameter
	for _, prm := range fn.Params {
		if b, ok := prm.Type().Underlying().(*types.Basic); ok && b.Info()&types.IsFloat != 0 {
			out = append(out, prm)
		}
	}
	return out
}

func (p *Program) ruleMove(c *Check) {
	n := 0
	// (1) value kinds: symbolic result
	for _, typ := range []string{"Point", "Rect", "Segment"} {
		m := p.Method("geometry", typ, "Move")
		con := "geometry." + typ + ".Move"
		sh, ok := p.shapeOf(m)
		if !ok || sh.final() == nil {
			c.Undecided("E9.move", con, p.declPos(m), "Move is not a single composite-literal return")
			continue
		}
		n++
		got := sh.final().String()
		// every X leaf must be (+ <recv…X> p0) and every Y leaf (+ <recv…Y> p1)
		bad := ""
		var walk func(t *Term, path string)
		walk = func(t *Term, path string) {
			if t.Kind == "lit" {
				for i, a := range t.Args {
					k := ""
					if i < len(t.Keys) {
						k = t.Keys[i]
					}
					if k == "" {
						if st, ok := t.Type.Underlying().(*types.Struct); ok && i < st.NumFields() {
							k = st.Field(i).Name()
						}
					}
					walk(a, path+"."+k)
				}
				return
			}
			axis := path[strings.LastIndex(path, ".")+1:]
			want1 := "(+ recv" + path + " p0)"
			want2 := "(+ p0 recv" + path + ")"
			if axis == "Y" {
				want1, want2 = "(+ recv"+path+" p1)", "(+ p1 recv"+path+")"
			}
			if s := t.String(); s != want1 && s != want2 {
				bad = fmt.Sprintf("result%s is %s, expected %s", path, s, want1)
			}
		}
		walk(sh.final(), "")
		if bad == "" {
			c.OK("E9.move", con, p.declPos(m), "every X is X+deltaX and every Y is Y+deltaY: "+got)
		} else {
			c.Bad("E9.move", con, p.declPos(m), "Move is not the translation by (deltaX, deltaY): "+bad)
		}
	}
	// (2) the series: every point is rebuilt as (X+deltaX, Y+deltaY)
	sm := p.SSAFunc(p.Method("geometry", "baseSeries", "Move"))
	if sm == nil {
		c.Undecided("E9.move", "(*geometry.baseSeries).Move", "", "function not found")
	} else {
		n++
		mfn := p.Method("geometry", "baseSeries", "Move")
		mfd := p.Decl(mfn)
		var loopBody []ast.Stmt
		var rangeVal, rangeSrc string
		if mfd != nil {
			ast.Inspect(mfd.Body, func(nd ast.Node) bool {
				switch l := nd.(type) {
				case *ast.ForStmt:
					if loopBody == nil {
						loopBody = l.Body.List
					}
				case *ast.RangeStmt:
					if loopBody == nil {
						loopBody = l.Body.List
						if l.Value != nil {
							rangeVal = types.ExprString(l.Value)
						}
						rangeSrc = types.ExprString(l.X)
						_ = rangeSrc
					}
				}
				return true
			})
		}
		if loopBody == nil {
			c.Undecided("E9.move", "(*geometry.baseSeries).Move#points", p.Pos(sm.Pos()), "the loop that builds the moved points was not found")
		} else {
			before := len(c.Obs)
			p.runE8(c, &e8row{id: "(*geometry.baseSeries).Move#points", fn: mfn,
				what: "point i of the moved series is (source point i).X + deltaX, (source point i).Y + deltaY",
				run: func(in *e8interp) *e8out {
					fr, out := p.bindInputs(in, mfn)
					in.runBody(fr, loopBody)
					return out
				},
				spec: func(a *e8assign, nm *e8names, out *e8out) string {
					// the element written: an entry of fr.named of the form dst[idx]
					var dst *val
					var dstKey string
					for k, v := range out.fr.named {
						if strings.HasSuffix(k, "]") && v != nil && v.k == kStruct && v.f["X"] != nil && strings.HasPrefix(v.f["X"].name, "(") {
							dst, dstKey = v, k
						}
					}
					if dst == nil {
						return "no element of the new point slice is written"
					}
					idx := dstKey[strings.LastIndex(dstKey, "[")+1 : len(dstKey)-1]
					for _, ax := range []struct{ f, delta string }{{"X", "p0"}, {"Y", "p1"}} {
						v := dst.f[ax.f]
						if v == nil || v.k != kScalar {
							return "the moved " + ax.f + " is not a computed coordinate"
						}
						okSrc := false
						var cands []string
						if rangeVal != "" && rangeVal != "_" {
							cands = append(cands, rangeVal+"."+ax.f)
						}
						cands = append(cands, "series.points["+idx+"]."+ax.f, "recv.points["+idx+"]."+ax.f)
						for _, src := range cands {
							if v.name == "("+ax.delta+"+"+src+")" || v.name == "("+src+"+"+ax.delta+")" {
								okSrc = true
							}
						}
						// source spelled through the receiver's identifier
						if !okSrc && strings.HasPrefix(v.name, "(") && strings.HasSuffix(v.name, ")") {
							inner := v.name[1 : len(v.name)-1]
							parts := strings.SplitN(inner, "+", 2)
							if len(parts) == 2 {
								for _, pr := range [][2]string{{parts[0], parts[1]}, {parts[1], parts[0]}} {
									if pr[0] == ax.delta && strings.HasSuffix(pr[1], ".points["+idx+"]."+ax.f) {
										okSrc = true
									}
								}
							}
						}
						if !okSrc {
							return "the moved " + ax.f + " is " + v.name + ", not (source point " + idx + ")." + ax.f + " + delta" + ax.f
						}
					}
					return ""
				}})
			for _, o := range c.Obs[before:] {
				o.Rule = "E9.move"
			}
		}
		// closedness, index kind, re-index
		closedOK, kindOK, reindex := false, false, false
		for _, b := range sm.Blocks {
			for _, in := range b.Instrs {
				switch x := in.(type) {
				case *ssa.Call:
					if sc := x.Call.StaticCallee(); sc != nil {
						switch sc.Name() {
						case "makeSeries":
							for _, a := range x.Call.Args {
								if name, ok := baseLoad(a); ok && name == "closed" {
									closedOK = true
								}
							}
						case "buildIndex":
							reindex = true
						}
					}
				case *ssa.Store:
					if fa, ok := x.Addr.(*ssa.FieldAddr); ok {
						if st, ok := fa.X.Type().Underlying().(*types.Pointer).Elem().Underlying().(*types.Struct); ok && st.Field(fa.Field).Name() == "indexKind" {
							if name, ok := baseLoad(x.Val); ok && name == "indexKind" {
								kindOK = true
							}
						}
					}
				}
			}
		}
		c.Expect(closedOK, "E9.move", "(*geometry.baseSeries).Move#closed", p.Pos(sm.Pos()), "the moved series keeps the source's closedness", "the moved series is not created with the source's closed flag")
		c.Expect(kindOK && reindex, "E9.move", "(*geometry.baseSeries).Move#reindex", p.Pos(sm.Pos()), "the index kind is copied and the index rebuilt for the moved points", "the moved series does not copy the index kind and rebuild its own index")
	}
	// (3) deltas are handed on unchanged and in order
	for _, fn := range p.RepoSourceFuncs() {
		if fn.Name() != "Move" || fn.Pkg == nil || fn.Pkg.Pkg != p.Geom.Types {
			continue
		}
		fp := floatParams(fn)
		if len(fp) != 2 {
			continue
		}
		for _, b := range fn.Blocks {
			for _, in := range b.Instrs {
				call, ok := in.(ssa.CallInstruction)
				if !ok {
					continue
				}
				cc := call.Common()
				name := ""
				if cc.IsInvoke() {
					name = cc.Method.Name()
				} else if sc := cc.StaticCallee(); sc != nil {
					name = sc.Name()
				}
				if name != "Move" {
					continue
				}
				n++
				args := cc.Args
				con := fmt.Sprintf("%s -> Move", SSAName(fn))
				if len(args) >= 2 && args[len(args)-2] == ssa.Value(fp[0]) && args[len(args)-1] == ssa.Value(fp[1]) {
					c.OK("E9.move", con, p.Pos(in.Pos()), "(deltaX, deltaY) passed on unchanged and in order")
				} else {
					c.Bad("E9.move", con, p.Pos(in.Pos()), "a component is moved by something other than the caller's (deltaX, deltaY) in that order: parts of the shape are translated differently")
				}
			}
		}
	}
	c.Floor("E9.move", n, 5, "translation sites")
}
