package main

import "sort"

// PropertyDef binds a property id to the rule instances that decide its
// structural clauses.
type PropertyDef struct {
	ID          string
	Level       string
	Run         func(p *Program, c *Check)
	Explanation string
	RuleText    string
	Trusted     []string
}

var commonTrusted = []string{
	"go/types and go/ssa (golang.org/x/tools v0.29.0) represent the source faithfully",
	"the Go compiler and runtime implement the language specification",
	"the specification tables in /verif/tool transcribe the property statements correctly",
}

var properties = map[string]*PropertyDef{}

func register(d *PropertyDef) {
	if d.Trusted == nil {
		d.Trusted = commonTrusted
	}
	if d.RuleText == "" {
		d.RuleText = "one obligation per rule instance (rule + construct resolved through go/types); an obligation is non-trivial when its construct resolved to real code (it has a source position) and distinct by its rule+construct key"
	}
	properties[d.ID] = d
}

func init() {
	register(&PropertyDef{
		ID: "C09", Level: "other",
		Explanation: "Static dispatch/forwarding conformance (E1) over the type-checked syntax of /repo: A.Within(B) is literally B.Contains(A) for all 12 kinds (A4); every leaf kind forwards Contains/Intersects/Within*/Intersects* to the geometry kernel of its base geometry with the right operand roles (A1-A3, 5x5 Contains and Intersects matrices reduced to kernel terms); Intersects of two different leaf kinds reduces to the same kernel term in both operand orders, i.e. it is symmetric by construction (A6, M-sym); Feature forwards every predicate to its geometry (A5); Spatial() is the receiver (A8); geometry.Rect is the five-point ring of its corners and Rect operands of Poly/Line predicates go through &Poly{Exterior: rect} (A7); Circle's type-switch arms agree between Contains and Intersects and treat Point/SimplePoint/Feature alike (E2 P1/P2). NOT decided: contains=>intersects=>boxes meet, self-containment, symmetry of collection x anything and of Line x Line / Poly x Poly (needs exact kernels).",
		Run: func(p *Program, c *Check) {
			kinds := p.leafKinds(c, "E1")
			c.Floor("E1", len(kinds), 5, "leaf kinds")
			p.ruleA1A2(c, kinds, true, true, "")
			p.ruleA3(c, kinds, true, true)
			p.ruleA4(c)
			p.ruleA5(c, nil)
			p.ruleA6(c, 4)
			p.ruleA7(c)
			p.ruleA8(c)
			rows := p.ruleMatrix(c, kinds, "Contains", 6)
			rows = append(rows, p.ruleMatrix(c, kinds, "Intersects", 6)...)
			c.Notes = append(c.Notes, matrixEvidence(rows)...)
			c.Exhaustive = true
		},
	})
	register(&PropertyDef{
		ID: "C13", Level: "other",
		Explanation: "E2 sibling rules on Circle: P1 (every type test on *Point has its *SimplePoint twin with equal arms), P2 (Contains and Intersects special-case the same operand kinds: Point, SimplePoint, Circle, Feature, Collection), M2 (circle/circle comparisons have the monotonicity and inclusiveness of the statement; point membership is exactly distance(point,centre) <= radius with no other condition), E1.A3c (Point/SimplePoint.Intersects(*Circle) delegates to Circle.Contains, so operand order cannot matter). NOT decided: any distance threshold, radius normalisation, quality of the polygon approximation.",
		Run: func(p *Program, c *Check) {
			p.ruleP1(c)
			p.ruleP2(c)
			p.ruleM2(c)
			kinds := p.leafKinds(c, "E1")
			var pts []*leafKind
			for _, k := range kinds {
				if k.Geom == "Point" {
					pts = append(pts, k)
				}
			}
			p.ruleA3(c, pts, false, true)
		},
	})
	register(&PropertyDef{
		ID: "C19", Level: "other",
		Explanation: "E2.M1 mirrored branches of the hand-unrolled segment kernels (Raycast, IntersectsSegment): every if/else and if/else-if whose condition compares the same field of two points must be an exact mirror under the swap of those points, and every X statement must equal its Y twin; a one-sided operator edit is a contradiction between siblings. NOT decided: the arithmetic (on-segment ratio, nudge, slope, parametric test).",
		Run: func(p *Program, c *Check) {
			p.ruleM1(c, map[string]bool{"geometry.Segment.Raycast": true, "geometry.Segment.IntersectsSegment": true, "geometry.Segment.Rect": true})
			p.ruleB1Searcher(c)
			p.ruleB1(c, nil)
		},
	})
	register(&PropertyDef{
		ID: "C11", Level: "other",
		Explanation: "E8 comparison networks (tabulated over all weak orders of their inputs).",
		Run: func(p *Program, c *Check) {
			var ids []string
			for id := range p.e8Rows() {
				ids = append(ids, id)
			}
			sort.Strings(ids)
			p.ruleE8(c, ids...)
			c.Exhaustive = true
		},
	})
	register(&PropertyDef{
		ID: "C16", Level: "proof",
		Explanation: "E3 effect/ownership analysis.",
		Run: func(p *Program, c *Check) {
			ea := p.ruleEffects(c, false, false)
			p.ruleAccelTables(c, ea)
		},
	})
	register(&PropertyDef{
		ID: "C05", Level: "other",
		Explanation: "E4 termination and totality.",
		Run: func(p *Program, c *Check) {
			ea := p.newEffAnalysis(p.VTA(), false)
			ea.run()
			p.ruleLoops(c, ea)
			p.ruleRecursion(c)
			p.ruleNilGuards(c)
			p.ruleParseDiscipline(c)
		},
	})
	register(&PropertyDef{
		ID: "C17", Level: "other",
		Explanation: "E5 append typestate.",
		Run: func(p *Program, c *Check) {
			p.ruleAppendTypestate(c)
			p.ruleJSONGrammar(c)
			p.ruleMembersNonEmpty(c)
			p.rulePositionIndex(c)
			p.ruleThreeViews(c)
			p.ruleFloatFormat(c)
		},
	})
	register(&PropertyDef{
		ID: "C04", Level: "other",
		Explanation: "E9 index protocol.",
		Run: func(p *Program, c *Check) {
			p.ruleCallbackProtocol(c)
			p.ruleCursor(c)
			p.ruleWidths(c)
			p.ruleBuildIndex(c)
		},
	})
	register(&PropertyDef{
		ID: "C07", Level: "other",
		Explanation: "E7 parser must-check.",
		Run: func(p *Program, c *Check) {
			p.ruleStructuralMinima(c)
			p.ruleMemberScan(c)
			p.ruleOptionPropagation(c)
			p.ruleRequireValid(c)
			p.ruleRepresentationOptions(c)
		},
	})
	register(&PropertyDef{
		ID: "C06", Level: "other",
		Explanation: "E6 writer/reader tables.",
		Run: func(p *Program, c *Check) {
			tmp := NewCheck("tmp", "quick")
			targets := p.ruleMemberScan(tmp)
			p.ruleTypeTables(c, targets)
			p.ruleCircleConvention(c)
			p.ruleFeatureProperties(c)
			p.rulePositionIndex(c)
			p.ruleFloatFormat(c)
		},
	})
	register(&PropertyDef{
		ID: "C10", Level: "other",
		Explanation: "collections.",
		Run: func(p *Program, c *Check) {
			p.ruleCollectionFold(c)
			p.ruleCollectionSearch(c)
			p.ruleFolds(c)
		},
	})
	register(&PropertyDef{
		ID: "C12", Level: "other",
		Explanation: "Move.",
		Run: func(p *Program, c *Check) {
			p.ruleMove(c)
		},
	})
	register(&PropertyDef{
		ID: "C14", Level: "other",
		Explanation: "clamp.",
		Run: func(p *Program, c *Check) {
			p.ruleClamp(c)
		},
	})
}
