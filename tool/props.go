package main

import "sort"

// PropertyDef binds a property id to the rule instances that decide its
// structural clauses.
type PropertyDef struct {
	ID          string
	Level       string
	Run         func(p *Program, c *Check)
	Explanation string
	RuleText    string
	Trusted     []string
}

var commonTrusted = []string{
	"go/types and go/ssa (golang.org/x/tools v0.29.0) represent the source faithfully",
	"the Go compiler and runtime implement the language specification",
	"the specification tables in /verif/tool (expected kernels, closed-box definitions, RFC 7946 minima, constants of the property statements) transcribe the property statements correctly",
}

var properties = map[string]*PropertyDef{}

func register(d *PropertyDef) {
	if d.Trusted == nil {
		d.Trusted = commonTrusted
	}
	if d.RuleText == "" {
		d.RuleText = "one obligation per rule instance (rule + construct resolved through go/types / go/ssa, never by source position); an obligation counts as non-trivial when its construct resolved to real code (it carries a source position) and as distinct by its rule+construct key"
	}
	properties[d.ID] = d
}

func pointKinds(kinds []*leafKind) []*leafKind {
	var out []*leafKind
	for _, k := range kinds {
		if k.Geom == "Point" {
			out = append(out, k)
		}
	}
	return out
}

func effects(p *Program) *effAnalysis {
	ea := p.newEffAnalysis(p.VTA(), false)
	ea.run()
	return ea
}

func init() {
	register(&PropertyDef{
		ID: "C01", Level: "other",
		Explanation: "Decides the structural clauses of point membership: (1) object level = geometry level for point operands — Point/SimplePoint.Within*/Intersects*, the Contains/Intersects matrices of the five leaf kinds and Feature forwarding reduce to the geometry kernel with the right operand roles (E1); Segment.ContainsPoint and Line.ContainsPoint decide by Raycast(p).On (E12); (2) exterior closed / holes open: every ring-kernel call site passes the boundary flag its ring demands and the ring kernels pass it on unchanged; in the parity accumulator 'on' yields the flag and a crossing toggles (E2.B1, B1p); (3) rectangle membership is the closed box, tabulated over all order types (E8); (4) Raycast's comparison prefix and post-nudge exits are exact for every order type and its mirrored halves are mirrors (E8, E2.M1); (5) index independence: only Search may read an index, nobody asks whether one exists, and what is stored as an index was built for that series (E3.own). NOT decided: that ray-cast parity equals exact planar membership (nudge, slope comparison, on-segment ratio) — numerical.",
		Run: func(p *Program, c *Check) {
			kinds := p.leafKinds(c, "E1")
			p.ruleA1A2(c, kinds, true, true, "Point")
			p.ruleA3(c, pointKinds(kinds), true, true)
			p.ruleA5(c, func(n string) bool {
				return n == "WithinPoint" || n == "IntersectsPoint" || n == "Contains" || n == "Intersects"
			})
			p.ruleMatrix(c, kinds, "Contains", 6)
			p.ruleSegmentForwarders(c)
			p.rulePolyHoles(c)
			p.ruleB1(c, nil)
			p.ruleB1Searcher(c)
			p.ruleNudge(c)
			p.ruleM1(c, map[string]bool{"geometry.Segment.Raycast": true})
			p.ruleE8(c, "geometry.Rect.ContainsPoint", "geometry.Segment.Raycast#comparison-prefix", "geometry.Segment.Raycast#post-nudge")
			p.ruleAccelTables(c, effects(p))
			c.Assume("coordinates are finite and not NaN (the order-type tabulation covers every finite input)")
		},
	})
	register(&PropertyDef{
		ID: "C02", Level: "other",
		Explanation: "Decides: (1) symmetry by construction for every pair of different kinds — T1.IntersectsT2 and T2.IntersectsT1 reduce to one kernel term (E1.A6) and the 5x5 object-level Intersects matrix reduces cell by cell to a geometry kernel, equal for both operand orders when the base geometries differ (E1.M); a Rect operand of a Poly/Line predicate is the five-point polygon &Poly{Exterior: rect}; (2) Rect x Rect and the bounding-box prefix of Segment.IntersectsSegment are exact and symmetric for every order type (E8); the unrolled comparisons are mirrors (E2.M1); (3) boundary conventions: exterior tests inclusive, hole tests exclusive at every call site (E2.B1). NOT decided: exactness of the parametric segment test and of ringIntersectsSegment's crossing count; symmetry of Line x Line and Poly x Poly (they are symmetric only if the kernels are exact).",
		Run: func(p *Program, c *Check) {
			kinds := p.leafKinds(c, "E1")
			p.ruleA1A2(c, kinds, false, true, "")
			p.ruleA3(c, kinds, false, true)
			p.ruleA6(c, 4)
			p.ruleA7(c)
			rows := p.ruleMatrix(c, kinds, "Intersects", 6)
			c.Notes = append(c.Notes, matrixEvidence(rows)...)
			p.ruleAccelTables(c, effects(p))
			p.ruleScanExits(c)
			p.rulePolyHoles(c)
			p.ruleB1(c, nil)
			p.ruleM1(c, map[string]bool{"geometry.Segment.IntersectsSegment": true})
			p.ruleE8(c, "geometry.Rect.IntersectsRect", "geometry.Segment.IntersectsSegment#box-prefix", "geometry.Rect.ContainsPoint")
			c.Exhaustive = true
		},
	})
	register(&PropertyDef{
		ID: "C03", Level: "other",
		Explanation: "Decides: (1) A.Within(B) is literally B.Contains(A) for all 12 kinds (E1.A4) and every leaf cell of the Contains matrix reduces to base(A).Contains<B>(base(B)) with container as receiver and containee as argument (E1.A1, A3, M-Contains); (2) 'B is non-empty': every Contains{Line,Poly} kernel of the four geometry kinds rejects an empty containee before it can answer true, directly or through the ring kernel it delegates to (E12.empty); (3) box cases are exact for every order type: Rect.ContainsRect, Rect.ContainsPoint (E8); (4) hole conventions at every ring-kernel call site (E2.B1); (5) the 'all points inside => contained' shortcut is gated by the container ring's own Convex(), and only Rect is convex by constant (E12.convex). NOT decided: the five on-edge cases of ringContainsSegment, the convexity flag itself (see C18), Line.ContainsLine's interval arithmetic.",
		Run: func(p *Program, c *Check) {
			kinds := p.leafKinds(c, "E1")
			p.ruleA4(c)
			p.ruleA1A2(c, kinds, true, false, "")
			p.ruleA3(c, kinds, true, false)
			rows := p.ruleMatrix(c, kinds, "Contains", 6)
			c.Notes = append(c.Notes, matrixEvidence(rows)...)
			p.ruleEmptyContainee(c)
			p.ruleConvexGate(c)
			p.ruleConvexFSM(c)
			p.ruleAccelTables(c, effects(p))
			p.ruleScanExits(c)
			p.rulePolyHoles(c)
			p.ruleB1(c, nil)
			p.ruleE8(c, "geometry.Rect.ContainsRect", "geometry.Rect.ContainsPoint")
			c.Exhaustive = true
		},
	})
	register(&PropertyDef{
		ID: "C04", Level: "other",
		Explanation: "Decides the protocol clauses of the compressed indexes: (I4) in every searcher a 'false' from the callback stops the search at every level (the result is tested, no callback is reachable after it, bool searchers return false), the callback receives (SegmentAt(k), k), and it is pre-filtered by seg.Rect().IntersectsRect(query); (I2) in the readers every read of width w at data[addr] is followed by addr += w; (I3) numBytes never chooses a width too small for the value (tabulated, E8) and appendNum/readNum implement the same byte counts; (I5) buildIndex inserts (box of SegmentAt(i), i) for i from 0; quadtree placement: whenever chooseQuad returns q>=0 the item lies inside quadBounds(bounds,q) (E8 over all order types), Rect.IntersectsRect and the R-tree box operations are exact (E8); an index changes nothing else: only Search reads it, only the builder writes it, it is never shared between series (E3.own); Move re-creates the series and its index (E9.move). NOT decided: that R-tree splitting keeps every entry, full 'exactly once' completeness for arbitrary sizes, byte-layout agreement between compress and the readers beyond cursor/width discipline.",
		Run: func(p *Program, c *Check) {
			p.ruleCallbackProtocol(c)
			p.ruleCursor(c)
			p.ruleLayout(c)
			p.ruleWidthCovers(c)
			p.ruleWidths(c)
			p.ruleBuildIndex(c)
			p.ruleE8(c, "geometry.Rect.IntersectsRect", "geometry.Segment.Rect", "(*geometry.rRect).expand", "(*geometry.rRect).contains", "(*geometry.rRect).intersects", "(*geometry.qNode).chooseQuad+quadBounds")
			p.ruleAccelTables(c, effects(p))
			p.ruleMove(c)
		},
	})
	register(&PropertyDef{
		ID: "C05", Level: "other",
		Explanation: "Decides termination and totality structurally: (T1) every loop of the three packages has a checked progress measure — range loops, counted loops whose distance to the bound shrinks on every path through the body (path-wise net change of index and bound), the consumption loop of Parse, and two audited exceptions whose shape guards are re-checked (Raycast's nudge; the circle polygon's angle loop with steps clamped >= 3 where it is stored); (T2) in every recursion group no cycle consists only of calls that hand on the caller's own operands: each cycle passes a call that descends into a field/element/sub-document, drops an operand or steps a guarded counter (three audited self-calls with shape guards); (T3) every use of Poly.Exterior as receiver or ring argument is dominated by a nil test or !Empty(); (T5) every parser returns (object,nil) xor (nil,error). NOT decided: polynomial running time, stack depth under adversarial nesting, index-out-of-range for data-dependent indices, non-finite coordinates (the nudge loop assumes finite input).",
		Run: func(p *Program, c *Check) {
			p.ruleLoops(c, effects(p))
			p.ruleRecursion(c)
			p.ruleNilGuards(c)
			p.ruleParseDiscipline(c)
			p.ruleStride(c)
			c.Assume("coordinates are finite (math.Nextafter makes progress)")
			c.Assume("dependency code (gjson, pretty, sjson, rtree) terminates and calls its callbacks with sub-values / stored items")
		},
	})
	register(&PropertyDef{
		ID: "C06", Level: "other",
		Explanation: "Decides the structural preconditions of a lossless round trip: writer and reader cannot drift apart — the type string each kind writes is the one whose parser returns that kind, the payload member each writer emits is the one its parser reads (E6.type/key); the Circle writer's skeleton is the Feature/Point/properties{type:Circle,radius,radius_units:m} form and the reader uses exactly those paths, takes 'm' unscaled and builds the Circle from the parsed radius (E6.circle); a Feature always emits properties (E6.props); z/m values of ring k are read at the running position index (E5.pidx); every ordinate is written by the one shortest-round-trip formatter behind the NaN/Inf guard (E5.float); every writer emits one well-formed JSON value on every path (E5.json) and stored member text is a non-empty object (E6.members). NOT decided: byte identity of the second output, gjson's number parsing, duplicate/escaped keys, mixed dimensionality.",
		Run: func(p *Program, c *Check) {
			tmp := NewCheck("tmp", "quick")
			targets := p.ruleMemberScan(tmp)
			p.ruleTypeTables(c, targets)
			p.ruleCircleConvention(c)
			p.ruleFeatureProperties(c)
			p.rulePositionIndex(c)
			p.ruleStride(c)
			p.ruleFloatFormat(c)
			p.ruleJSONGrammar(c)
			p.ruleMembersNonEmpty(c)
		},
	})
	register(&PropertyDef{
		ID: "C07", Level: "other",
		Explanation: "Decides the reject side and the scan discipline: (V1) on the straight path of every typed parser there is a rejecting guard equivalent — for every order type — to the RFC 7946 minimum (line >= 2 positions; polygon >= 1 ring; ring >= 4 positions and closed), positions have >= 2 numeric ordinates, at most four are read, null only in Point/MultiPoint; (V2) the text is validated as a whole first, every reserved member is stored by one unconditional assignment in a single document-order scan (last duplicate wins) and nothing reads the text any other way; missing / non-string type is rejected; (T5) object xor error. NOT decided: numeric equality with a standard decoder, the accept side for every well-formed document.",
		Run: func(p *Program, c *Check) {
			p.ruleStructuralMinima(c)
			p.ruleMemberScan(c)
			p.ruleParseDiscipline(c)
		},
	})
	register(&PropertyDef{
		ID: "C08", Level: "other",
		Explanation: "Decides: (V3) options reach every nested parse/constructor unchanged; (V4) RequireValid is honoured by all nine typed parsers (Valid() tested under it, or children parsed through Parse); (V6/E8) representation options: SimplePoint and Point are built from the same parsed position and only without extras; the AllowRects test selects exactly the axis-parallel rectangles — tabulated over all order types of the five positions — and the Rect is spanned by positions 0 and 2; (P1) a SimplePoint geometry is recognised wherever a Point is (Circle recognition), and (E6.circle) a point feature carrying the Circle convention is read back as a Circle under every combination of representation options; index options influence only accelerator fields, which only Search reads (E3.own), and the index they ask for holds every segment of the series (E9.I5: the build loop runs i = 0 … NumSegments()-1 and no iteration skips the insertion); SimplePoint/Rect cells dispatch like Point/Polygon cells (E1). NOT decided: equality of predicate answers between Rect and its polygon (numerical).",
		Run: func(p *Program, c *Check) {
			p.ruleOptionPropagation(c)
			p.ruleRequireValid(c)
			p.ruleRepresentationOptions(c)
			p.ruleE8(c, "geojson.parseJSONPolygon#AllowRects-condition")
			p.ruleP1(c)
			p.ruleAccelTables(c, effects(p))
			p.ruleBuildIndex(c)
			p.ruleCollectionFold(c)
			p.ruleCircleConvention(c)
			kinds := p.leafKinds(c, "E1")
			p.ruleA1A2(c, kinds, true, true, "")
			p.ruleA7(c)
		},
	})
	register(&PropertyDef{
		ID: "C09", Level: "other",
		Explanation: "Static dispatch/forwarding conformance (E1) over the type-checked syntax of /repo: A.Within(B) is literally B.Contains(A) for all 12 kinds (A4); every leaf kind forwards Contains/Intersects/Within*/Intersects* to the geometry kernel of its base geometry with the right operand roles (A1-A3, 5x5 Contains and Intersects matrices reduced to kernel terms); Intersects of two different leaf kinds reduces to the same kernel term in both operand orders, i.e. it is symmetric by construction (A6, M-sym); point kinds answer a Circle operand by the circle's exact test (A3c); Feature forwards every predicate to its geometry (A5); Spatial() is the receiver (A8); geometry.Rect is the five-point ring of its corners (A7); Circle's type-switch arms agree between Contains and Intersects and treat Point/SimplePoint/Feature alike (E2.P1/P2); the box kernels are exact (E8). NOT decided: contains=>intersects=>boxes meet, self-containment, symmetry of collection x anything and of Line x Line / Poly x Poly (needs exact kernels).",
		Run: func(p *Program, c *Check) {
			kinds := p.leafKinds(c, "E1")
			c.Floor("E1", len(kinds), 5, "leaf kinds")
			p.ruleA1A2(c, kinds, true, true, "")
			p.ruleA3(c, kinds, true, true)
			p.ruleA4(c)
			p.ruleA5(c, nil)
			p.ruleA6(c, 4)
			p.ruleA7(c)
			p.ruleA8(c)
			rows := p.ruleMatrix(c, kinds, "Contains", 6)
			rows = append(rows, p.ruleMatrix(c, kinds, "Intersects", 6)...)
			c.Notes = append(c.Notes, matrixEvidence(rows)...)
			p.ruleCollectionExists(c)
			p.ruleCollectionWithin(c)
			p.ruleP1(c)
			p.ruleP2(c)
			p.ruleE8(c, "geometry.Rect.ContainsRect", "geometry.Rect.IntersectsRect", "geometry.Rect.ContainsPoint")
			c.Exhaustive = true
		},
	})
	register(&PropertyDef{
		ID: "C10", Level: "other",
		Explanation: "Decides: the cached emptiness/rectangle of a collection is the fold over exactly its non-empty children — empty children are skipped first, nothing seeds the accumulator, and the fold step is verified inductively for every order type of the rectangles involved (first non-empty child sets the rectangle, later ones enlarge it to the union, the collection becomes non-empty); unionRects is the exact union (E8); the child index receives exactly (child.Rect(), child) of the non-empty children and the linear arm of Search applies the same two filters, both arms honour early stop (E10, E9.I4); only Search/Indexed read the tree (E3.own); NumPoints is the sum, Valid the conjunction over the children; Empty/Rect return the folded values. NOT decided: the counting logic of Within*, the ∀/∃ composition laws for nested/duplicate children, the dependency rtree.",
		Run: func(p *Program, c *Check) {
			p.ruleCollectionFold(c)
			p.ruleCollectionSearch(c)
			p.ruleCollectionWithin(c)
			p.ruleCollectionExists(c)
			p.ruleFolds(c)
			p.ruleE8(c, "geojson.unionRects", "geometry.Rect.IntersectsRect")
			p.ruleCallbackProtocol(c)
			p.ruleAccelTables(c, effects(p))
		},
	})
	register(&PropertyDef{
		ID: "C11", Level: "other",
		Explanation: "Decides by exhaustive tabulation over order types (E8): processPoints' rectangle is the tight box of all points (base case + inductive step), Segment.Rect, unionRects and rRect.expand are exact min/max selections, Point.Valid / Rect.Valid are the closed lon/lat ranges with the constants of the statement, baseSeries.Empty and the constructor's entry guard use exactly the thresholds 'closed < 3, open < 2'; by forwarding (E12): every leaf kind's Valid/Rect/Empty is its base geometry's, Center is the position (points) or the syntactic midpoint of Rect() (others), Poly.Rect/Empty are its exterior's; ∀-folds of Valid, the collection fold and its cached values (E10). NOT decided: float rounding of the midpoint; holes lying outside the exterior.",
		Run: func(p *Program, c *Check) {
			p.ruleE8(c, "geometry.processPoints#rect-base", "geometry.processPoints#rect-step", "geometry.Segment.Rect", "geojson.unionRects", "(*geometry.rRect).expand",
				"geometry.Point.Valid", "geometry.Rect.Valid", "(*geometry.baseSeries).Empty", "geometry.processPoints#entry-guard", "geometry.Rect.ContainsRect", "geometry.Rect.IntersectsRect", "geometry.Rect.ContainsPoint")
			p.ruleObjectForwarders(c)
			p.ruleFolds(c)
			p.ruleCollectionFold(c)
			p.ruleM1(c, map[string]bool{"geometry.processPoints": true, "geojson.unionRects": true, "geometry.Rect.ContainsRect": true, "geometry.Rect.IntersectsRect": true})
			c.Exhaustive = true
			c.Assume("coordinates are not NaN")
		},
	})
	register(&PropertyDef{
		ID: "C12", Level: "other",
		Explanation: "Decides the clause 'translation via Move' and the closing-segment rule (NumSegments/Empty as functions of length, the closed flag and whether the last position repeats the first, tabulated over all order types — so that a ring written with or without its closing position has the same segments): Point/Rect/Segment.Move return X+deltaX, Y+deltaY for every stored coordinate (symbolic return terms); baseSeries.Move rebuilds point i as (points[i].X+deltaX, points[i].Y+deltaY) with the same index, keeps closedness, copies the index kind and rebuilds the index for the moved points (never shares the old one); Line.Move and Poly.Move hand (deltaX, deltaY) to every ring unchanged and in order. NOT decided: invariance of predicate answers under translation, scaling, reflection, rotation of the start vertex, reversal, or presence of the closing vertex — these relate two numerical executions.",
		Run: func(p *Program, c *Check) {
			p.ruleMove(c)
			p.ruleAccelTables(c, effects(p))
			p.ruleDerivedAttributes(c)
			p.ruleE8(c, "(*geometry.baseSeries).NumSegments", "(*geometry.baseSeries).Empty")
			p.ruleCyclicNeighbours(c)
		},
	})
	register(&PropertyDef{
		ID: "C13", Level: "other",
		Explanation: "E2 sibling rules on Circle: P1 (every type test on *Point has its *SimplePoint twin with equal arms), P2 (Contains and Intersects special-case the same operand kinds: Point, SimplePoint, Circle, Feature, Collection), M2 (circle/circle comparisons have the monotonicity and inclusiveness of the statement; point membership is exactly distance(point,centre) <= radius with no other condition, and the point arms pass the operand's position), E1.A3c (Point/SimplePoint.Intersects(*Circle) delegates to Circle.Contains, so operand order cannot matter); E6: the writer's skeleton and the reader's paths/units agree; E5: radius and centre go through the NaN/Inf-guarded formatter; the steps clamp (>=3) dominates the store and bounds the polygon loop (E4 guard). NOT decided: any distance threshold, radius normalisation, quality of the polygon approximation.",
		Run: func(p *Program, c *Check) {
			p.ruleP1(c)
			p.ruleP2(c)
			p.ruleM2(c)
			kinds := p.leafKinds(c, "E1")
			p.ruleA3(c, pointKinds(kinds), false, true)
			p.ruleCircleConvention(c)
			p.ruleCircleConstructor(c)
			p.ruleGeoCallers(c)
			p.ruleCircleApproximation(c)
			p.ruleGeoAlgebra(c)
			p.ruleGeoUnits(c, map[string]bool{"Haversine": true, "DistanceToHaversine": true, "NormalizeDistance": true, "DestinationPoint": true}, false)
			p.ruleFloatFormat(c)
		},
	})
	register(&PropertyDef{
		ID: "C14", Level: "other",
		Explanation: "Decides only the clause 'the rectangle lies within the world bounds and widens to the full longitude range at a pole / across the antimeridian', as a clamp typestate on RectFromCenter's SSA: at the degree conversion minLat >= -pi/2, maxLat <= pi/2, minLon >= -pi, maxLon <= pi hold on every path (each bound is an in-range constant or passed the not-taken edge of the matching out-of-range test), and every join that clamps a latitude also assigns both longitude bounds to ∓pi. Assumes non-NaN intermediate values. NOT decided: coverage of the disc, the tangent-longitude formula, the tiny-radius guard, NaN freedom.",
		Run: func(p *Program, c *Check) {
			p.ruleGeoScenarios(c)
			p.ruleGeoUnits(c, map[string]bool{"RectFromCenter": true, "DestinationPoint": true}, true)
			c.Assume("intermediate values are not NaN (comparisons with NaN are false and would skip the clamps)")
		},
	})
	register(&PropertyDef{
		ID: "C15", Level: "other",
		Explanation: "Decides, on the formulas in the source (no execution, real arithmetic): (E14.units) every function of the spherical API is dimensionally consistent with its stated units — trigonometric functions receive radians, inverse trigonometric functions pure numbers, sums and comparisons join equal units, results are returned in the stated unit — and never lets a latitude meet a longitude; (E14.range) for all inputs in the stated ranges the distance lies in [0, half circumference], the destination latitude in [-90,90] and longitude in [-180,180], the bearing in [0,360] (interval analysis with the exact ranges of asin/atan2 and Go's sign-preserving Mod); (E14.algebra) identities between the primitives, by normal forms of their terms: metres<->haversine are mutually inverse, the haversine is symmetric, zero on identical locations and equals sin² of half the central angle along a meridian and along the equator, DistanceTo is DistanceFromHaversine of Haversine, NormalizeDistance is idempotent and its modulus is a period of DistanceToHaversine, the semicircle scale factors are reciprocal, travelling zero metres keeps the latitude. NOT decided: every numerical clause (tolerances, conditioning of the bearing, behaviour at the poles and the antipode, rounding), the general inverse relation between DestinationPoint, DistanceTo and BearingTo, strict monotonicity beyond the shape sin²(k·d).",
		Run: func(p *Program, c *Check) {
			p.ruleGeoUnits(c, nil, true)
			p.ruleGeoAlgebra(c)
			p.ruleGeoCallers(c)
		},
	})
	register(&PropertyDef{
		ID: "C16", Level: "proof",
		Explanation: "E3 effect/ownership analysis: a field-sensitive, access-path-limited points-to analysis per function with interprocedural summaries (fixed point over the VTA call graph; closures charged where they are created; dependency callees through an audited effect table). One obligation per exported function and per method in the method sets of the exported types of the three packages (constructors and Parse included): its transitive effect set contains no write to memory that was not allocated during the call (other than the caller-supplied dst of Append*), no write to a global, no goroutine, no channel/sync use, no map iteration, time, randomness or unsafe. Read-only code on shared data cannot race, and a computation without nondeterminism sources over immutable inputs returns the same value under every schedule. Plus the who-may-read/who-may-write tables of the accelerator fields. NOT decided: races inside user-supplied Object implementations or callbacks; mutation by callers through the slices/pointers that Children(), Base() and the non-copying constructors share with them.",
		Trusted: append([]string{
			"VTA over CHA over-approximates dynamic dispatch among the types of the loaded packages",
			"the effect table of dependency callees (math, strconv, encoding/binary, sort, strings, errors, fmt, gjson, pretty, sjson, rtree) in tool/e3_effects.go",
			"no unsafe/reflect/cgo in the repository packages (unsafe conversions are flagged by the analysis)",
		}, commonTrusted...),
		Run: func(p *Program, c *Check) {
			ea := p.ruleEffects(c, false, false)
			p.ruleAccelTables(c, ea)
			if c.Tier == "thorough" {
				p.ruleEffects(c, false, true)
			}
		},
	})
	register(&PropertyDef{
		ID: "C17", Level: "other",
		Explanation: "Decides: the append contract for all 17 writers and helpers (E5.append: the result is prefix ++ f(object); the destination is never re-sliced, indexed, stored or inspected; no stale buffer is reused on any path); every writer emits exactly one well-formed JSON value on every path — a pushdown JSON recogniser is run abstractly over each writer's control-flow graph with first/later-iteration flags for the comma idiom (E5.json), member text is a non-empty object (E6.members); JSON(), String(), MarshalJSON() are AppendJSON(nil) of the same object for all 12 kinds (E5.views); every float is written by the one formatter behind the NaN/Inf guard, non-finite values as null (E5.float); the \"type\" written names the kind's GeoJSON type and the payload member is the one that type requires (E6); a Feature always emits properties (E6.props); the position index continues across rings (E5.pidx). NOT decided: coordinate nesting depth of Multi* (they splice a child's own coordinates member), member strings containing reserved keys, that spliced member text is itself valid JSON (guarded by gjson.Valid at construction).",
		Run: func(p *Program, c *Check) {
			p.ruleAppendTypestate(c)
			p.ruleJSONGrammar(c)
			p.ruleMembersNonEmpty(c)
			p.rulePositionIndex(c)
			p.ruleThreeViews(c)
			p.ruleFloatFormat(c)
			tmp := NewCheck("tmp", "quick")
			p.ruleTypeTables(c, p.ruleMemberScan(tmp))
			p.ruleFeatureProperties(c)
			c.Assume("the coordinates member extracted from a child's own output is a JSON value (the child writer is checked by the same rule)")
		},
	})
	register(&PropertyDef{
		ID: "C18", Level: "other",
		Explanation: "Decides only the segment-count clause and the write-once discipline: NumSegments and Empty are tabulated over (len, closed, last==first) against 'open n-1, closed n-1 when the last point repeats the first else n, 0 below the thresholds' (E8); convex, clockwise, rect, closed and points of a series are written only by the constructor (plus the stack-local two-point line of Line.ContainsPoly), from the constructor's own points and closed flag (E12.attr); only Rect is convex by constant (E12.convex). NOT decided: convexity and orientation themselves — turn signs and shoelace sums are arithmetic (the seam defect D8 recorded in DESIGN.md is out of reach).",
		Run: func(p *Program, c *Check) {
			p.ruleE8(c, "(*geometry.baseSeries).NumSegments", "(*geometry.baseSeries).Empty", "geometry.processPoints#entry-guard")
			p.ruleDerivedAttributes(c)
			p.ruleConvexGate(c)
			p.ruleCyclicNeighbours(c)
			p.ruleConvexFSM(c)
			c.Exhaustive = true
		},
	})
	register(&PropertyDef{
		ID: "C19", Level: "other",
		Explanation: "Decides: ContainsPoint is Raycast(p).On and ContainsSegment is 'both endpoints On' (E12); the comparison prefix of Raycast (band test, zero-length / horizontal / vertical on-segment cases) and its post-nudge early exits are exact for every order type; the bounding-box prefix of IntersectsSegment returns false exactly for disjoint boxes and true only for a shared endpoint; Segment.Rect is the exact box; eqZero is the two-sided zero test (E8, exhaustive); every if/else whose condition compares the same field of two points is an exact mirror under the swap and every X statement equals its Y twin (E2.M1). NOT decided: the on-segment ratio test, the nudge, the slope comparison, the parametric t/u test, collinear overlap — arithmetic (the pinned kernel misses some collinear-overlap cases; see DESIGN.md).",
		Run: func(p *Program, c *Check) {
			p.ruleSegmentForwarders(c)
			p.ruleNudge(c)
			p.ruleM1(c, map[string]bool{"geometry.Segment.Raycast": true, "geometry.Segment.IntersectsSegment": true, "geometry.Segment.Rect": true})
			p.ruleE8(c, "geometry.Segment.Raycast#comparison-prefix", "geometry.Segment.Raycast#post-nudge", "geometry.Segment.IntersectsSegment#box-prefix", "geometry.Segment.Rect")
			c.Exhaustive = true
			c.Assume("coordinates are finite and not NaN")
		},
	})
	_ = sort.Strings
}
