package main

import (
	"crypto/sha1"
	"encoding/hex"
	"encoding/json"
	"fmt"
	"os"
	"path/filepath"
	"sort"
	"strings"
	"time"
)

type Status int

const (
	Discharged Status = iota
	Violated
	Undecided
)

func (s Status) String() string {
	switch s {
	case Discharged:
		return "discharged"
	case Violated:
		return "violated"
	}
	return "undecided"
}

// Ob is one obligation: a rule applied to one construct of the program.
// The key is rule+construct; positions are carried for the reader only.
type Ob struct {
	Rule      string   `json:"rule"`
	Construct string   `json:"construct"`
	Status    string   `json:"status"`
	Pos       string   `json:"pos,omitempty"`
	Detail    string   `json:"detail,omitempty"`
	Expected  string   `json:"expected,omitempty"`
	Observed  string   `json:"observed,omitempty"`
	Path      []string `json:"path,omitempty"`
	st        Status
}

func (o *Ob) Key() string { return o.Rule + " :: " + o.Construct }

// Check accumulates the obligations of one property run.
type Check struct {
	Prop        string
	Tier        string
	Level       string
	Obs         []*Ob
	Counters    map[string]int
	Assumptions []string
	Notes       []string
	Exhaustive  bool
	seen        map[string]bool
	prog        *Program
}

func NewCheck(prop, tier string) *Check {
	return &Check{Prop: prop, Tier: tier, Counters: map[string]int{}, seen: map[string]bool{}}
}

func (c *Check) add(st Status, rule, construct, pos, detail string) *Ob {
	o := &Ob{Rule: rule, Construct: construct, Status: st.String(), Pos: pos, Detail: detail, st: st}
	key := o.Key()
	if c.seen[key] {
		// keep keys unique: a second obligation on the same construct gets a counter
		n := 2
		for c.seen[fmt.Sprintf("%s#%d", key, n)] {
			n++
		}
		o.Construct = fmt.Sprintf("%s#%d", construct, n)
		key = o.Key()
	}
	c.seen[key] = true
	c.Obs = append(c.Obs, o)
	return o
}

func (c *Check) OK(rule, construct, pos, detail string) *Ob {
	return c.add(Discharged, rule, construct, pos, detail)
}
func (c *Check) Bad(rule, construct, pos, detail string) *Ob {
	return c.add(Violated, rule, construct, pos, detail)
}
func (c *Check) Undecided(rule, construct, pos, detail string) *Ob {
	return c.add(Undecided, rule, construct, pos, detail)
}

// Expect records OK or Bad depending on cond.
func (c *Check) Expect(cond bool, rule, construct, pos, okDetail, badDetail string) *Ob {
	if cond {
		return c.OK(rule, construct, pos, okDetail)
	}
	return c.Bad(rule, construct, pos, badDetail)
}

func (c *Check) Count(name string, n int) { c.Counters[name] += n }

func (c *Check) Assume(s string) {
	for _, a := range c.Assumptions {
		if a == s {
			return
		}
	}
	c.Assumptions = append(c.Assumptions, s)
}

// Floor fails the check as undecided when an API-anchored instance set is
// smaller than what was confirmed by hand: a rule that matches nothing passes forever.
func (c *Check) Floor(rule string, got, min int, what string) {
	if got < min {
		c.Undecided(rule, "instance-floor:"+what, "", fmt.Sprintf("rule matched %d instances of %s, fewer than the confirmed floor %d: the rule would pass vacuously", got, what, min))
	} else {
		c.OK(rule, "instance-floor:"+what, "", fmt.Sprintf("%d instances (floor %d)", got, min))
	}
}

// ---- known findings ----

type KnownFinding struct {
	Property  string `json:"property"`
	Rule      string `json:"rule"`
	Construct string `json:"construct"`
	Detail    string `json:"detail_contains,omitempty"`
	What      string `json:"what"`
	Status    string `json:"status"` // "open" or "fixed"
	Commit    string `json:"commit,omitempty"`
}

type KnownFile struct {
	Comment  string         `json:"comment"`
	Findings []KnownFinding `json:"findings"`
	Fixed    []string       `json:"fixed"`
}

func loadKnown(path string) (*KnownFile, error) {
	b, err := os.ReadFile(path)
	if err != nil {
		if os.IsNotExist(err) {
			return &KnownFile{}, nil
		}
		return nil, err
	}
	var k KnownFile
	if err := json.Unmarshal(b, &k); err != nil {
		return nil, err
	}
	return &k, nil
}

func (k *KnownFile) match(prop string, o *Ob) *KnownFinding {
	for i := range k.Findings {
		f := &k.Findings[i]
		if f.Status != "open" {
			continue // fixed entries suppress nothing
		}
		if f.Property == prop && f.Rule == o.Rule && f.Construct == o.Construct &&
			(f.Detail == "" || strings.Contains(o.Detail, f.Detail)) {
			return f
		}
	}
	return nil
}

// ---- evidence ----

type Evidence struct {
	PropertyID  string                 `json:"property_id"`
	Tier        string                 `json:"tier"`
	Seed        int                    `json:"seed"`
	Level       string                 `json:"level"`
	Coverage    map[string]interface{} `json:"coverage"`
	Assumptions []string               `json:"assumptions"`
	WallS       float64                `json:"wall_s"`
	Violations  int                    `json:"violations"`
}

func verifDir() string {
	if d := os.Getenv("GEOVERIF_HOME"); d != "" {
		return d
	}
	exe, err := os.Executable()
	if err == nil {
		d := filepath.Dir(filepath.Dir(exe))
		if _, err := os.Stat(filepath.Join(d, "properties.jsonl")); err == nil {
			return d
		}
	}
	wd, _ := os.Getwd()
	for d := wd; d != "/" && d != "."; d = filepath.Dir(d) {
		if _, err := os.Stat(filepath.Join(d, "properties.jsonl")); err == nil {
			return d
		}
	}
	return "/verif"
}

type Finish struct {
	Explanation string
	Rule        string
	TrustedBase []string
	CheckerCmd  string
	Seed        int
	Start       time.Time
	Extra       map[string]interface{}
	NoEvidence  bool // sub-runs (mutants) do not write evidence
	Quiet       bool
}

// Finalize matches violations against the known-findings file, writes the
// violation files and the evidence file, prints the protocol lines and
// returns the process exit code.
func (c *Check) Finalize(fin Finish) int {
	home := verifDir()
	known, err := loadKnown(filepath.Join(home, "known_findings.json"))
	if err != nil {
		fmt.Printf("geoverif: cannot read known_findings.json: %v\n", err)
		known = &KnownFile{}
	}
	sort.SliceStable(c.Obs, func(i, j int) bool { return c.Obs[i].Key() < c.Obs[j].Key() })
	var nOK, nBad, nUnd, nKnown int
	var failing []*Ob
	for _, o := range c.Obs {
		switch o.st {
		case Discharged:
			nOK++
		case Violated, Undecided:
			if kf := known.match(c.Prop, o); kf != nil {
				nKnown++
				if !fin.Quiet {
					fmt.Printf("KNOWN-FINDING: property=%s %s [%s %s]\n", c.Prop, kf.What, o.Rule, o.Construct)
				}
				continue
			}
			if o.st == Violated {
				nBad++
			} else {
				nUnd++
			}
			failing = append(failing, o)
		}
	}
	exit := 0
	if len(failing) > 0 {
		exit = 1
	}
	if fin.NoEvidence {
		return exit
	}
	vdir := filepath.Join(home, "evidence", "violations")
	// remove stale violation files of this property
	if ents, err := os.ReadDir(vdir); err == nil {
		for _, e := range ents {
			if strings.HasPrefix(e.Name(), c.Prop+"-") {
				os.Remove(filepath.Join(vdir, e.Name()))
			}
		}
	}
	printed := 0
	for _, o := range failing {
		os.MkdirAll(vdir, 0o755)
		h := sha1.Sum([]byte(o.Key()))
		path := filepath.Join(vdir, fmt.Sprintf("%s-%s.json", c.Prop, hex.EncodeToString(h[:6])))
		rec := map[string]interface{}{
			"property": c.Prop, "kind": o.Status, "rule": o.Rule, "construct": o.Construct,
			"pos": o.Pos, "detail": o.Detail, "expected": o.Expected, "observed": o.Observed, "path": o.Path,
			"tier": c.Tier,
		}
		b, _ := json.MarshalIndent(rec, "", " ")
		os.WriteFile(path, b, 0o644)
		printed++
		if !fin.Quiet && printed == 13 {
			fmt.Printf("  … %d more reports (see the violation files)\n", len(failing)-12)
		}
		if !fin.Quiet && printed > 12 {
			fmt.Printf("VIOLATION property=%s replay=%s\n", c.Prop, path)
			continue
		}
		if !fin.Quiet {
			fmt.Printf("  %s %s: %s\n      at %s\n      %s\n", strings.ToUpper(o.Status), o.Rule, o.Construct, o.Pos, o.Detail)
			if o.Expected != "" || o.Observed != "" {
				fmt.Printf("      expected: %s\n      observed: %s\n", o.Expected, o.Observed)
			}
			for _, s := range o.Path {
				fmt.Printf("        via %s\n", s)
			}
			fmt.Printf("VIOLATION property=%s replay=%s\n", c.Prop, path)
		}
	}
	// samples: a spread of obligations written out
	var samples []interface{}
	byRule := map[string]int{}
	for _, o := range c.Obs {
		if byRule[o.Rule] < 2 && len(samples) < 40 {
			byRule[o.Rule]++
			samples = append(samples, o)
		}
	}
	for _, o := range failing {
		samples = append(samples, o)
	}
	rules := map[string]int{}
	distinct := map[string]bool{}
	for _, o := range c.Obs {
		rules[o.Rule]++
		if o.Pos != "" || strings.Contains(o.Detail, "instances") {
			distinct[o.Key()] = true
		}
	}
	cov := map[string]interface{}{
		"obligations":         len(c.Obs),
		"discharged":          nOK,
		"violated":            nBad,
		"undecided":           nUnd,
		"known_findings":      nKnown,
		"evaluations":         len(c.Obs),
		"distinct_nontrivial": len(distinct),
		"rule":                fin.Rule,
		"explanation":         fin.Explanation,
		"samples":             samples,
		"checker_cmd":         fin.CheckerCmd,
		"trusted_base":        fin.TrustedBase,
		"obligations_by_rule": rules,
		"analysed":            c.Counters,
		"exhaustive":          c.Exhaustive,
		"notes":               c.Notes,
	}
	for k, v := range fin.Extra {
		cov[k] = v
	}
	ev := Evidence{PropertyID: c.Prop, Tier: c.Tier, Seed: fin.Seed, Level: c.Level, Coverage: cov,
		Assumptions: c.Assumptions, WallS: time.Since(fin.Start).Seconds(), Violations: len(failing)}
	if ev.Assumptions == nil {
		ev.Assumptions = []string{}
	}
	b, _ := json.MarshalIndent(ev, "", " ")
	os.MkdirAll(filepath.Join(home, "evidence"), 0o755)
	if err := os.WriteFile(filepath.Join(home, "evidence", c.Prop+".json"), b, 0o644); err != nil {
		fmt.Printf("geoverif: cannot write evidence: %v\n", err)
		return 1
	}
	if !fin.Quiet {
		fmt.Printf("%s tier=%s obligations=%d discharged=%d violated=%d undecided=%d known=%d wall=%.1fs\n",
			c.Prop, c.Tier, len(c.Obs), nOK, nBad, nUnd, nKnown, ev.WallS)
	}
	return exit
}
