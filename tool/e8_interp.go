package main

import (
	"fmt"
	"go/ast"
	"go/constant"
	"go/token"
	"go/types"
	"sort"
	"strconv"
	"strings"

	"golang.org/x/tools/go/packages"
	"golang.org/x/tools/go/types/typeutil"
)

// E8 — comparison networks.  A small abstract interpreter for the subset of
// Go used by code that touches its numeric inputs only through comparisons
// and selection.  Scalars are *named atoms*; an assignment gives every atom a
// rank (a weak order) and every opaque boolean a truth value; the interpreter
// then runs the syntax tree concretely on ranks.  Enumerating all weak orders
// tabulates the meaning of the code for every finite input.

type vkind int

const (
	kScalar vkind = iota
	kBool
	kInt
	kStruct
	kNil
	kRef  // the address of a variable or field that does not hold a struct (e.g. &g.extra with extra a pointer)
	kFunc // a function literal together with the frame it was created in
)

type val struct {
	k        vkind
	name     string // scalar: atom name
	b        bool
	n        int64
	f        map[string]*val
	typ      types.Type
	str      bool         // a string value (compared only for equality)
	maybeNil bool         // an input of pointer/interface/slice type: it may be nil
	refBox   *val         // kRef: the struct whose field is addressed (nil: a frame variable)
	refField string       // kRef: the field
	refObj   types.Object // kRef: the frame variable
	refFrame *e8frame
	lit      *ast.FuncLit // kFunc
	env      *e8frame     // kFunc: the defining frame (captured variables are shared)
	meth     *types.Func  // kFunc without lit: a method expression T.m (called with the receiver first)
}

func (v *val) refGet() *val {
	if v.refBox != nil {
		if t := v.refBox.f[v.refField]; t != nil {
			return t
		}
		return &val{k: kNil}
	}
	if t := v.refFrame.vars[v.refObj]; t != nil {
		return t
	}
	return &val{k: kNil}
}

func (v *val) refSet(x *val) {
	if v.refBox != nil {
		v.refBox.f[v.refField] = x
		return
	}
	v.refFrame.vars[v.refObj] = x
}

func isStringVal(v *val) bool {
	if v == nil {
		return false
	}
	if v.str {
		return true
	}
	if v.typ != nil {
		if b, ok := v.typ.Underlying().(*types.Basic); ok && b.Info()&types.IsString != 0 {
			return true
		}
	}
	return false
}

func (v *val) clone() *val {
	if v == nil {
		return nil
	}
	n := *v
	if v.k == kRef {
		return &n
	}
	if v.f != nil {
		n.f = map[string]*val{}
		for k, x := range v.f {
			n.f[k] = x.clone()
		}
	}
	return &n
}

type e8err struct{ msg string }

// e8unknown: a run met an atom that discovery did not (it lies behind a branch
// whose effects discovery does not carry forward); the driver adds it and restarts.
type e8unknown struct {
	name   string
	isBool bool
}

func (e e8err) Error() string { return e.msg }

func e8fail(format string, a ...interface{}) { panic(e8err{fmt.Sprintf(format, a...)}) }

// assignment of ranks / truth values to atoms
type e8assign struct {
	rank    map[string]int
	bools   map[string]bool
	group   func(string) int
	resolve func(name string) (int, bool) // optional: computes the rank of derived atoms (sign domain)
}

func (a *e8assign) R(name string) int {
	r, ok := a.rank[name]
	if !ok && a.resolve != nil {
		if v, ok2 := a.resolve(name); ok2 {
			return v
		}
	}
	if !ok {
		panic(e8unknown{name, false})
	}
	return r
}

func (a *e8assign) B(name string) bool {
	b, ok := a.bools[name]
	if !ok {
		panic(e8unknown{name, true})
	}
	return b
}

type e8frame struct {
	pkg   *packages.Package
	vars  map[types.Object]*val
	named map[string]*val         // inputs named by their source text (x[i], len(x))
	lazy  map[types.Object]string // inputs created on first use, with their canonical names
}

func newFrame(pkg *packages.Package) *e8frame {
	return &e8frame{pkg: pkg, vars: map[types.Object]*val{}, named: map[string]*val{}, lazy: map[types.Object]string{}}
}

type e8interp struct {
	p           *Program
	a           *e8assign
	depth       int
	collect     *e8collector            // discovery mode: record atoms instead of failing
	lenEqOpaque bool                    // treat len(x) == const as an opaque boolean
	trace       []e8call                // opaque calls executed on this run, in order
	opaque      map[*types.Func]bool    // repository functions that must not be entered
	frozen      map[types.Object]bool   // variables whose assignments are ignored (they stay inputs)
	opaquePkg   map[*types.Package]bool // packages whose functions must not be entered
	lens        map[string]int64        // len(x) of these inputs is a concrete number (index analyses over small sizes)
	rangeMax    int                     // range loops over opaque slices run 0..rangeMax times over distinct opaque elements
	rangeOnce   bool                    // range loops run zero times or once (for rows that do not depend on them)
	havoc       bool                    // variables written by a function literal handed to an opaque call become fresh atoms after the call
}

// e8call records one executed call whose body the interpreter does not enter
// (interface methods, dependency functions, builtins such as append).
type e8call struct {
	name string
	fn   string // callee (method or function name)
	args []*val
}

func (in *e8interp) called(fn string) []e8call {
	var out []e8call
	for _, c := range in.trace {
		if c.fn == fn {
			out = append(out, c)
		}
	}
	return out
}

func (a *e8assign) has(names ...string) bool {
	for _, n := range names {
		if _, ok := a.rank[n]; !ok {
			return false
		}
	}
	return true
}

type e8collector struct {
	scalars map[string]bool
	bools   map[string]bool
}

type e8return struct{ vals []*val }

// control-flow signals
type e8break struct{}
type e8continue struct{}

// newInput builds the symbolic value tree of an input of type t rooted at path.
func (in *e8interp) newInput(path string, t types.Type) *val {
	return in.newInputD(path, t, 0)
}

func (in *e8interp) newInputD(path string, t types.Type, d int) *val {
	if d > 5 {
		return &val{k: kNil, typ: t}
	}
	switch u := t.Underlying().(type) {
	case *types.Struct:
		v := &val{k: kStruct, f: map[string]*val{}, typ: t, name: path}
		for i := 0; i < u.NumFields(); i++ {
			f := u.Field(i)
			v.f[f.Name()] = in.newInputD(path+"."+f.Name(), f.Type(), d+1)
		}
		return v
	case *types.Interface:
		return &val{k: kStruct, f: map[string]*val{}, typ: t, name: path, maybeNil: true}
	case *types.Array:
		v := &val{k: kStruct, f: map[string]*val{}, typ: t}
		for i := int64(0); i < u.Len() && i < 8; i++ {
			v.f[fmt.Sprint(i)] = in.newInputD(fmt.Sprintf("%s[%d]", path, i), u.Elem(), d+1)
		}
		return v
	case *types.Pointer:
		v := in.newInputD(path, u.Elem(), d+1)
		v.maybeNil = true
		return v
	case *types.Slice:
		// elements are created on demand by constant index
		return &val{k: kStruct, f: map[string]*val{}, typ: t, name: path, maybeNil: true}
	case *types.Basic:
		switch {
		case u.Info()&types.IsBoolean != 0:
			return &val{k: kBool, name: path, typ: t}
		case u.Info()&types.IsNumeric != 0:
			return &val{k: kScalar, name: path, typ: t}
		case u.Info()&types.IsString != 0:
			return &val{k: kScalar, name: path, typ: t, str: true}
		}
	}
	return &val{k: kScalar, name: path, typ: t}
}

func zeroVal(t types.Type) *val {
	switch u := t.Underlying().(type) {
	case *types.Struct:
		v := &val{k: kStruct, f: map[string]*val{}, typ: t}
		for i := 0; i < u.NumFields(); i++ {
			v.f[u.Field(i).Name()] = zeroVal(u.Field(i).Type())
		}
		return v
	case *types.Array:
		v := &val{k: kStruct, f: map[string]*val{}, typ: t}
		for i := int64(0); i < u.Len() && i < 8; i++ {
			v.f[fmt.Sprint(i)] = zeroVal(u.Elem())
		}
		return v
	case *types.Basic:
		switch {
		case u.Info()&types.IsBoolean != 0:
			return &val{k: kBool, b: false, typ: t}
		case u.Info()&types.IsInteger != 0:
			return &val{k: kInt, n: 0, typ: t}
		case u.Info()&types.IsNumeric != 0:
			return &val{k: kScalar, name: "0", typ: t}
		}
	}
	return &val{k: kNil, typ: t}
}

func (in *e8interp) boolOf(v *val) bool {
	if v.k != kBool {
		e8fail("expected a boolean value")
	}
	if v.name != "" {
		if in.collect != nil {
			in.collect.bools[v.name] = true
			return false
		}
		return in.a.B(v.name)
	}
	return v.b
}

func (in *e8interp) rankOf(v *val) (int, int) {
	switch v.k {
	case kInt:
		return int(v.n)*2 + 1000000, -1 // concrete ints compare among themselves
	case kScalar:
		if in.collect != nil {
			in.collect.scalars[v.name] = true
			return 0, 0
		}
		g := 0
		if in.a.group != nil {
			g = in.a.group(v.name)
		}
		return in.a.R(v.name), g
	}
	e8fail("expected an ordered scalar")
	return 0, 0
}

func (in *e8interp) compare(op token.Token, l, r *val) bool {
	if (op == token.EQL || op == token.NEQ) && (isStringVal(l) || isStringVal(r)) && l.k != kNil && r.k != kNil {
		// strings are compared for equality only: an opaque boolean per pair
		ln, rn := in.symName(l), in.symName(r)
		name := ln + "==" + rn
		if rn < ln {
			name = rn + "==" + ln
		}
		var b bool
		if in.collect != nil {
			in.collect.bools[name] = true
		} else if ln == rn {
			b = true
		} else {
			b = in.a.B(name)
		}
		if op == token.NEQ {
			b = !b
		}
		return b
	}
	if l.k == kBool || r.k == kBool {
		lb, rb := in.boolOf(l), in.boolOf(r)
		switch op {
		case token.EQL:
			return lb == rb
		case token.NEQ:
			return lb != rb
		}
		e8fail("unsupported boolean comparison")
	}
	if l.k == kStruct && r.k == kStruct {
		eq := true
		var ks []string
		for k := range l.f {
			ks = append(ks, k)
		}
		sort.Strings(ks)
		for _, k := range ks {
			if r.f[k] == nil || !in.compare(token.EQL, l.f[k], r.f[k]) {
				eq = false
			}
		}
		switch op {
		case token.EQL:
			return eq
		case token.NEQ:
			return !eq
		}
		e8fail("unsupported struct comparison")
	}
	if l.k == kInt && r.k == kInt {
		return cmpInts(op, l.n, r.n)
	}
	// an integer constant compared with a symbolic scalar: the constant is an atom too
	if l.k == kInt {
		l = &val{k: kScalar, name: fmt.Sprint(l.n)}
	}
	if r.k == kInt {
		r = &val{k: kScalar, name: fmt.Sprint(r.n)}
	}
	lr, lg := in.rankOf(l)
	rr, rg := in.rankOf(r)
	if in.collect == nil && lg != rg {
		e8fail("atoms %q and %q of different independence groups are compared", l.name, r.name)
	}
	return cmpInts(op, int64(lr), int64(rr))
}

func cmpInts(op token.Token, a, b int64) bool {
	switch op {
	case token.LSS:
		return a < b
	case token.LEQ:
		return a <= b
	case token.GTR:
		return a > b
	case token.GEQ:
		return a >= b
	case token.EQL:
		return a == b
	case token.NEQ:
		return a != b
	}
	e8fail("unsupported comparison operator %s", op)
	return false
}

func constVal(tv types.TypeAndValue) *val {
	switch tv.Value.Kind() {
	case constant.Bool:
		return &val{k: kBool, b: constant.BoolVal(tv.Value), typ: tv.Type}
	case constant.Int:
		if b, ok := tv.Type.Underlying().(*types.Basic); ok && b.Info()&types.IsFloat != 0 {
			return &val{k: kScalar, name: tv.Value.ExactString(), typ: tv.Type}
		}
		n, _ := constant.Int64Val(tv.Value)
		return &val{k: kInt, n: n, typ: tv.Type}
	case constant.String:
		return &val{k: kScalar, name: tv.Value.ExactString(), typ: tv.Type, str: true}
	case constant.Float:
		f, _ := constant.Float64Val(tv.Value)
		return &val{k: kScalar, name: strconv.FormatFloat(f, 'g', -1, 64), typ: tv.Type}
	}
	return nil
}

func (in *e8interp) symName(v *val) string {
	switch v.k {
	case kScalar:
		return v.name
	case kInt:
		return fmt.Sprint(v.n)
	case kBool:
		if v.name != "" {
			return v.name
		}
		return fmt.Sprint(v.b)
	}
	return "?"
}

func (in *e8interp) eval(fr *e8frame, e ast.Expr) *val {
	info := fr.pkg.TypesInfo
	if tv, ok := info.Types[e]; ok && tv.Value != nil {
		if v := constVal(tv); v != nil {
			return v
		}
	}
	switch x := e.(type) {
	case *ast.ParenExpr:
		return in.eval(fr, x.X)
	case *ast.Ident:
		o := info.Uses[x]
		if o == nil {
			o = info.Defs[x]
		}
		if _, ok := o.(*types.Nil); ok {
			return &val{k: kNil}
		}
		if v, ok := fr.vars[o]; ok {
			return v
		}
		if o != nil {
			// free variable / global: an input named by its identifier
			name := x.Name
			if ln, ok := fr.lazy[o]; ok {
				name = ln
			}
			v := in.newInput(name, o.Type())
			if vr, ok := o.(*types.Var); ok && o.Pkg() != nil && vr.Parent() == o.Pkg().Scope() && o.Type().String() == "error" {
				v.maybeNil = false // package-level error values (errors.New(...)) are not nil
			}
			fr.vars[o] = v
			return v
		}
		e8fail("unresolved identifier %s", x.Name)
	case *ast.SelectorExpr:
		if sel, ok := info.Selections[x]; ok && sel.Kind() == types.FieldVal {
			base := in.eval(fr, x.X)
			t := sel.Recv()
			for _, idx := range sel.Index() {
				if p, ok := t.Underlying().(*types.Pointer); ok {
					t = p.Elem()
				}
				st := t.Underlying().(*types.Struct)
				f := st.Field(idx)
				if base.k != kStruct || base.f[f.Name()] == nil {
					e8fail("field %s of a non-struct value", f.Name())
				}
				base = base.f[f.Name()]
				t = f.Type()
			}
			return base
		}
		if sel, ok := info.Selections[x]; ok && sel.Kind() == types.MethodExpr {
			if m, ok := sel.Obj().(*types.Func); ok {
				if _, isIface := sel.Recv().Underlying().(*types.Interface); isIface {
					return &val{k: kFunc, meth: m, typ: info.TypeOf(e)}
				}
			}
		}
		e8fail("unsupported selector %s", types.ExprString(e))
	case *ast.StarExpr:
		v := in.eval(fr, x.X)
		if v.k == kRef {
			return v.refGet()
		}
		return v
	case *ast.UnaryExpr:
		switch x.Op {
		case token.NOT:
			return &val{k: kBool, b: !in.boolOf(in.eval(fr, x.X))}
		case token.AND:
			v := in.eval(fr, x.X)
			_, isStructLoc := info.TypeOf(x.X).Underlying().(*types.Struct)
			if _, isArr := info.TypeOf(x.X).Underlying().(*types.Array); isArr {
				isStructLoc = true
			}
			if !isStructLoc {
				// the address of a location that holds a pointer, interface or scalar: keep a reference so that writes through it are seen
				switch t := ast.Unparen(x.X).(type) {
				case *ast.SelectorExpr:
					if box := in.eval(fr, t.X); box.k == kStruct {
						return &val{k: kRef, refBox: box, refField: t.Sel.Name}
					}
				case *ast.Ident:
					if o := info.Uses[t]; o != nil {
						return &val{k: kRef, refObj: o, refFrame: fr}
					}
				}
			}
			return v
		case token.SUB:
			v := in.eval(fr, x.X)
			if v.k == kInt {
				return &val{k: kInt, n: -v.n}
			}
			return &val{k: kScalar, name: "(-" + in.symName(v) + ")"}
		}
	case *ast.BinaryExpr:
		switch x.Op {
		case token.LAND, token.LOR:
			if in.collect != nil {
				// discovery visits both operands
				in.boolOf(in.eval(fr, x.X))
				in.boolOf(in.eval(fr, x.Y))
				return &val{k: kBool}
			}
			if x.Op == token.LAND {
				return &val{k: kBool, b: in.boolOf(in.eval(fr, x.X)) && in.boolOf(in.eval(fr, x.Y))}
			}
			return &val{k: kBool, b: in.boolOf(in.eval(fr, x.X)) || in.boolOf(in.eval(fr, x.Y))}
		}
		l, r := in.eval(fr, x.X), in.eval(fr, x.Y)
		if isCmp(x.Op) {
			if l.k == kNil || r.k == kNil {
				other := l
				if l.k == kNil {
					other = r
				}
				if other.k == kRef {
					other = other.refGet()
				}
				// a value the run built itself is known to be nil or not
				if other.k == kNil || (other.k == kStruct && !other.maybeNil) {
					isNil := other.k == kNil
					if in.collect == nil || true {
						return &val{k: kBool, b: isNil == (x.Op == token.EQL)}
					}
				}
				// x == nil on an input: an opaque boolean, named by the value (so that two spellings of one fact agree)
				src := x.X
				if l.k == kNil {
					src = x.Y
				}
				name := "isnil(" + in.valName(other, src) + ")"
				if in.collect != nil {
					in.collect.bools[name] = true
					return &val{k: kBool}
				}
				return &val{k: kBool, b: in.a.B(name) == (x.Op == token.EQL)}
			}
			if (x.Op == token.EQL || x.Op == token.NEQ) && (isStringVal(l) || isStringVal(r)) {
				name := in.symName(l) + "==" + in.symName(r)
				if in.symName(r) < in.symName(l) {
					name = in.symName(r) + "==" + in.symName(l)
				}
				var b bool
				if in.collect != nil {
					in.collect.bools[name] = true
				} else {
					b = in.a.B(name)
				}
				if x.Op == token.NEQ {
					b = !b
				}
				return &val{k: kBool, b: b}
			}
			if in.lenEqOpaque && (x.Op == token.EQL || x.Op == token.NEQ) &&
				((l.k == kScalar && strings.HasPrefix(l.name, "len(") && r.k == kInt) || (r.k == kScalar && strings.HasPrefix(r.name, "len(") && l.k == kInt)) {
				name := types.ExprString(e)
				if in.collect != nil {
					in.collect.bools[name] = true
					return &val{k: kBool}
				}
				return &val{k: kBool, b: in.a.B(name)}
			}
			return &val{k: kBool, b: in.compare(x.Op, l, r)}
		}
		if l.k == kInt && r.k == kInt {
			switch x.Op {
			case token.ADD:
				return &val{k: kInt, n: l.n + r.n}
			case token.SUB:
				return &val{k: kInt, n: l.n - r.n}
			case token.MUL:
				return &val{k: kInt, n: l.n * r.n}
			case token.REM:
				if r.n != 0 {
					return &val{k: kInt, n: l.n % r.n}
				}
			case token.QUO:
				if r.n != 0 {
					return &val{k: kInt, n: l.n / r.n}
				}
			}
		}
		// arithmetic over atoms: a derived atom named by its canonical text
		ln, rn := in.symName(l), in.symName(r)
		if (x.Op == token.ADD || x.Op == token.MUL) && rn < ln {
			ln, rn = rn, ln
		}
		return &val{k: kScalar, name: "(" + ln + x.Op.String() + rn + ")"}
	case *ast.SliceExpr:
		// a sub-slice / substring is an opaque value named after its operands
		part := func(e ast.Expr) string {
			if e == nil {
				return ""
			}
			return in.valName(in.evalQuiet(fr, e), e)
		}
		name := "slice(" + part(x.X) + "," + part(x.Low) + "," + part(x.High) + ")"
		return in.newInput(name, info.TypeOf(e))
	case *ast.IndexExpr:
		base := in.eval(fr, x.X)
		if base.k == kStruct {
			idx := in.eval(fr, x.Index)
			if idx.k == kInt {
				if v := base.f[fmt.Sprint(idx.n)]; v != nil {
					return v
				}
				if sl, ok := base.typ.Underlying().(*types.Slice); ok && base.name != "" {
					v := in.newInput(fmt.Sprintf("%s[%d]", base.name, idx.n), sl.Elem())
					base.f[fmt.Sprint(idx.n)] = v
					return v
				}
			}
		}
		// element of an input slice with a symbolic index: an input named by its text
		name := types.ExprString(e)
		if v, ok := fr.named[name]; ok {
			return v
		}
		v := in.newInput(name, info.TypeOf(e))
		fr.named[name] = v
		return v
	case *ast.TypeAssertExpr:
		if x.Type != nil {
			ov := in.evalQuiet(fr, x.X)
			t := info.TypeOf(x.Type)
			oname := in.valName(ov, x.X)
			name := "is(" + oname + "," + typeStr(t) + ")"
			var ok bool
			if in.collect != nil {
				in.collect.bools[name] = true
			} else {
				ok = in.a.B(name)
			}
			v := in.newInput(oname+".("+typeStr(t)+")", t)
			if tup, isTup := info.TypeOf(e).(*types.Tuple); isTup && tup.Len() == 2 {
				return &val{k: kStruct, f: map[string]*val{"0": v, "1": {k: kBool, b: ok}}, typ: tup}
			}
			return v
		}
	case *ast.CompositeLit:
		t := info.TypeOf(x)
		v := zeroVal(t)
		if v.k != kStruct {
			e8fail("unsupported composite literal %s", types.ExprString(e))
		}
		switch u := t.Underlying().(type) {
		case *types.Struct:
			for i, el := range x.Elts {
				if kv, ok := el.(*ast.KeyValueExpr); ok {
					v.f[kv.Key.(*ast.Ident).Name] = in.eval(fr, kv.Value).clone()
				} else {
					v.f[u.Field(i).Name()] = in.eval(fr, el).clone()
				}
			}
		case *types.Array:
			for i, el := range x.Elts {
				v.f[fmt.Sprint(i)] = in.eval(fr, el).clone()
			}
		}
		return v
	case *ast.CallExpr:
		return in.call(fr, x)
	}
	if fl, ok := e.(*ast.FuncLit); ok {
		return &val{k: kFunc, lit: fl, env: fr, typ: info.TypeOf(e)}
	}
	e8fail("unsupported expression %s", types.ExprString(e))
	return nil
}

func (in *e8interp) call(fr *e8frame, x *ast.CallExpr) *val {
	info := fr.pkg.TypesInfo
	if tv, ok := info.Types[x.Fun]; ok && tv.IsType() && len(x.Args) == 1 {
		v := in.eval(fr, x.Args[0])
		if b, ok := tv.Type.Underlying().(*types.Basic); ok && b.Info()&types.IsString != 0 && v.k != kScalar {
			return &val{k: kScalar, name: in.valName(v, x.Args[0]), str: true, typ: tv.Type}
		}
		return v // conversions keep the value (int<->uint32<->float of the same atom)
	}
	callee := typeutil.Callee(info, x)
	if b, ok := callee.(*types.Builtin); ok {
		switch b.Name() {
		case "len":
			if av := in.evalQuiet(fr, x.Args[0]); av != nil && av.k == kStruct && av.name != "" {
				if n, ok := in.lens[av.name]; ok {
					return &val{k: kInt, n: n, typ: info.TypeOf(x)}
				}
				return &val{k: kScalar, name: "len(" + av.name + ")"}
			}
			return &val{k: kScalar, name: "len(" + types.ExprString(x.Args[0]) + ")"}
		case "new":
			if t := info.TypeOf(x.Args[0]); t != nil {
				return zeroVal(t)
			}
		case "append", "copy", "make":
			var args []*val
			var names []string
			for _, a := range x.Args {
				if tv, ok := info.Types[a]; ok && tv.IsType() {
					names = append(names, types.ExprString(a))
					continue
				}
				av := in.eval(fr, a)
				args = append(args, av)
				names = append(names, in.valName(av, a))
			}
			name := b.Name() + "(" + strings.Join(names, ",") + ")"
			in.trace = append(in.trace, e8call{name: name, fn: b.Name(), args: args})
			return in.newInput(name, info.TypeOf(x))
		}
	}
	fn, _ := callee.(*types.Func)
	if fn != nil && !in.opaque[fn] && !in.opaquePkg[fn.Pkg()] && in.p.IsRepoPkg(fn.Pkg()) && in.p.Decl(fn) != nil && in.p.Decl(fn).Body != nil && in.depth < 6 {
		fd, pkg := in.p.Decl(fn), in.p.DeclPkg(fn)
		nf := newFrame(pkg)
		if sel, ok := ast.Unparen(x.Fun).(*ast.SelectorExpr); ok && fd.Recv != nil {
			if s, ok := info.Selections[sel]; ok && s.Kind() == types.MethodVal {
				rv := in.eval(fr, sel.X)
				// promoted methods: descend through embedded fields
				t := s.Recv()
				for _, idx := range s.Index()[:len(s.Index())-1] {
					if p, ok := t.Underlying().(*types.Pointer); ok {
						t = p.Elem()
					}
					f := t.Underlying().(*types.Struct).Field(idx)
					rv = rv.f[f.Name()]
					t = f.Type()
				}
				if len(fd.Recv.List) > 0 && len(fd.Recv.List[0].Names) > 0 {
					ro := pkg.TypesInfo.Defs[fd.Recv.List[0].Names[0]]
					if _, isPtr := fn.Type().(*types.Signature).Recv().Type().(*types.Pointer); isPtr {
						nf.vars[ro] = rv // by reference
					} else {
						nf.vars[ro] = rv.clone()
					}
				}
			}
		}
		i := 0
		for _, f := range fd.Type.Params.List {
			for _, n := range f.Names {
				if i < len(x.Args) {
					av := in.eval(fr, x.Args[i])
					if _, isPtr := info.TypeOf(x.Args[i]).Underlying().(*types.Pointer); isPtr {
						nf.vars[pkg.TypesInfo.Defs[n]] = av
					} else {
						nf.vars[pkg.TypesInfo.Defs[n]] = av.clone()
					}
				}
				i++
			}
		}
		// named results
		if fd.Type.Results != nil {
			for _, f := range fd.Type.Results.List {
				for _, n := range f.Names {
					nf.vars[pkg.TypesInfo.Defs[n]] = zeroVal(pkg.TypesInfo.TypeOf(f.Type))
				}
			}
		}
		in.depth++
		res := in.runBody(nf, fd.Body.List)
		in.depth--
		if res == nil {
			// fell off the end: named results
			if fd.Type.Results != nil && len(fd.Type.Results.List) > 0 && len(fd.Type.Results.List[0].Names) > 0 {
				return nf.vars[pkg.TypesInfo.Defs[fd.Type.Results.List[0].Names[0]]]
			}
			return &val{k: kNil}
		}
		if len(res.vals) == 0 {
			return &val{k: kNil} // a bare return in a function without results
		}
		if len(res.vals) == 1 {
			return res.vals[0]
		}
		tup := &val{k: kStruct, f: map[string]*val{}}
		for i, rv := range res.vals {
			tup.f[fmt.Sprint(i)] = rv
		}
		return tup
	}
	// a call through a variable that holds a function literal: its body runs in the frame that created it
	if id, ok := ast.Unparen(x.Fun).(*ast.Ident); ok && fn == nil && in.depth < 6 {
		if fv, ok := fr.vars[info.ObjectOf(id)]; ok && fv != nil && fv.k == kFunc && fv.lit == nil && fv.meth != nil {
			// a method expression of an interface type: the same opaque atom
			// as the method call  args[0].m(args[1:]...)
			var args []*val
			var names []string
			for _, a := range x.Args {
				av := in.evalQuiet(fr, a)
				args = append(args, av)
				names = append(names, in.valName(av, a))
			}
			return in.opaqueResult(info, x, fv.meth.Name(), args, names)
		}
		if fv, ok := fr.vars[info.ObjectOf(id)]; ok && fv != nil && fv.k == kFunc && fv.lit != nil {
			env, lpkg := fv.env, fv.env.pkg
			i := 0
			for _, f := range fv.lit.Type.Params.List {
				for _, n := range f.Names {
					if i < len(x.Args) {
						av := in.eval(fr, x.Args[i])
						if _, isPtr := info.TypeOf(x.Args[i]).Underlying().(*types.Pointer); isPtr {
							env.vars[lpkg.TypesInfo.Defs[n]] = av
						} else {
							env.vars[lpkg.TypesInfo.Defs[n]] = av.clone()
						}
					}
					i++
				}
			}
			in.depth++
			res := in.runBody(env, fv.lit.Body.List)
			in.depth--
			if res == nil || len(res.vals) == 0 {
				return &val{k: kNil}
			}
			if len(res.vals) == 1 {
				return res.vals[0]
			}
			return &val{k: kStruct, f: map[string]*val{"0": res.vals[0], "1": res.vals[1]}}
		}
	}
	// opaque call: an atom named by the callee and the symbolic names of its arguments
	var args []*val
	var names []string
	calleeName := types.ExprString(x.Fun)
	if fn != nil {
		calleeName = fn.Name()
		if fn.Pkg() != nil && fn.Type().(*types.Signature).Recv() == nil {
			calleeName = fn.Pkg().Name() + "." + fn.Name()
		}
	}
	if sel, ok := ast.Unparen(x.Fun).(*ast.SelectorExpr); ok {
		if s, ok := info.Selections[sel]; ok && s.Kind() == types.MethodVal {
			rv := in.evalQuiet(fr, sel.X)
			args = append(args, rv)
			names = append(names, in.valName(rv, sel.X))
		}
	}
	for _, a := range x.Args {
		av := in.evalQuiet(fr, a)
		args = append(args, av)
		names = append(names, in.valName(av, a))
	}
	if in.havoc {
		for _, a := range x.Args {
			lit, ok := ast.Unparen(a).(*ast.FuncLit)
			if !ok {
				continue
			}
			mark := func(e ast.Expr) {
				id, ok := e.(*ast.Ident)
				if !ok {
					return
				}
				o, isVar := info.ObjectOf(id).(*types.Var)
				if !isVar || (lit.Pos() <= o.Pos() && o.Pos() < lit.End()) {
					return
				}
				fr.vars[o] = in.newInput(o.Name()+"'", o.Type())
			}
			ast.Inspect(lit.Body, func(n ast.Node) bool {
				switch st := n.(type) {
				case *ast.AssignStmt:
					for _, l := range st.Lhs {
						mark(l)
					}
				case *ast.IncDecStmt:
					mark(st.X)
				}
				return true
			})
		}
	}
	return in.opaqueResult(info, x, calleeName, args, names)
}

// opaqueResult records an opaque call and returns the atom that stands for its result.
func (in *e8interp) opaqueResult(info *types.Info, x *ast.CallExpr, calleeName string, args []*val, names []string) *val {
	name := calleeName + "(" + strings.Join(names, ",") + ")"
	short := calleeName
	if i := strings.LastIndex(short, "."); i >= 0 {
		short = short[i+1:]
	}
	in.trace = append(in.trace, e8call{name: name, fn: short, args: args})
	if tup, ok := info.TypeOf(x).(*types.Tuple); ok {
		v := &val{k: kStruct, f: map[string]*val{}, typ: tup}
		for i := 0; i < tup.Len(); i++ {
			v.f[fmt.Sprint(i)] = in.newInput(fmt.Sprintf("%s#%d", name, i), tup.At(i).Type())
		}
		return v
	}
	if b, ok := info.TypeOf(x).Underlying().(*types.Basic); ok && b.Info()&types.IsBoolean != 0 {
		if in.collect != nil {
			in.collect.bools[name] = true
			return &val{k: kBool}
		}
		return &val{k: kBool, b: in.a.B(name)}
	}
	return in.newInput(name, info.TypeOf(x))
}

// evalQuiet evaluates an argument of an opaque call; expressions the model
// does not cover become nil (they are then named by their source text).
func (in *e8interp) evalQuiet(fr *e8frame, e ast.Expr) (v *val) {
	defer func() {
		if r := recover(); r != nil {
			if _, ok := r.(e8err); ok {
				v = nil
				return
			}
			panic(r)
		}
	}()
	if _, ok := ast.Unparen(e).(*ast.FuncLit); ok {
		return nil
	}
	return in.eval(fr, e)
}

// valName: the symbolic name of a value (its atom name, or its source text).
func (in *e8interp) valName(v *val, e ast.Expr) string {
	if v != nil {
		switch v.k {
		case kScalar:
			return v.name
		case kInt:
			return fmt.Sprint(v.n)
		case kBool:
			if v.name != "" {
				return v.name
			}
			return fmt.Sprint(v.b)
		case kStruct:
			if v.name != "" {
				return v.name
			}
		case kNil:
			return "nil"
		}
	}
	return types.ExprString(e)
}

// assignTo stores v at the lvalue e.
func (in *e8interp) assignTo(fr *e8frame, e ast.Expr, v *val, define bool) {
	info := fr.pkg.TypesInfo
	switch x := ast.Unparen(e).(type) {
	case *ast.Ident:
		if x.Name == "_" {
			return
		}
		o := info.Defs[x]
		if o == nil {
			o = info.Uses[x]
		}
		if in.frozen[o] {
			return
		}
		fr.vars[o] = v.clone()
		return
	case *ast.SelectorExpr:
		base := in.eval(fr, x.X)
		if base.k == kStruct {
			base.f[x.Sel.Name] = v.clone()
			return
		}
	case *ast.IndexExpr:
		base := in.eval(fr, x.X)
		idx := in.eval(fr, x.Index)
		if base.k == kStruct && idx.k == kInt {
			base.f[fmt.Sprint(idx.n)] = v.clone()
			return
		}
		fr.named[types.ExprString(e)] = v.clone()
		return
	case *ast.StarExpr:
		if pv := in.evalQuiet(fr, x.X); pv != nil && pv.k == kRef {
			pv.refSet(v.clone())
			return
		}
		in.assignTo(fr, x.X, v, define)
		return
	}
	e8fail("unsupported assignment target %s", types.ExprString(e))
}

// runBody executes statements; returns non-nil when a return was executed.
func (in *e8interp) runBody(fr *e8frame, stmts []ast.Stmt) *e8return {
	for _, st := range stmts {
		if r := in.exec(fr, st); r != nil {
			return r
		}
	}
	return nil
}

func (in *e8interp) exec(fr *e8frame, st ast.Stmt) *e8return {
	info := fr.pkg.TypesInfo
	switch s := st.(type) {
	case *ast.BlockStmt:
		return in.runBody(fr, s.List)
	case *ast.EmptyStmt:
		return nil
	case *ast.ReturnStmt:
		r := &e8return{}
		for _, e := range s.Results {
			v := in.eval(fr, e).clone()
			if v.k == kBool && v.name != "" {
				// a returned opaque boolean is an atom like any other
				v = &val{k: kBool, b: in.boolOf(v), typ: v.typ}
			}
			r.vals = append(r.vals, v)
		}
		if len(s.Results) == 0 {
			r.vals = nil
		}
		return r
	case *ast.ExprStmt:
		in.eval(fr, s.X)
		return nil
	case *ast.DeclStmt:
		gd := s.Decl.(*ast.GenDecl)
		for _, sp := range gd.Specs {
			vs, ok := sp.(*ast.ValueSpec)
			if !ok {
				continue
			}
			for i, n := range vs.Names {
				o := info.Defs[n]
				if i < len(vs.Values) {
					fr.vars[o] = in.eval(fr, vs.Values[i]).clone()
				} else {
					fr.vars[o] = zeroVal(o.Type())
				}
			}
		}
		return nil
	case *ast.AssignStmt:
		if s.Tok != token.ASSIGN && s.Tok != token.DEFINE {
			// op-assign on ints only
			if len(s.Lhs) == 1 {
				l := in.eval(fr, s.Lhs[0])
				r := in.eval(fr, s.Rhs[0])
				if l.k == kInt && r.k == kInt {
					switch s.Tok {
					case token.ADD_ASSIGN:
						in.assignTo(fr, s.Lhs[0], &val{k: kInt, n: l.n + r.n}, false)
						return nil
					case token.SUB_ASSIGN:
						in.assignTo(fr, s.Lhs[0], &val{k: kInt, n: l.n - r.n}, false)
						return nil
					}
				}
			}
			if len(s.Lhs) == 1 {
				l := in.eval(fr, s.Lhs[0])
				r := in.eval(fr, s.Rhs[0])
				if (l.k == kScalar || l.k == kInt) && (r.k == kScalar || r.k == kInt) {
					op := strings.TrimSuffix(s.Tok.String(), "=")
					ln, rn := in.symName(l), in.symName(r)
					if (op == "+" || op == "*") && rn < ln {
						ln, rn = rn, ln
					}
					in.assignTo(fr, s.Lhs[0], &val{k: kScalar, name: "(" + ln + op + rn + ")"}, false)
					return nil
				}
			}
			e8fail("unsupported assignment %s", s.Tok)
		}
		if len(s.Lhs) != len(s.Rhs) {
			if len(s.Rhs) == 1 {
				v := in.eval(fr, s.Rhs[0])
				if v.k == kStruct && len(v.f) >= len(s.Lhs) {
					for i, l := range s.Lhs {
						in.assignTo(fr, l, v.f[fmt.Sprint(i)], s.Tok == token.DEFINE)
					}
					return nil
				}
			}
			e8fail("unsupported multi-value assignment")
		}
		var vs []*val
		for _, r := range s.Rhs {
			vs = append(vs, in.eval(fr, r).clone())
		}
		for i, l := range s.Lhs {
			in.assignTo(fr, l, vs[i], s.Tok == token.DEFINE)
		}
		return nil
	case *ast.IncDecStmt:
		v := in.eval(fr, s.X)
		if v.k == kScalar {
			// a symbolic counter: the successor is a derived atom
			op := "+"
			if s.Tok == token.DEC {
				op = "-"
			}
			in.assignTo(fr, s.X, &val{k: kScalar, name: "(" + v.name + op + "1)"}, false)
			return nil
		}
		if v.k != kInt {
			e8fail("++/-- on a non-concrete integer")
		}
		d := int64(1)
		if s.Tok == token.DEC {
			d = -1
		}
		in.assignTo(fr, s.X, &val{k: kInt, n: v.n + d}, false)
		return nil
	case *ast.IfStmt:
		if s.Init != nil {
			if r := in.exec(fr, s.Init); r != nil {
				return r
			}
		}
		if in.collect != nil {
			// discovery: visit both branches on copies
			in.boolOf(in.eval(fr, s.Cond))
			r1 := in.execCopy(fr, s.Body)
			var r2 *e8return
			if s.Else != nil {
				r2 = in.execCopy(fr, s.Else)
			}
			_ = r1
			_ = r2
			return nil
		}
		if in.boolOf(in.eval(fr, s.Cond)) {
			return in.exec(fr, s.Body)
		} else if s.Else != nil {
			return in.exec(fr, s.Else)
		}
		return nil
	case *ast.ForStmt:
		if s.Init != nil {
			in.exec(fr, s.Init)
		}
		// bounded abstraction of `for i := 0; i < len(x); i++` over an opaque slice (same as for range loops)
		boundedSlice := ""
		var extraConds []ast.Expr
		if in.rangeMax > 0 && s.Cond != nil {
			bcond := ast.Unparen(s.Cond)
			// `flag && i < len(x)`: the comparison bounds the loop, the other conjuncts are tested each time round
			var flat func(e ast.Expr) []ast.Expr
			flat = func(e ast.Expr) []ast.Expr {
				if be, ok := ast.Unparen(e).(*ast.BinaryExpr); ok && be.Op == token.LAND {
					return append(flat(be.X), flat(be.Y)...)
				}
				return []ast.Expr{ast.Unparen(e)}
			}
			for _, cj := range flat(bcond) {
				if be, ok := cj.(*ast.BinaryExpr); ok && be.Op == token.LSS && boundedSlice == "" {
					bcond = be
					continue
				}
				extraConds = append(extraConds, cj)
			}
			if be, ok := bcond.(*ast.BinaryExpr); ok && be.Op == token.LSS {
				if rv := in.evalQuiet(fr, be.Y); rv != nil && rv.k == kScalar && rv.name != "" {
					if _, isNum := numericAtom(rv.name); !isNum {
						if lv := in.evalQuiet(fr, be.X); lv != nil && lv.k == kInt {
							boundedSlice = rv.name
							if strings.HasPrefix(rv.name, "len(") && strings.HasSuffix(rv.name, ")") {
								boundedSlice = rv.name[4 : len(rv.name)-1]
							}
						}
					}
				}
			}
		}
		for iter := 0; ; iter++ {
			if iter > 16 {
				e8fail("loop does not terminate within the unrolling bound")
			}
			if boundedSlice != "" {
				if iter >= in.rangeMax {
					break
				}
				name := fmt.Sprintf("more(%s)#%d", boundedSlice, iter)
				enter := false
				if in.collect != nil {
					in.collect.bools[name] = true
					enter = true
				} else {
					enter = in.a.B(name)
				}
				if !enter {
					break
				}
				stop := false
				for _, ec := range extraConds {
					if !in.boolOf(in.eval(fr, ec)) && in.collect == nil {
						stop = true
					}
				}
				if stop {
					break
				}
				if r := in.loopBody(fr, s.Body); r != nil {
					if r == breakSignal {
						break
					}
					if r != continueSignal {
						return r
					}
				}
				if s.Post != nil {
					in.exec(fr, s.Post)
				}
				continue
			}
			if s.Cond != nil {
				c := in.eval(fr, s.Cond)
				if c.name != "" && in.collect == nil {
					e8fail("loop condition is not concrete")
				}
				if in.collect != nil && c.name != "" {
					return nil
				}
				if !in.boolOf(c) {
					break
				}
			}
			if r := in.loopBody(fr, s.Body); r != nil {
				if r == breakSignal {
					break
				}
				if r != continueSignal {
					return r
				}
			}
			if s.Post != nil {
				in.exec(fr, s.Post)
			}
		}
		return nil
	case *ast.SwitchStmt:
		if s.Init != nil {
			in.exec(fr, s.Init)
		}
		if s.Tag == nil {
			var def *ast.CaseClause
			for _, cl := range s.Body.List {
				cc := cl.(*ast.CaseClause)
				if cc.List == nil {
					def = cc
					continue
				}
				hit := false
				for _, e := range cc.List {
					if in.collect != nil {
						in.boolOf(in.eval(fr, e))
						continue
					}
					if in.boolOf(in.eval(fr, e)) {
						hit = true
						break
					}
				}
				if in.collect != nil {
					in.execCopy(fr, &ast.BlockStmt{List: cc.Body})
					continue
				}
				if hit {
					return in.switchBody(fr, cc.Body)
				}
			}
			if def != nil {
				if in.collect != nil {
					in.execCopy(fr, &ast.BlockStmt{List: def.Body})
					return nil
				}
				return in.switchBody(fr, def.Body)
			}
			return nil
		}
		tag := in.eval(fr, s.Tag)
		var def *ast.CaseClause
		for _, cl := range s.Body.List {
			cc := cl.(*ast.CaseClause)
			if cc.List == nil {
				def = cc
				continue
			}
			for _, e := range cc.List {
				if in.collect != nil {
					in.compare(token.EQL, tag, in.eval(fr, e))
					continue
				}
				if in.compare(token.EQL, tag, in.eval(fr, e)) {
					return in.switchBody(fr, cc.Body)
				}
			}
			if in.collect != nil {
				in.execCopy(fr, &ast.BlockStmt{List: cc.Body})
			}
		}
		if def != nil {
			if in.collect != nil {
				in.execCopy(fr, &ast.BlockStmt{List: def.Body})
				return nil
			}
			return in.switchBody(fr, def.Body)
		}
		return nil
	case *ast.TypeSwitchStmt:
		// switch v := x.(type): each case is an opaque boolean "x is T"; v is x seen as a T
		var operand ast.Expr
		var bound *ast.Ident
		switch a := s.Assign.(type) {
		case *ast.AssignStmt:
			if ta, ok := ast.Unparen(a.Rhs[0]).(*ast.TypeAssertExpr); ok {
				operand = ta.X
			}
			bound, _ = a.Lhs[0].(*ast.Ident)
		case *ast.ExprStmt:
			if ta, ok := ast.Unparen(a.X).(*ast.TypeAssertExpr); ok {
				operand = ta.X
			}
		}
		if operand == nil {
			e8fail("unsupported type switch")
		}
		ov := in.evalQuiet(fr, operand)
		oname := in.valName(ov, operand)
		var def *ast.CaseClause
		for _, cl := range s.Body.List {
			cc := cl.(*ast.CaseClause)
			if cc.List == nil {
				def = cc
				continue
			}
			hit := false
			var hitType types.Type
			for _, te := range cc.List {
				t := info.TypeOf(te)
				name := "is(" + oname + "," + typeStr(t) + ")"
				if in.collect != nil {
					in.collect.bools[name] = true
					hitType = t
					continue
				}
				if in.a.B(name) {
					hit, hitType = true, t
					break
				}
			}
			bind := func() {
				if o := info.Implicits[cc]; o != nil && hitType != nil {
					fr.vars[o] = in.newInput(oname+".("+typeStr(hitType)+")", hitType)
				}
				_ = bound
			}
			if in.collect != nil {
				nf := newFrame(fr.pkg)
				for k, v := range fr.vars {
					nf.vars[k] = v.clone()
				}
				if o := info.Implicits[cc]; o != nil && hitType != nil {
					nf.vars[o] = in.newInput(oname+".("+typeStr(hitType)+")", hitType)
				}
				in.runBody(nf, cc.Body)
				continue
			}
			if hit {
				bind()
				return in.switchBody(fr, cc.Body)
			}
		}
		if def != nil {
			if in.collect != nil {
				in.execCopy(fr, &ast.BlockStmt{List: def.Body})
				return nil
			}
			if o := info.Implicits[def]; o != nil && ov != nil {
				fr.vars[o] = ov
			}
			return in.switchBody(fr, def.Body)
		}
		return nil
	case *ast.BranchStmt:
		switch s.Tok {
		case token.BREAK:
			return breakSignal
		case token.CONTINUE:
			return continueSignal
		}
	}
	if rs, ok := st.(*ast.RangeStmt); ok && in.rangeMax > 0 {
		// bounded abstraction of a range over an opaque slice: up to rangeMax iterations, each decided by an
		// enumerated atom more(x)#j, over distinct opaque elements x[#j]
		xname := in.valName(in.evalQuiet(fr, rs.X), rs.X)
		info := fr.pkg.TypesInfo
		for j := 0; j < in.rangeMax; j++ {
			name := fmt.Sprintf("more(%s)#%d", xname, j)
			enter := false
			if in.collect != nil {
				in.collect.bools[name] = true
				enter = true
			} else {
				enter = in.a.B(name)
			}
			if !enter {
				break
			}
			if id, ok := rs.Key.(*ast.Ident); ok && id.Name != "_" {
				if o := info.ObjectOf(id); o != nil {
					fr.vars[o] = &val{k: kInt, n: int64(j), typ: o.Type()}
				}
			}
			if id, ok := rs.Value.(*ast.Ident); ok && id.Name != "_" {
				if o := info.ObjectOf(id); o != nil {
					fr.vars[o] = in.newInput(fmt.Sprintf("%s[#%d]", xname, j), o.Type())
				}
			}
			if r := in.loopBody(fr, rs.Body); r != nil {
				if r == breakSignal {
					break
				}
				if r != continueSignal {
					return r
				}
			}
		}
		return nil
	}
	if rs, ok := st.(*ast.RangeStmt); ok && in.rangeOnce {
		// abstraction for rows that do not depend on the loop: the body runs zero times or once
		name := "nonempty(" + in.valName(in.evalQuiet(fr, rs.X), rs.X) + ")"
		in.trace = append(in.trace, e8call{name: "range(" + types.ExprString(rs.X) + ")", fn: "range"})
		enter := false
		if in.collect != nil {
			in.collect.bools[name] = true
			enter = true
		} else {
			enter = in.a.B(name)
		}
		if !enter {
			return nil
		}
		info := fr.pkg.TypesInfo
		for i, e := range []ast.Expr{rs.Key, rs.Value} {
			if id, ok := e.(*ast.Ident); ok && id.Name != "_" {
				if o := info.ObjectOf(id); o != nil {
					fr.vars[o] = in.newInput(fmt.Sprintf("%s[%s]", types.ExprString(rs.X), []string{"k", "i"}[i]), o.Type())
				}
			}
		}
		if r := in.loopBody(fr, rs.Body); r != nil && r != breakSignal && r != continueSignal {
			return r
		}
		return nil
	}
	e8fail("unsupported statement %T", st)
	return nil
}

// switchBody runs a case body; a `break` inside it leaves the switch only.
func (in *e8interp) switchBody(fr *e8frame, body []ast.Stmt) *e8return {
	r := in.runBody(fr, body)
	if r == breakSignal {
		return nil
	}
	return r
}

var breakSignal = &e8return{}
var continueSignal = &e8return{}

func (in *e8interp) loopBody(fr *e8frame, b *ast.BlockStmt) *e8return {
	return in.runBody(fr, b.List)
}

func (in *e8interp) execCopy(fr *e8frame, st ast.Stmt) *e8return {
	nf := newFrame(fr.pkg)
	for k, v := range fr.vars {
		nf.vars[k] = v.clone()
	}
	for k, v := range fr.named {
		nf.named[k] = v.clone()
	}
	for k, v := range fr.lazy {
		nf.lazy[k] = v
	}
	return in.exec(nf, st)
}

// ---- enumeration of weak orders ----

// weakOrders calls f with every weak order of n items (ranks 0..m-1, onto).
func weakOrders(n int, f func(r []int)) {
	r := make([]int, n)
	var rec2 func(i, m int)
	rec2 = func(i, m int) {
		if i == n {
			seen := make([]bool, m)
			for _, x := range r {
				seen[x] = true
			}
			for _, s := range seen {
				if !s {
					return
				}
			}
			f(r)
			return
		}
		for v := 0; v < m; v++ {
			r[i] = v
			rec2(i+1, m)
		}
	}
	if n == 0 {
		f(r)
		return
	}
	for m := 1; m <= n; m++ {
		rec2(0, m)
	}
}

func numericAtom(name string) (float64, bool) {
	f, err := strconv.ParseFloat(strings.TrimSpace(name), 64)
	return f, err == nil
}
