package main

import (
	"bytes"
	"encoding/json"
	"flag"
	"fmt"
	"os"
	"os/exec"
	"path/filepath"
	"sort"
	"strings"
	"sync"
)

// Witnesses are source variants of /repo used to test the checkers both ways:
// a breaking variant (still compiles, chosen to pass the existing suite) must
// be reported by the named property check, a benign variant (behaviour
// preserving refactor) must not be reported.  Variants are analysed through a
// go/packages overlay: nothing is written into /repo and nothing is executed.

type Witness struct {
	ID       string   `json:"id"`
	Kind     string   `json:"kind"` // breaking | benign
	Props    []string `json:"props"`
	File     string   `json:"file,omitempty"`
	Old      string   `json:"old,omitempty"`
	New      string   `json:"new,omitempty"`
	Patch    string   `json:"patch,omitempty"` // path relative to /verif
	Expect   string   `json:"expect_rule,omitempty"`
	Note     string   `json:"note,omitempty"`
	Sentinel bool     `json:"sentinel,omitempty"`
	Missed   []string `json:"known_miss,omitempty"` // properties that are documented not to catch it
}

func loadWitnesses() ([]Witness, error) {
	home := verifDir()
	var ws []Witness
	b, err := os.ReadFile(filepath.Join(home, "witness", "mutants.json"))
	if err == nil {
		if err := json.Unmarshal(b, &ws); err != nil {
			return nil, fmt.Errorf("witness/mutants.json: %v", err)
		}
	}
	// seeded changes kept from independent sub-agents
	ents, _ := os.ReadDir(filepath.Join(home, "seeded"))
	for _, e := range ents {
		mp := filepath.Join(home, "seeded", e.Name(), "meta.json")
		mb, err := os.ReadFile(mp)
		if err != nil {
			continue
		}
		var meta struct {
			Property   string   `json:"property"`
			DetectedBy []string `json:"detected_by"`
		}
		if json.Unmarshal(mb, &meta) != nil {
			continue
		}
		w := Witness{ID: "seeded/" + e.Name(), Kind: "breaking", Props: meta.DetectedBy,
			Patch: filepath.Join("seeded", e.Name(), "patch.diff"), Note: "independent seeded change for " + meta.Property}
		if len(meta.DetectedBy) == 0 {
			w.Missed = []string{meta.Property}
		}
		ws = append(ws, w)
	}
	// reverse patches of the fix: commits (witness/reverts/Dn.diff)
	if rb, err := os.ReadFile(filepath.Join(home, "witness", "reverts", "meta.json")); err == nil {
		var rm map[string]struct {
			Props  []string `json:"props"`
			Expect string   `json:"expect_rule"`
			Note   string   `json:"note"`
		}
		if err := json.Unmarshal(rb, &rm); err != nil {
			return nil, fmt.Errorf("witness/reverts/meta.json: %v", err)
		}
		var ids []string
		for id := range rm {
			ids = append(ids, id)
		}
		sort.Strings(ids)
		for _, id := range ids {
			m := rm[id]
			ws = append(ws, Witness{ID: "revert/" + id, Kind: "breaking", Props: m.Props, Expect: m.Expect,
				Patch: filepath.Join("witness", "reverts", id+".diff"), Note: m.Note})
		}
	}
	// behaviour-preserving refactors written by independent sub-agents
	// (witness/benign/<prop>-bN.diff): the property's check must stay silent
	bens, _ := filepath.Glob(filepath.Join(home, "witness", "benign", "*.diff"))
	sort.Strings(bens)
	for _, bp := range bens {
		name := strings.TrimSuffix(filepath.Base(bp), ".diff")
		prop := name
		if i := strings.Index(name, "-"); i > 0 {
			prop = name[:i]
		}
		ws = append(ws, Witness{ID: "benign/" + name, Kind: "benign", Props: []string{prop},
			Patch: filepath.Join("witness", "benign", filepath.Base(bp)), Note: "independent behaviour-preserving refactor aimed at " + prop})
	}
	return ws, nil
}

// overlayFor builds the go/packages overlay of a witness against repo.
// ok=false means the variant no longer applies to the current tree.
func overlayFor(w *Witness, repo string) (map[string][]byte, bool, error) {
	if w.Patch == "" {
		path := filepath.Join(repo, w.File)
		b, err := os.ReadFile(path)
		if err != nil {
			return nil, false, nil
		}
		if strings.Count(string(b), w.Old) != 1 {
			return nil, false, nil
		}
		nb := strings.Replace(string(b), w.Old, w.New, 1)
		return map[string][]byte{path: []byte(nb)}, true, nil
	}
	patch := filepath.Join(verifDir(), w.Patch)
	pb, err := os.ReadFile(patch)
	if err != nil {
		return nil, false, err
	}
	var files []string
	for _, l := range strings.Split(string(pb), "\n") {
		if strings.HasPrefix(l, "+++ b/") {
			files = append(files, strings.TrimSpace(strings.TrimPrefix(l, "+++ b/")))
		}
	}
	tmp, err := os.MkdirTemp("", "geoverif-witness-")
	if err != nil {
		return nil, false, err
	}
	defer os.RemoveAll(tmp)
	for _, f := range files {
		src, err := os.ReadFile(filepath.Join(repo, f))
		if err != nil {
			continue // new file
		}
		os.MkdirAll(filepath.Dir(filepath.Join(tmp, f)), 0o755)
		os.WriteFile(filepath.Join(tmp, f), src, 0o644)
	}
	cmd := exec.Command("git", "apply", "--whitespace=nowarn", patch)
	cmd.Dir = tmp
	cmd.Env = append(os.Environ(), "GIT_DIR=/nonexistent", "GIT_CEILING_DIRECTORIES=/")
	if out, err := cmd.CombinedOutput(); err != nil {
		_ = out
		return nil, false, nil
	}
	ov := map[string][]byte{}
	for _, f := range files {
		nb, err := os.ReadFile(filepath.Join(tmp, f))
		if err != nil {
			continue
		}
		ov[filepath.Join(repo, f)] = nb
	}
	return ov, true, nil
}

type mutantResult struct {
	Applied bool   `json:"applied"`
	Failing []*Ob  `json:"failing"`
	Err     string `json:"err,omitempty"`
}

// cmdMutant: geoverif mutant --prop Cxx --id ID [--repo DIR]; prints JSON.
func cmdMutant(args []string) int {
	fs := flag.NewFlagSet("mutant", flag.ExitOnError)
	prop := fs.String("prop", "", "")
	id := fs.String("id", "", "")
	repo := fs.String("repo", "", "")
	fs.Parse(args)
	res := mutantResult{}
	out := func() int {
		b, _ := json.Marshal(res)
		fmt.Println(string(b))
		return 0
	}
	def := properties[*prop]
	ws, err := loadWitnesses()
	if def == nil || err != nil {
		res.Err = fmt.Sprint("bad arguments ", err)
		return out()
	}
	var w *Witness
	for i := range ws {
		if ws[i].ID == *id {
			w = &ws[i]
		}
	}
	if w == nil {
		res.Err = "unknown witness " + *id
		return out()
	}
	ov, ok, err := overlayFor(w, repoDir(*repo))
	if err != nil {
		res.Err = err.Error()
		return out()
	}
	if !ok {
		return out()
	}
	res.Applied = true
	c, _ := runProperty(def, "quick", repoDir(*repo), "", ov)
	known, _ := loadKnown(filepath.Join(verifDir(), "known_findings.json"))
	for _, o := range c.Obs {
		if o.st != Discharged && (known == nil || known.match(c.Prop, o) == nil) {
			res.Failing = append(res.Failing, o)
		}
	}
	return out()
}

func runMutantProc(prop, id, repo string) mutantResult {
	exe, _ := os.Executable()
	cmd := exec.Command(exe, "mutant", "--prop", prop, "--id", id, "--repo", repo)
	cmd.Env = append(os.Environ(), "GEOVERIF_HOME="+verifDir())
	var stdout bytes.Buffer
	cmd.Stdout = &stdout
	err := cmd.Run()
	var r mutantResult
	lines := strings.Split(strings.TrimSpace(stdout.String()), "\n")
	if err != nil || len(lines) == 0 || json.Unmarshal([]byte(lines[len(lines)-1]), &r) != nil {
		r.Err = fmt.Sprintf("mutant process failed: %v", err)
	}
	return r
}

func applies(w *Witness, prop string) (expected, miss bool) {
	for _, p := range w.Props {
		if p == prop {
			return true, false
		}
	}
	for _, p := range w.Missed {
		if p == prop {
			return false, true
		}
	}
	return false, false
}

func runWitnessSet(c *Check, def *PropertyDef, repo string, extra map[string]interface{}, sentinelOnly bool) {
	ws, err := loadWitnesses()
	if err != nil {
		c.Undecided("witness", "witness-table", "", err.Error())
		return
	}
	base := map[string]bool{}
	for _, o := range c.Obs {
		if o.st != Discharged {
			base[o.Key()] = true
		}
	}
	type job struct {
		w    *Witness
		miss bool
		res  mutantResult
	}
	var jobs []*job
	for i := range ws {
		w := &ws[i]
		exp, miss := applies(w, def.ID)
		if !exp && !miss {
			continue
		}
		if sentinelOnly && !(w.Sentinel && exp) {
			continue
		}
		jobs = append(jobs, &job{w: w, miss: miss})
	}
	sem := make(chan struct{}, 8)
	var wg sync.WaitGroup
	for _, j := range jobs {
		wg.Add(1)
		go func(j *job) {
			defer wg.Done()
			sem <- struct{}{}
			defer func() { <-sem }()
			j.res = runMutantProc(def.ID, j.w.ID, repo)
		}(j)
	}
	wg.Wait()
	sort.Slice(jobs, func(i, k int) bool { return jobs[i].w.ID < jobs[k].w.ID })
	var applied, skipped, detected, silent, missed int
	var lines []string
	for _, j := range jobs {
		w := j.w
		if j.res.Err != "" {
			c.Undecided("witness", w.ID, "", "could not analyse the variant: "+j.res.Err)
			continue
		}
		if !j.res.Applied {
			skipped++
			lines = append(lines, w.ID+": skipped (no longer applies to the current tree)")
			continue
		}
		applied++
		var fresh []*Ob
		for _, o := range j.res.Failing {
			if !base[o.Key()] {
				fresh = append(fresh, o)
			}
		}
		hit := ""
		for _, o := range fresh {
			if w.Expect == "" || strings.HasPrefix(o.Rule, w.Expect) {
				hit = o.Rule + " :: " + o.Construct
				break
			}
		}
		switch {
		case j.miss:
			if len(fresh) > 0 {
				lines = append(lines, w.ID+": documented miss, but reported by "+fresh[0].Rule+" :: "+fresh[0].Construct)
			} else {
				missed++
				lines = append(lines, w.ID+": documented miss (not reachable by the structural rules of this property)")
			}
		case w.Kind == "breaking":
			if hit != "" {
				detected++
				c.OK("witness.breaking", w.ID, "", "reported by "+hit)
				lines = append(lines, w.ID+": reported by "+hit)
			} else {
				d := "the breaking variant is not reported"
				if len(fresh) > 0 {
					d += " by the expected rule " + w.Expect + " (other reports: " + fresh[0].Rule + " :: " + fresh[0].Construct + ")"
				}
				c.Bad("witness.breaking", w.ID, "", d+": the check is blind to a violation it claims to decide")
			}
		case w.Kind == "benign":
			if len(fresh) == 0 {
				silent++
				c.OK("witness.benign", w.ID, "", "behaviour-preserving variant stays silent")
				lines = append(lines, w.ID+": silent (benign)")
			} else {
				c.Bad("witness.benign", w.ID, "", "a behaviour-preserving variant is reported ("+fresh[0].Rule+" :: "+fresh[0].Construct+"): the rule raises false alarms")
			}
		}
	}
	extra["programs"] = applied + 1
	extra["disagreements_checked"] = applied
	extra["witness_variants"] = map[string]int{"applied": applied, "skipped": skipped, "breaking_reported": detected, "benign_silent": silent, "documented_misses": missed}
	extra["witness_results"] = lines
}

func runWitnesses(c *Check, def *PropertyDef, repo string, extra map[string]interface{}) {
	runWitnessSet(c, def, repo, extra, false)
}

func runSentinels(c *Check, def *PropertyDef, repo string, extra map[string]interface{}) {
	runWitnessSet(c, def, repo, extra, true)
}
