package main

func runWitnesses(c *Check, def *PropertyDef, repo string, extra map[string]interface{}) {}
func runSentinels(c *Check, def *PropertyDef, repo string, extra map[string]interface{}) {}
func cmdMutant(args []string) int { return 0 }
