package main

import (
	"fmt"
	"go/ast"
	"go/token"
	"go/types"
	"os"
	"regexp"
	"sort"
	"strings"
)

// e8out is what one abstract run produced.
type e8out struct {
	in       *e8interp // the run (for its call trace)
	signal   *e8return // break/continue signal that ended a loop-body run
	returned bool
	ret      []*val
	fr       *e8frame
	recv     *val
	params   []*val
}

type e8row struct {
	id          string
	what        string // the specification in words
	fn          *types.Func
	run         func(in *e8interp) *e8out // default: whole body of fn with recv/p0.. inputs
	slice       func(fd *ast.FuncDecl) []ast.Stmt
	atoms       []string // atoms the specification needs even if the code does not mention them
	group       func(name string) int
	pre         func(a *e8assign, names *e8names) bool // may be called with a partial assignment (use a.has)
	lenEqOpaque bool
	havoc       bool
	rangeOnce   bool
	rangeMax    int
	maxBools    int
	opaquePkg   map[*types.Package]bool
	opaque      map[*types.Func]bool
	spec        func(a *e8assign, names *e8names, out *e8out) string
}

// e8names gives the spec access to the discovered atom names.
type e8names struct {
	scalars []string
	bools   []string
}

func (n *e8names) match(re string) []string {
	r := regexp.MustCompile(re)
	var out []string
	for _, s := range n.scalars {
		if r.MatchString(s) {
			out = append(out, s)
		}
	}
	return out
}

func (n *e8names) one(re string) string {
	m := n.match(re)
	if len(m) != 1 {
		e8fail("expected exactly one atom matching %s, found %v", re, m)
	}
	return m[0]
}

func axisGroup(name string) int {
	switch {
	case strings.HasSuffix(name, ".X") || strings.HasSuffix(name, "[0]") || strings.Contains(name, ".X)") || strings.Contains(name, ".X+"):
		return 1
	case strings.HasSuffix(name, ".Y") || strings.HasSuffix(name, "[1]") || strings.Contains(name, ".Y)") || strings.Contains(name, ".Y+"):
		return 2
	}
	return 0
}

func (p *Program) bindInputs(in *e8interp, fn *types.Func) (*e8frame, *e8out) {
	fd, pkg := p.Decl(fn), p.DeclPkg(fn)
	fr := newFrame(pkg)
	out := &e8out{fr: fr}
	small := func(t types.Type) bool {
		// geometry values are bound eagerly (the specifications read them);
		// option/key structs of the object layer are created on first use
		if pt, ok := t.Underlying().(*types.Pointer); ok {
			t = pt.Elem()
		}
		if nt, ok := types.Unalias(t).(*types.Named); ok && nt.Obj().Pkg() == p.Geojson.Types {
			return false
		}
		return true
	}
	if fd.Recv != nil && len(fd.Recv.List) > 0 && len(fd.Recv.List[0].Names) > 0 {
		o := pkg.TypesInfo.Defs[fd.Recv.List[0].Names[0]]
		out.recv = in.newInput("recv", o.Type())
		fr.vars[o] = out.recv
	}
	i := 0
	for _, f := range fd.Type.Params.List {
		for _, n := range f.Names {
			o := pkg.TypesInfo.Defs[n]
			name := fmt.Sprintf("p%d", i)
			if small(o.Type()) {
				v := in.newInput(name, o.Type())
				fr.vars[o] = v
				out.params = append(out.params, v)
			} else {
				fr.lazy[o] = name
				out.params = append(out.params, nil)
			}
			i++
		}
	}
	if fd.Type.Results != nil {
		for _, f := range fd.Type.Results.List {
			for _, n := range f.Names {
				fr.vars[pkg.TypesInfo.Defs[n]] = zeroVal(pkg.TypesInfo.TypeOf(f.Type))
			}
		}
	}
	return fr, out
}

func (p *Program) defaultRun(row *e8row) func(in *e8interp) *e8out {
	return func(in *e8interp) *e8out {
		fd := p.Decl(row.fn)
		fr, out := p.bindInputs(in, row.fn)
		stmts := fd.Body.List
		if row.slice != nil {
			// in a statement slice the named results are ordinary (loop-carried) inputs
			if fd.Type.Results != nil {
				pkg := p.DeclPkg(row.fn)
				for _, f := range fd.Type.Results.List {
					for _, n := range f.Names {
						delete(fr.vars, pkg.TypesInfo.Defs[n])
					}
				}
			}
			stmts = row.slice(fd)
			if stmts == nil {
				e8fail("the statement slice the rule applies to was not found in %s", FuncName(row.fn))
			}
		}
		r := in.runBody(fr, stmts)
		if r != nil && r != breakSignal && r != continueSignal {
			out.returned = true
			out.ret = r.vals
		}
		return out
	}
}

func describeOrder(a *e8assign, names []string) string {
	byGroup := map[int][]string{}
	for _, n := range names {
		g := 0
		if a.group != nil {
			g = a.group(n)
		}
		byGroup[g] = append(byGroup[g], n)
	}
	var gs []int
	for g := range byGroup {
		gs = append(gs, g)
	}
	sort.Ints(gs)
	var parts []string
	for _, g := range gs {
		ns := byGroup[g]
		sort.Slice(ns, func(i, j int) bool {
			if a.rank[ns[i]] != a.rank[ns[j]] {
				return a.rank[ns[i]] < a.rank[ns[j]]
			}
			return ns[i] < ns[j]
		})
		var sb strings.Builder
		for i, n := range ns {
			if i > 0 {
				if a.rank[n] == a.rank[ns[i-1]] {
					sb.WriteString(" = ")
				} else {
					sb.WriteString(" < ")
				}
			}
			sb.WriteString(n)
		}
		parts = append(parts, sb.String())
	}
	var bs []string
	for k, v := range a.bools {
		bs = append(bs, fmt.Sprintf("%s=%v", k, v))
	}
	sort.Strings(bs)
	if len(bs) > 0 {
		parts = append(parts, strings.Join(bs, ", "))
	}
	return strings.Join(parts, " ; ")
}

// runE8 tabulates one row.
func (p *Program) runE8(c *Check, row *e8row) {
	rule := "E8"
	construct := row.id
	pos := ""
	if row.fn != nil {
		pos = p.declPos(row.fn)
		if p.Decl(row.fn) == nil || p.Decl(row.fn).Body == nil {
			c.Undecided(rule, construct, "", "function not found")
			return
		}
	}
	if row.group == nil {
		row.group = axisGroup
	}
	run := row.run
	if run == nil {
		run = p.defaultRun(row)
	}
	var failure string
	extra := &e8collector{scalars: map[string]bool{}, bools: map[string]bool{}}
	restarts := 0
restart:
	retry := false
	func() {
		defer func() {
			if r := recover(); r != nil {
				if e, ok := r.(e8err); ok {
					failure = e.msg
					return
				}
				if u, ok := r.(e8unknown); ok {
					// an atom behind a branch that discovery did not carry forward: add it and start over
					if restarts < 40 && !extra.scalars[u.name] && !extra.bools[u.name] {
						if u.isBool {
							extra.bools[u.name] = true
						} else {
							extra.scalars[u.name] = true
						}
						retry = true
						return
					}
					failure = "the value " + u.name + " is outside the comparison-network model"
					return
				}
				panic(r)
			}
		}()
		// discovery
		col := &e8collector{scalars: map[string]bool{}, bools: map[string]bool{}}
		run(&e8interp{p: p, collect: col, lenEqOpaque: row.lenEqOpaque, opaque: row.opaque, havoc: row.havoc, opaquePkg: row.opaquePkg, rangeOnce: row.rangeOnce, rangeMax: row.rangeMax})
		for _, a := range row.atoms {
			col.scalars[a] = true
		}
		for a := range extra.scalars {
			col.scalars[a] = true
		}
		for a := range extra.bools {
			col.bools[a] = true
		}
		names := &e8names{}
		for s := range col.scalars {
			names.scalars = append(names.scalars, s)
		}
		for b := range col.bools {
			names.bools = append(names.bools, b)
		}
		sort.Strings(names.scalars)
		sort.Strings(names.bools)
		if os.Getenv("GEOVERIF_E8_NAMES") != "" {
			fmt.Fprintf(os.Stderr, "E8 %s\n  scalars: %q\n  bools: %q\n", row.id, names.scalars, names.bools)
		}
		groups := map[int][]string{}
		for _, s := range names.scalars {
			groups[row.group(s)] = append(groups[row.group(s)], s)
		}
		var gids []int
		for g := range groups {
			gids = append(gids, g)
		}
		sort.Ints(gids)
		for _, g := range gids {
			if len(groups[g]) > 9 {
				e8fail("%d atoms in one independence group: enumeration too large", len(groups[g]))
			}
		}
		maxBools := 14
		if row.maxBools > 0 {
			maxBools = row.maxBools
		}
		if len(names.bools) > maxBools {
			e8fail("too many opaque booleans (%d)", len(names.bools))
		}
		a := &e8assign{rank: map[string]int{}, bools: map[string]bool{}, group: row.group}
		evaluated, total := 0, 0
		var counter string
		var recGroups func(gi int)
		checkOne := func() {
			total++
			// constants must be ranked in their numeric order
			for _, g := range gids {
				ns := groups[g]
				for i := range ns {
					fi, ok1 := numericAtom(ns[i])
					if !ok1 {
						continue
					}
					for j := range ns {
						fj, ok2 := numericAtom(ns[j])
						if !ok2 || i == j {
							continue
						}
						ri, rj := a.rank[ns[i]], a.rank[ns[j]]
						if (fi < fj) != (ri < rj) || (fi == fj) != (ri == rj) {
							return
						}
					}
				}
			}
			if row.pre != nil && !row.pre(a, names) {
				return
			}
			evaluated++
			in := &e8interp{p: p, a: a, lenEqOpaque: row.lenEqOpaque, opaque: row.opaque, havoc: row.havoc, opaquePkg: row.opaquePkg, rangeOnce: row.rangeOnce, rangeMax: row.rangeMax}
			out := run(in)
			if out != nil {
				out.in = in
			}
			if msg := row.spec(a, names, out); msg != "" && counter == "" {
				counter = msg + "  [order type: " + describeOrder(a, names.scalars) + "]"
			}
		}
		var recBools func(bi int)
		recBools = func(bi int) {
			if counter != "" {
				return
			}
			if bi == len(names.bools) {
				checkOne()
				return
			}
			for _, v := range []bool{false, true} {
				a.bools[names.bools[bi]] = v
				recBools(bi + 1)
			}
		}
		recGroups = func(gi int) {
			if counter != "" {
				return
			}
			if gi == len(gids) {
				recBools(0)
				return
			}
			ns := groups[gids[gi]]
			weakOrders(len(ns), func(r []int) {
				if counter != "" {
					return
				}
				for _, later := range gids[gi+1:] {
					for _, n := range groups[later] {
						delete(a.rank, n)
					}
				}
				for i, n := range ns {
					a.rank[n] = r[i]
				}
				if row.pre != nil {
					// the booleans are not assigned yet at this stage: do not let a precondition see stale ones
					saved := a.bools
					a.bools = map[string]bool{}
					ok := func() (res bool) {
						defer func() {
							if rec := recover(); rec != nil {
								if _, isU := rec.(e8unknown); isU {
									res = true // the precondition needs a boolean: decided later, on the full assignment
									return
								}
								panic(rec)
							}
						}()
						return row.pre(a, names)
					}()
					a.bools = saved
					if !ok {
						return // prune: the precondition already fails on the atoms ranked so far
					}
				}
				recGroups(gi + 1)
			})
		}
		recGroups(0)
		c.Count("e8_order_types_evaluated", evaluated)
		if counter != "" {
			o := c.Bad(rule, construct, pos, "the code's truth table differs from the specification: "+row.what)
			o.Observed = counter
			o.Expected = row.what
			return
		}
		if evaluated == 0 {
			c.Undecided(rule, construct, pos, "no order type satisfied the precondition: the tabulation is vacuous")
			return
		}
		c.OK(rule, construct, pos, fmt.Sprintf("%s — tabulated over %d order types of %d atoms and %d opaque booleans, all agree", row.what, evaluated, len(names.scalars), len(names.bools)))
	}()
	if retry {
		restarts++
		// drop the obligations recorded by the aborted attempt
		goto restart
	}
	if failure != "" {
		c.Undecided(rule, construct, pos, "the code is not a comparison network the engine can tabulate ("+failure+"); spec: "+row.what)
	}
}

func imin(a, b int) int {
	if a < b {
		return a
	}
	return b
}
func imax(a, b int) int {
	if a > b {
		return a
	}
	return b
}

func retBool(in *e8out) (bool, bool) {
	if !in.returned || len(in.ret) != 1 || in.ret[0].k != kBool {
		return false, false
	}
	return in.ret[0].b, true
}

func leaf(v *val, path ...string) *val {
	for _, p := range path {
		if v == nil || v.k != kStruct {
			return nil
		}
		v = v.f[p]
	}
	return v
}

func (p *Program) e8Rows() map[string]*e8row {
	rows := map[string]*e8row{}
	add := func(r *e8row) { rows[r.id] = r }
	R := func(a *e8assign, n string) int { return a.R(n) }

	boxContains := func(a *e8assign, box, pt string) bool { // closed box membership of point pt
		return R(a, pt+".X") >= R(a, box+".Min.X") && R(a, pt+".X") <= R(a, box+".Max.X") &&
			R(a, pt+".Y") >= R(a, box+".Min.Y") && R(a, pt+".Y") <= R(a, box+".Max.Y")
	}

	add(&e8row{id: "geometry.Rect.ContainsPoint", fn: p.Method("geometry", "Rect", "ContainsPoint"),
		what: "a point is in a rectangle iff it is inside the closed box",
		spec: func(a *e8assign, n *e8names, out *e8out) string {
			got, ok := retBool(out)
			if !ok {
				return "no boolean result"
			}
			if want := boxContains(a, "recv", "p0"); got != want {
				return fmt.Sprintf("returns %v, closed-box membership is %v", got, want)
			}
			return ""
		}})
	add(&e8row{id: "geometry.Rect.ContainsRect", fn: p.Method("geometry", "Rect", "ContainsRect"),
		what: "rect contains other iff other.Min >= rect.Min and other.Max <= rect.Max on both axes",
		spec: func(a *e8assign, n *e8names, out *e8out) string {
			got, ok := retBool(out)
			want := R(a, "p0.Min.X") >= R(a, "recv.Min.X") && R(a, "p0.Max.X") <= R(a, "recv.Max.X") &&
				R(a, "p0.Min.Y") >= R(a, "recv.Min.Y") && R(a, "p0.Max.Y") <= R(a, "recv.Max.Y")
			if !ok || got != want {
				return fmt.Sprintf("returns %v, box containment is %v", got, want)
			}
			return ""
		}})
	add(&e8row{id: "geometry.Rect.IntersectsRect", fn: p.Method("geometry", "Rect", "IntersectsRect"),
		what: "two closed boxes intersect iff they overlap on both axes (symmetric in the operands)",
		spec: func(a *e8assign, n *e8names, out *e8out) string {
			got, ok := retBool(out)
			want := R(a, "recv.Min.X") <= R(a, "p0.Max.X") && R(a, "recv.Max.X") >= R(a, "p0.Min.X") &&
				R(a, "recv.Min.Y") <= R(a, "p0.Max.Y") && R(a, "recv.Max.Y") >= R(a, "p0.Min.Y")
			if !ok || got != want {
				return fmt.Sprintf("returns %v, closed boxes share a point: %v", got, want)
			}
			return ""
		}})
	add(&e8row{id: "geometry.Point.Valid", fn: p.Method("geometry", "Point", "Valid"),
		what:  "valid iff longitude in [-180,180] and latitude in [-90,90]",
		atoms: []string{"-180", "180", "-90", "90"},
		group: func(n string) int {
			if n == "-180" || n == "180" {
				return 1
			}
			if n == "-90" || n == "90" {
				return 2
			}
			if f, ok := numericAtom(n); ok {
				_ = f
				return 3 // a constant the specification does not know: compared with X or Y it fails the group check
			}
			return axisGroup(n)
		},
		spec: func(a *e8assign, n *e8names, out *e8out) string {
			got, ok := retBool(out)
			want := R(a, "recv.X") >= R(a, "-180") && R(a, "recv.X") <= R(a, "180") && R(a, "recv.Y") >= R(a, "-90") && R(a, "recv.Y") <= R(a, "90")
			if !ok || got != want {
				return fmt.Sprintf("returns %v, in-range is %v", got, want)
			}
			return ""
		}})
	add(&e8row{id: "geometry.Rect.Valid", fn: p.Method("geometry", "Rect", "Valid"),
		what:  "a rectangle is valid iff both corners are valid positions",
		atoms: []string{"-180", "180", "-90", "90"},
		group: func(n string) int {
			if n == "-180" || n == "180" {
				return 1
			}
			if n == "-90" || n == "90" {
				return 2
			}
			if _, ok := numericAtom(n); ok {
				return 3
			}
			return axisGroup(n)
		},
		spec: func(a *e8assign, n *e8names, out *e8out) string {
			got, ok := retBool(out)
			v := func(pt string) bool {
				return R(a, pt+".X") >= R(a, "-180") && R(a, pt+".X") <= R(a, "180") && R(a, pt+".Y") >= R(a, "-90") && R(a, pt+".Y") <= R(a, "90")
			}
			want := v("recv.Min") && v("recv.Max")
			if !ok || got != want {
				return fmt.Sprintf("returns %v, both corners in range: %v", got, want)
			}
			return ""
		}})
	minmaxSpec := func(what string, outMinX, outMinY, outMaxX, outMaxY func(out *e8out) *val, ins func(axis, which string) []string) func(a *e8assign, n *e8names, out *e8out) string {
		return func(a *e8assign, n *e8names, out *e8out) string {
			chk := func(v *val, names []string, wantMin bool, label string) string {
				if v == nil || v.k != kScalar {
					return label + " is not a selected input"
				}
				w := R(a, names[0])
				for _, x := range names[1:] {
					if wantMin {
						w = imin(w, R(a, x))
					} else {
						w = imax(w, R(a, x))
					}
				}
				if R(a, v.name) != w {
					return fmt.Sprintf("%s is %s, which is not the %s of %v", label, v.name, map[bool]string{true: "minimum", false: "maximum"}[wantMin], names)
				}
				return ""
			}
			for _, t := range []struct {
				v     *val
				names []string
				min   bool
				label string
			}{
				{outMinX(out), ins("X", "min"), true, "Min.X"}, {outMinY(out), ins("Y", "min"), true, "Min.Y"},
				{outMaxX(out), ins("X", "max"), false, "Max.X"}, {outMaxY(out), ins("Y", "max"), false, "Max.Y"},
			} {
				if m := chk(t.v, t.names, t.min, t.label); m != "" {
					return m
				}
			}
			return ""
		}
	}
	retLeaf := func(path ...string) func(out *e8out) *val {
		return func(out *e8out) *val {
			if !out.returned || len(out.ret) != 1 {
				return nil
			}
			return leaf(out.ret[0], path...)
		}
	}
	add(&e8row{id: "geometry.Segment.Rect", fn: p.Method("geometry", "Segment", "Rect"),
		what: "the box of a segment is (min x, min y)-(max x, max y) of its two endpoints",
		spec: minmaxSpec("", retLeaf("Min", "X"), retLeaf("Min", "Y"), retLeaf("Max", "X"), retLeaf("Max", "Y"),
			func(axis, which string) []string { return []string{"recv.A." + axis, "recv.B." + axis} })})
	add(&e8row{id: "geojson.unionRects", fn: p.Func("geojson", "unionRects"),
		what: "the union box is the component-wise min of the Min corners and max of the Max corners",
		spec: minmaxSpec("", retLeaf("Min", "X"), retLeaf("Min", "Y"), retLeaf("Max", "X"), retLeaf("Max", "Y"),
			func(axis, which string) []string {
				if which == "min" {
					return []string{"p0.Min." + axis, "p1.Min." + axis}
				}
				return []string{"p0.Max." + axis, "p1.Max." + axis}
			})})
	recvLeaf := func(path ...string) func(out *e8out) *val {
		return func(out *e8out) *val { return leaf(out.recv, path...) }
	}
	add(&e8row{id: "(*geometry.rRect).expand", fn: p.Method("geometry", "rRect", "expand"),
		what: "expand makes the receiver the component-wise min/max of itself and the argument",
		spec: minmaxSpec("", recvLeaf("min", "0"), recvLeaf("min", "1"), recvLeaf("max", "0"), recvLeaf("max", "1"),
			func(axis, which string) []string {
				i := map[string]string{"X": "0", "Y": "1"}[axis]
				return []string{"recv." + which + "[" + i + "]", "p0." + which + "[" + i + "]"}
			})})
	add(&e8row{id: "(*geometry.rRect).contains", fn: p.Method("geometry", "rRect", "contains"),
		what: "r contains b iff b.min >= r.min and b.max <= r.max on both axes",
		spec: func(a *e8assign, n *e8names, out *e8out) string {
			got, ok := retBool(out)
			want := true
			for _, i := range []string{"[0]", "[1]"} {
				want = want && R(a, "p0.min"+i) >= R(a, "recv.min"+i) && R(a, "p0.max"+i) <= R(a, "recv.max"+i)
			}
			if !ok || got != want {
				return fmt.Sprintf("returns %v, containment is %v", got, want)
			}
			return ""
		}})
	add(&e8row{id: "(*geometry.rRect).intersects", fn: p.Method("geometry", "rRect", "intersects"),
		what: "closed boxes intersect iff they overlap on both axes",
		spec: func(a *e8assign, n *e8names, out *e8out) string {
			got, ok := retBool(out)
			want := true
			for _, i := range []string{"[0]", "[1]"} {
				want = want && R(a, "p0.min"+i) <= R(a, "recv.max"+i) && R(a, "p0.max"+i) >= R(a, "recv.min"+i)
			}
			if !ok || got != want {
				return fmt.Sprintf("returns %v, overlap is %v", got, want)
			}
			return ""
		}})

	// processPoints: inductive step and base case of the bounding box
	pp := p.Func("geometry", "processPoints")
	findRectIf := func(fd *ast.FuncDecl) *ast.IfStmt {
		var found *ast.IfStmt
		ast.Inspect(fd.Body, func(n ast.Node) bool {
			var list []ast.Stmt
			switch l := n.(type) {
			case *ast.ForStmt:
				list = l.Body.List
			case *ast.RangeStmt:
				list = l.Body.List
			}
			if list == nil || found != nil {
				return true
			}
			for _, st := range list {
				if is, ok := st.(*ast.IfStmt); ok && is.Else != nil {
					if be, ok := is.Cond.(*ast.BinaryExpr); ok && be.Op == token.EQL {
						if lit, ok := be.Y.(*ast.BasicLit); ok && lit.Value == "0" {
							found = is
							return false
						}
					}
				}
			}
			return true
		})
		return found
	}
	rectAtoms := func(n *e8names) (rminx, rminy, rmaxx, rmaxy, px, py string) {
		rminx, rminy = n.one(`\.Min\.X$`), n.one(`\.Min\.Y$`)
		rmaxx, rmaxy = n.one(`\.Max\.X$`), n.one(`\.Max\.Y$`)
		for _, s := range n.scalars {
			if strings.HasSuffix(s, ".X") && s != rminx && s != rmaxx {
				px = s
			}
			if strings.HasSuffix(s, ".Y") && s != rminy && s != rmaxy {
				py = s
			}
		}
		return
	}
	finalRect := func(out *e8out) *val {
		for o, v := range out.fr.vars {
			if o != nil && v.k == kStruct && v.f["Min"] != nil && v.f["Max"] != nil {
				return v
			}
		}
		return nil
	}
	add(&e8row{id: "geometry.processPoints#rect-step", fn: pp,
		what: "inductive step: if rect is the tight box of a non-empty prefix (Min <= Max) then after the step it is the tight box of prefix + point",
		slice: func(fd *ast.FuncDecl) []ast.Stmt {
			is := findRectIf(fd)
			if is == nil {
				return nil
			}
			if b, ok := is.Else.(*ast.BlockStmt); ok {
				return b.List
			}
			return []ast.Stmt{is.Else}
		},
		pre: func(a *e8assign, n *e8names) bool {
			rminx, rminy, rmaxx, rmaxy, _, _ := rectAtoms(n)
			if a.has(rminx, rmaxx) && R(a, rminx) > R(a, rmaxx) {
				return false
			}
			if a.has(rminy, rmaxy) && R(a, rminy) > R(a, rmaxy) {
				return false
			}
			return true
		},
		spec: func(a *e8assign, n *e8names, out *e8out) string {
			rminx, rminy, rmaxx, rmaxy, px, py := rectAtoms(n)
			r := finalRect(out)
			if r == nil || px == "" || py == "" {
				return "the rectangle variable or the point atoms were not found"
			}
			want := map[string]int{"Min.X": imin(R(a, rminx), R(a, px)), "Max.X": imax(R(a, rmaxx), R(a, px)),
				"Min.Y": imin(R(a, rminy), R(a, py)), "Max.Y": imax(R(a, rmaxy), R(a, py))}
			for _, k := range []string{"Min.X", "Max.X", "Min.Y", "Max.Y"} {
				parts := strings.Split(k, ".")
				v := leaf(r, parts...)
				if v == nil || v.k != kScalar || R(a, v.name) != want[k] {
					return "after the step rect." + k + " is not the " + map[string]string{"Min": "minimum", "Max": "maximum"}[parts[0]] + " over the prefix and the new point"
				}
			}
			return ""
		}})
	add(&e8row{id: "geometry.processPoints#rect-base", fn: pp,
		what: "base case: the box of the first point is that point",
		slice: func(fd *ast.FuncDecl) []ast.Stmt {
			is := findRectIf(fd)
			if is == nil {
				return nil
			}
			return is.Body.List
		},
		spec: func(a *e8assign, n *e8names, out *e8out) string {
			r := finalRect(out)
			if r == nil {
				return "the rectangle variable was not found"
			}
			var pt string
			for _, k := range [][]string{{"Min", "X"}, {"Max", "X"}, {"Min", "Y"}, {"Max", "Y"}} {
				v := leaf(r, k[0], k[1])
				if v == nil || v.k != kScalar || !strings.HasSuffix(v.name, "."+k[1]) || strings.Contains(v.name, ".Min.") || strings.Contains(v.name, ".Max.") || strings.HasPrefix(v.name, "(") {
					return "rect." + k[0] + "." + k[1] + " is not the first point's " + k[1] + " coordinate"
				}
				base := strings.TrimSuffix(v.name, "."+k[1])
				if pt == "" {
					pt = base
				} else if pt != base {
					return "the four sides of the initial box come from different points"
				}
			}
			return ""
		}})

	// quadtree: a rectangle assigned to quad q lies inside quadBounds(bounds, q)
	cq := p.Method("geometry", "qNode", "chooseQuad")
	qb := p.Func("geometry", "quadBounds")
	add(&e8row{id: "(*geometry.qNode).chooseQuad+quadBounds", fn: cq,
		what: "whenever rect lies in bounds and chooseQuad returns q >= 0, rect lies inside quadBounds(bounds, q); q is -1 or 0..3",
		run: func(in *e8interp) *e8out {
			if cq == nil || qb == nil || p.Decl(qb) == nil {
				e8fail("chooseQuad or quadBounds not found")
			}
			fr, out := p.bindInputs(in, cq)
			r := in.runBody(fr, p.Decl(cq).Body.List)
			if r == nil || len(r.vals) != 1 {
				e8fail("chooseQuad does not return a value")
			}
			out.returned = true
			out.ret = r.vals
			if in.collect != nil {
				// visit every quadrant so that all derived atoms are discovered
				for q := int64(0); q < 4; q++ {
					p.callQuadBounds(in, qb, out.params[0], q)
				}
				return out
			}
			if r.vals[0].k != kInt {
				e8fail("chooseQuad does not return a concrete quadrant")
			}
			if q := r.vals[0].n; q >= 0 {
				out.ret = append(out.ret, p.callQuadBounds(in, qb, out.params[0], q))
			}
			return out
		},
		pre: func(a *e8assign, n *e8names) bool {
			for _, ax := range []string{"X", "Y"} {
				mid := n.match(`^\(\(p0\.M(in|ax)\.` + ax + `\+p0\.M(in|ax)\.` + ax + `\)/2\)$`)
				if len(mid) != 1 {
					e8fail("expected one midpoint atom for axis %s, found %v", ax, mid)
				}
				if !a.has("p0.Min."+ax, "p0.Max."+ax, "p1.Min."+ax, "p1.Max."+ax, mid[0]) {
					continue
				}
				bmin, bmax := R(a, "p0.Min."+ax), R(a, "p0.Max."+ax)
				rmin, rmax := R(a, "p1.Min."+ax), R(a, "p1.Max."+ax)
				m := R(a, mid[0])
				if !(bmin <= bmax && rmin <= rmax && bmin <= rmin && rmax <= bmax && bmin <= m && m <= bmax) {
					return false
				}
				if bmin == bmax && m != bmin {
					return false
				}
			}
			return true
		},
		spec: func(a *e8assign, n *e8names, out *e8out) string {
			q := out.ret[0].n
			if q < -1 || q > 3 {
				return fmt.Sprintf("chooseQuad returned %d", q)
			}
			if q < 0 {
				return ""
			}
			b := out.ret[1]
			for _, ax := range []string{"X", "Y"} {
				lo, hi := leaf(b, "Min", ax), leaf(b, "Max", ax)
				if lo == nil || hi == nil || lo.k != kScalar || hi.k != kScalar {
					return "quadBounds did not produce a box"
				}
				if !(R(a, "p1.Min."+ax) >= R(a, lo.name) && R(a, "p1.Max."+ax) <= R(a, hi.name)) {
					return fmt.Sprintf("rect is assigned to quad %d but is not inside quadBounds(bounds,%d) on axis %s", q, q, ax)
				}
				// the quad itself lies inside the parent bounds
				if !(R(a, lo.name) >= R(a, "p0.Min."+ax) && R(a, hi.name) <= R(a, "p0.Max."+ax)) {
					return fmt.Sprintf("quadBounds(bounds,%d) is not inside bounds on axis %s", q, ax)
				}
			}
			return ""
		}})

	// Segment.IntersectsSegment: the comparison prefix
	iseg := p.Method("geometry", "Segment", "IntersectsSegment")
	add(&e8row{id: "geometry.Segment.IntersectsSegment#box-prefix", fn: iseg,
		what:  "before any arithmetic the function returns false exactly when the closed bounding boxes of the two segments are disjoint, and true only for a shared endpoint",
		slice: comparisonPrefix,
		spec: func(a *e8assign, n *e8names, out *e8out) string {
			disjoint := false
			for _, ax := range []string{"X", "Y"} {
				a1, a2 := R(a, "recv.A."+ax), R(a, "recv.B."+ax)
				b1, b2 := R(a, "p0.A."+ax), R(a, "p0.B."+ax)
				if imax(a1, a2) < imin(b1, b2) || imax(b1, b2) < imin(a1, a2) {
					disjoint = true
				}
			}
			got, ok := retBool(out)
			switch {
			case disjoint && !(ok && !got):
				return "bounding boxes are disjoint but the prefix does not return false"
			case !disjoint && ok && !got:
				return "bounding boxes meet but the prefix returns false"
			case ok && got:
				eq := func(u, v string) bool { return R(a, u+".X") == R(a, v+".X") && R(a, u+".Y") == R(a, v+".Y") }
				if !(eq("recv.A", "p0.A") || eq("recv.A", "p0.B") || eq("recv.B", "p0.A") || eq("recv.B", "p0.B")) {
					return "the prefix returns true although no endpoint is shared"
				}
			}
			return ""
		}})

	// Segment.Raycast: band test and axis-aligned on-segment cases
	rc := p.Method("geometry", "Segment", "Raycast")
	onSeg := func(a *e8assign) (on, axisAligned bool) {
		px, py := R(a, "p0.X"), R(a, "p0.Y")
		ax, ay, bx, by := R(a, "recv.A.X"), R(a, "recv.A.Y"), R(a, "recv.B.X"), R(a, "recv.B.Y")
		inx := px >= imin(ax, bx) && px <= imax(ax, bx)
		iny := py >= imin(ay, by) && py <= imax(ay, by)
		switch {
		case ax == bx && ay == by:
			return px == ax && py == ay, true
		case ay == by:
			return py == ay && inx, true
		case ax == bx:
			return px == ax && iny, true
		}
		return false, false
	}
	add(&e8row{id: "geometry.Segment.Raycast#comparison-prefix", fn: rc,
		what:  "before any arithmetic: an early {false,false} for a non-horizontal segment means the point's Y lies outside the segment's Y range and always happens then; for horizontal, vertical and zero-length segments 'on' is returned exactly when the point lies on the closed segment; 'in' is never reported here",
		slice: comparisonPrefix,
		spec: func(a *e8assign, n *e8names, out *e8out) string {
			py, ay, by := R(a, "p0.Y"), R(a, "recv.A.Y"), R(a, "recv.B.Y")
			outside := py < imin(ay, by) || py > imax(ay, by)
			on, aligned := onSeg(a)
			if !out.returned {
				if ay != by && outside {
					return "the point is outside the segment's Y range but the band test does not reject it"
				}
				if aligned && on {
					return "the point lies on an axis-aligned segment but 'on' is not reported"
				}
				if R(a, "recv.A.X") == R(a, "recv.B.X") && ay == by {
					return "a zero-length segment must be decided before the arithmetic (division by zero follows)"
				}
				return ""
			}
			if len(out.ret) != 1 || out.ret[0].k != kStruct {
				return "unexpected result shape"
			}
			in, onv := leaf(out.ret[0], "In"), leaf(out.ret[0], "On")
			if in == nil || onv == nil {
				return "unexpected result shape"
			}
			if in.b {
				return "'in' reported before the ray cast proper"
			}
			if onv.b {
				if !(aligned && on) {
					return "'on' reported for a point that is not on the closed segment"
				}
				return ""
			}
			// {false,false}
			if ay != by && outside {
				return ""
			}
			if aligned && !on && R(a, "recv.A.X") == R(a, "recv.B.X") && ay == by {
				return "" // zero-length segment, point elsewhere
			}
			return "an early {false,false} for a point inside the segment's Y range"
		}})
	add(&e8row{id: "geometry.Segment.Raycast#post-nudge", fn: rc,
		what: "after the nudge (point level with neither endpoint): an early {false,false} means the point is outside the Y range or not left of the segment's X range; an early {true,false} means it is inside the Y range and left of (or at) the smaller X",
		slice: func(fd *ast.FuncDecl) []ast.Stmt {
			var after []ast.Stmt
			seen := false
			for _, st := range fd.Body.List {
				isNudge := false
				if _, ok := st.(*ast.ForStmt); ok {
					isNudge = true
				}
				// the nudge may also be a single statement `p.Y = helper(p.Y, …)`
				if as, ok := st.(*ast.AssignStmt); ok && as.Tok == token.ASSIGN && len(as.Lhs) == 1 {
					if sel, ok := as.Lhs[0].(*ast.SelectorExpr); ok && sel.Sel.Name == "Y" {
						isNudge = true
					}
				}
				if isNudge {
					seen = true
					after = nil
					continue
				}
				if seen {
					if hasArithmetic(st) {
						break
					}
					after = append(after, st)
				}
			}
			if !seen {
				return nil
			}
			// the aliasing prologue (p, a, b := point, seg.A, seg.B)
			var pro []ast.Stmt
			for _, st := range fd.Body.List {
				if as, ok := st.(*ast.AssignStmt); ok && as.Tok == token.DEFINE && !hasArithmetic(st) {
					pro = append(pro, st)
					continue
				}
				break
			}
			return append(pro, after...)
		},
		pre: func(a *e8assign, n *e8names) bool {
			if !a.has("p0.Y", "recv.A.Y", "recv.B.Y") {
				return true
			}
			py := R(a, "p0.Y")
			return py != R(a, "recv.A.Y") && py != R(a, "recv.B.Y")
		},
		spec: func(a *e8assign, n *e8names, out *e8out) string {
			if !out.returned {
				return ""
			}
			in, onv := leaf(out.ret[0], "In"), leaf(out.ret[0], "On")
			if in == nil || onv == nil || onv.b {
				return "unexpected result after the nudge"
			}
			px, py := R(a, "p0.X"), R(a, "p0.Y")
			ax, ay, bx, by := R(a, "recv.A.X"), R(a, "recv.A.Y"), R(a, "recv.B.X"), R(a, "recv.B.Y")
			inside := py > imin(ay, by) && py < imax(ay, by)
			if in.b {
				if !(inside && px <= imin(ax, bx)) {
					return "a crossing is reported for a point that is not inside the Y range and left of the segment"
				}
				return ""
			}
			if inside && px < imin(ax, bx) {
				return "no crossing reported although the point is inside the Y range and strictly left of the segment"
			}
			if inside && px > imin(ax, bx) && px < imax(ax, bx) {
				return "an early 'no crossing' for a point between the endpoints' X values (needs the slope test)"
			}
			return ""
		}})

	// series: emptiness and segment count as functions of (len, closed, last==first)
	emptySpec := func(a *e8assign, n *e8names, closedName string, nilTrue bool) (bool, string) {
		ln := n.one(`^len\(`)
		closed := a.B(closedName)
		N := R(a, ln)
		return (closed && N < R(a, "3")) || N < R(a, "2"), ln
	}
	intGroup := func(n string) int {
		if strings.HasPrefix(n, "len(") || strings.HasPrefix(n, "(len(") {
			return 0
		}
		if _, ok := numericAtom(n); ok {
			return 0
		}
		return axisGroup(n)
	}
	add(&e8row{id: "(*geometry.baseSeries).Empty", fn: p.Method("geometry", "baseSeries", "Empty"),
		what: "a series is empty iff it is closed with fewer than 3 points or has fewer than 2 points (a nil series is empty)", atoms: []string{"2", "3"}, group: intGroup,
		spec: func(a *e8assign, n *e8names, out *e8out) string {
			got, ok := retBool(out)
			want, _ := emptySpec(a, n, "recv.closed", true)
			for _, b := range n.bools {
				if strings.HasPrefix(b, "isnil(") && a.B(b) {
					want = true
				}
			}
			if !ok || got != want {
				return fmt.Sprintf("returns %v, specification says %v", got, want)
			}
			return ""
		}})
	add(&e8row{id: "geometry.processPoints#entry-guard", fn: pp,
		what: "degenerate series (closed < 3 points, open < 2) take the early return", atoms: []string{"2", "3"}, group: intGroup,
		slice: func(fd *ast.FuncDecl) []ast.Stmt {
			if len(fd.Body.List) == 0 {
				return nil
			}
			if is, ok := fd.Body.List[0].(*ast.IfStmt); ok {
				return []ast.Stmt{is}
			}
			return nil
		},
		spec: func(a *e8assign, n *e8names, out *e8out) string {
			want, _ := emptySpec(a, n, "p1", false)
			if out.returned != want {
				return fmt.Sprintf("early return taken: %v, degenerate by the statement: %v", out.returned, want)
			}
			return ""
		}})
	add(&e8row{id: "(*geometry.baseSeries).NumSegments", fn: p.Method("geometry", "baseSeries", "NumSegments"),
		what: "an open series of n points has n-1 segments (0 below 2 points); a closed one has n-1 when its last point repeats the first, else n (0 below 3 points)", atoms: []string{"2", "3"}, group: intGroup,
		spec: func(a *e8assign, n *e8names, out *e8out) string {
			lnm := n.match(`^len\(`)
			if len(lnm) != 1 {
				return "expected exactly one length atom"
			}
			ln := lnm[0]
			N := R(a, ln)
			closed := a.B("recv.closed")
			for _, b := range n.bools {
				if strings.HasPrefix(b, "isnil(recv") && a.B(b) {
					return "" // a nil series has no points: not a state this row describes
				}
			}
			if !out.returned || len(out.ret) != 1 {
				return "no result"
			}
			got := out.ret[0]
			gotS := ""
			switch got.k {
			case kInt:
				gotS = fmt.Sprint(got.n)
			case kScalar:
				gotS = got.name
			}
			var want string
			if closed {
				if N < R(a, "3") {
					want = "0"
				} else {
					// last == first ?
					xs := n.match(`\]\.X$`)
					ys := n.match(`\]\.Y$`)
					if len(xs) != 2 || len(ys) != 2 {
						return "the closing-vertex comparison was not found"
					}
					if R(a, xs[0]) == R(a, xs[1]) && R(a, ys[0]) == R(a, ys[1]) {
						want = "(" + ln + "-1)"
					} else {
						want = ln
					}
				}
			} else if N < R(a, "2") {
				want = "0"
			} else {
				want = "(" + ln + "-1)"
			}
			if gotS != want {
				return "returns " + gotS + ", specification says " + want
			}
			return ""
		}})

	// AllowRects: the 5-point test selects exactly the axis-parallel rectangles
	pjp := p.Func("geojson", "parseJSONPolygon")
	add(&e8row{id: "geojson.parseJSONPolygon#AllowRects-condition", fn: pjp,
		what: "the Rect representation is chosen iff AllowRects is set, there are no extra members, no holes, exactly five positions, and the (closed) ring is (minx,miny),(maxx,miny),(maxx,maxy),(minx,maxy) with minx<maxx and miny<maxy",
		run: func(in *e8interp) *e8out {
			fd := p.Decl(pjp)
			if fd == nil {
				e8fail("parseJSONPolygon not found")
			}
			pkg := p.DeclPkg(pjp)
			newRect := p.Func("geojson", "NewRect")
			var cond ast.Expr
			ast.Inspect(fd.Body, func(nd ast.Node) bool {
				is, ok := nd.(*ast.IfStmt)
				if !ok || cond != nil {
					return true
				}
				calls := false
				ast.Inspect(is.Body, func(m ast.Node) bool {
					if ce, ok := m.(*ast.CallExpr); ok {
						if id, ok := ce.Fun.(*ast.Ident); ok && pkg.TypesInfo.Uses[id] == newRect && newRect != nil {
							calls = true
						}
					}
					return true
				})
				if calls {
					cond = is.Cond
				}
				return true
			})
			if cond == nil {
				e8fail("the branch that builds the Rect representation was not found")
			}
			fr, out := p.bindInputs(in, pjp)
			v := in.eval(fr, cond)
			out.returned = true
			out.ret = []*val{{k: kBool, b: in.boolOf(v)}}
			return out
		},
		group: func(n string) int {
			if strings.HasPrefix(n, "len(") {
				return 0
			}
			if _, ok := numericAtom(n); ok {
				return 0
			}
			return axisGroup(n)
		},
		lenEqOpaque: true,
		pre: func(a *e8assign, n *e8names) bool {
			// the ring is closed (checked before this point): position 4 equals position 0
			for _, ax := range []string{"X", "Y"} {
				p0, p4 := n.match(`\[0\]\.`+ax+`$`), n.match(`\[4\]\.`+ax+`$`)
				if len(p0) == 1 && len(p4) == 1 && a.has(p0[0], p4[0]) && R(a, p0[0]) != R(a, p4[0]) {
					return false
				}
			}
			return true
		},
		spec: func(a *e8assign, n *e8names, out *e8out) string {
			got := out.ret[0].b
			x := func(i int) int { return R(a, n.one(fmt.Sprintf(`\[%d\]\.X$`, i))) }
			y := func(i int) int { return R(a, n.one(fmt.Sprintf(`\[%d\]\.Y$`, i))) }
			shape := x(0) < x(1) && y(0) == y(1) && x(1) == x(2) && y(1) < y(2) && x(3) == x(0) && y(3) == y(2)
			gate := true
			nlen := 0
			for _, b := range n.bools {
				switch {
				case strings.HasPrefix(b, "len(") && (strings.HasSuffix(b, "== 0") || strings.HasSuffix(b, "== 5")):
					nlen++
					gate = gate && a.B(b)
				case strings.HasPrefix(b, "len(") && (strings.HasSuffix(b, "!= 0") || strings.HasSuffix(b, "!= 5")):
					nlen++
					gate = gate && !a.B(b)
				case strings.HasSuffix(b, ".AllowRects"):
					gate = gate && a.B(b)
				case strings.HasPrefix(b, "isnil("):
					gate = gate && a.B(b)
				default:
					return "unrecognised condition " + b
				}
			}
			if nlen != 2 {
				return "expected the hole count (== 0) and the position count (== 5) to be tested"
			}
			if got != (gate && shape) {
				return fmt.Sprintf("Rect representation chosen: %v; options/shape say: %v (shape=%v)", got, gate && shape, shape)
			}
			return ""
		}})
	return rows
}

func (p *Program) callQuadBounds(in *e8interp, qb *types.Func, bounds *val, q int64) *val {
	fd, pkg := p.Decl(qb), p.DeclPkg(qb)
	nf := newFrame(pkg)
	i := 0
	for _, f := range fd.Type.Params.List {
		for _, n := range f.Names {
			o := pkg.TypesInfo.Defs[n]
			if i == 0 {
				nf.vars[o] = bounds.clone()
			} else {
				nf.vars[o] = &val{k: kInt, n: q}
			}
			i++
		}
	}
	var res types.Object
	if fd.Type.Results != nil {
		for _, f := range fd.Type.Results.List {
			for _, n := range f.Names {
				res = pkg.TypesInfo.Defs[n]
				nf.vars[res] = zeroVal(pkg.TypesInfo.TypeOf(f.Type))
			}
		}
	}
	sv := in.collect
	in.collect = nil // quadBounds is straight-line per quadrant: run it concretely even while discovering
	r := in.runBody(nf, fd.Body.List)
	in.collect = sv
	var out *val
	if r != nil && len(r.vals) == 1 {
		out = r.vals[0]
	} else if res != nil {
		out = nf.vars[res]
	}
	if out == nil {
		e8fail("quadBounds produced no value")
	}
	if sv != nil {
		for _, pth := range [][]string{{"Min", "X"}, {"Min", "Y"}, {"Max", "X"}, {"Max", "Y"}} {
			if l := leaf(out, pth...); l != nil && l.k == kScalar {
				sv.scalars[l.name] = true
			}
		}
	}
	return out
}

func hasArithmetic(n ast.Node) bool {
	found := false
	ast.Inspect(n, func(x ast.Node) bool {
		switch e := x.(type) {
		case *ast.BinaryExpr:
			switch e.Op {
			case token.ADD, token.SUB, token.MUL, token.QUO:
				found = true
			}
		case *ast.ForStmt, *ast.RangeStmt:
			found = true
		}
		return !found
	})
	return found
}

// comparisonPrefix: the leading statements of a body that contain no arithmetic.
func comparisonPrefix(fd *ast.FuncDecl) []ast.Stmt {
	var out []ast.Stmt
	for _, st := range fd.Body.List {
		if hasArithmetic(st) {
			break
		}
		out = append(out, st)
	}
	if len(out) == 0 {
		return nil
	}
	return out
}

func (p *Program) ruleE8(c *Check, ids ...string) {
	rows := p.e8Rows()
	for _, id := range ids {
		r := rows[id]
		if r == nil {
			c.Undecided("E8", id, "", "no such comparison-network row")
			continue
		}
		if r.fn == nil {
			c.Undecided("E8", id, "", "anchor function not found")
			continue
		}
		p.runE8(c, r)
	}
}
