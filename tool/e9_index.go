package main

import (
	"fmt"
	"go/ast"
	"go/constant"
	"go/token"
	"go/types"
	"strings"

	"golang.org/x/tools/go/ssa"
	"golang.org/x/tools/go/types/typeutil"
)

// E9 — compressed-index protocol.  See DESIGN.md §3/E9.

// iterParam returns the callback parameter (a func returning bool) of fn, or nil.
func iterParam(fn *ssa.Function) *ssa.Parameter {
	for _, prm := range fn.Params {
		if sig, ok := prm.Type().Underlying().(*types.Signature); ok && sig.Results().Len() == 1 {
			if b, ok := sig.Results().At(0).Type().Underlying().(*types.Basic); ok && b.Kind() == types.Bool {
				return prm
			}
		}
	}
	return nil
}

func blocksFrom(start *ssa.BasicBlock) map[*ssa.BasicBlock]bool {
	seen := map[*ssa.BasicBlock]bool{}
	st := []*ssa.BasicBlock{start}
	for len(st) > 0 {
		b := st[len(st)-1]
		st = st[:len(st)-1]
		if seen[b] {
			continue
		}
		seen[b] = true
		st = append(st, b.Succs...)
	}
	return seen
}

// I4: the callback protocol of every searcher.
func (p *Program) ruleCallbackProtocol(c *Check) {
	segRect := p.Method("geometry", "Segment", "Rect")
	rectInter := p.Method("geometry", "Rect", "IntersectsRect")
	n := 0
	for _, fn := range p.RepoSourceFuncs() {
		if fn.Parent() != nil {
			continue
		}
		it := iterParam(fn)
		if it == nil {
			continue
		}
		isSegIter := false
		if sig := it.Type().Underlying().(*types.Signature); sig.Params().Len() == 2 {
			isSegIter = true
		}
		name := SSAName(fn)
		// a callback captured by a closure lives in a cell: loads of the cell are the callback too
		alias := map[ssa.Value]bool{it: true}
		var cell *ssa.Alloc
		for _, r := range *it.Referrers() {
			if st, ok := r.(*ssa.Store); ok && st.Val == it {
				if a, ok := st.Addr.(*ssa.Alloc); ok {
					cell = a
					alias[a] = true
					for _, r2 := range *a.Referrers() {
						if ld, ok := r2.(*ssa.UnOp); ok && ld.Op == token.MUL {
							alias[ld] = true
						}
					}
				}
			}
		}
		_ = cell
		// iter-reaching calls: direct invocations and calls that pass iter on
		type icall struct {
			in     *ssa.Call
			direct bool
		}
		var calls []icall
		for _, b := range fn.Blocks {
			for _, in := range b.Instrs {
				cl, ok := in.(*ssa.Call)
				if !ok {
					continue
				}
				if alias[cl.Call.Value] {
					calls = append(calls, icall{cl, true})
					continue
				}
				for _, a := range cl.Call.Args {
					if alias[a] {
						calls = append(calls, icall{cl, false})
					}
					if mc, ok := a.(*ssa.MakeClosure); ok {
						for _, bnd := range mc.Bindings {
							if alias[bnd] {
								calls = append(calls, icall{cl, false})
							}
						}
					}
				}
			}
		}
		if len(calls) == 0 {
			continue
		}
		n++
		boolRet := fn.Signature.Results().Len() == 1
		for i, ic := range calls {
			con := fmt.Sprintf("%s#call%d", name, i+1)
			pos := p.Pos(ic.in.Pos())
			// (a) early stop
			blk := ic.in.Block()
			after := map[*ssa.BasicBlock]bool{}
			for _, s := range blk.Succs {
				for b := range blocksFrom(s) {
					after[b] = true
				}
			}
			laterInBlock := false
			idx := instrIndex(ic.in)
			for _, other := range calls {
				if other.in != ic.in && other.in.Block() == blk && instrIndex(other.in) > idx {
					laterInBlock = true
				}
			}
			anyAfter := laterInBlock
			for _, other := range calls {
				if after[other.in.Block()] {
					anyAfter = true
				}
			}
			resBool := false
			if t, ok := ic.in.Type().Underlying().(*types.Basic); ok && t.Kind() == types.Bool {
				resBool = true
			}
			switch {
			case !anyAfter:
				c.OK("E9.I4a", con, pos, "no further callback can follow this call")
			case !resBool:
				c.Bad("E9.I4a", con, pos, "a search that cannot report 'stop' is followed by more callbacks: early stop is lost")
			default:
				iff, ok := blk.Instrs[len(blk.Instrs)-1].(*ssa.If)
				trueSucc, falseSucc := 0, 1
				tested := false
				if ok && !laterInBlock {
					switch cnd := iff.Cond.(type) {
					case *ssa.Call:
						tested = cnd == ic.in
					case *ssa.UnOp:
						if cnd.Op == token.NOT && cnd.X == ic.in {
							tested = true
							trueSucc, falseSucc = 1, 0
						}
					}
				}
				if !tested {
					c.Bad("E9.I4a", con, pos, "the result of the callback (or of the nested search) is not tested before more callbacks can be made: a 'false' from the caller's iterator does not stop the search")
					break
				}
				_ = trueSucc
				fs := blk.Succs[falseSucc]
				reach := blocksFrom(fs)
				bad := false
				for _, other := range calls {
					if reach[other.in.Block()] {
						bad = true
					}
				}
				if bad {
					c.Bad("E9.I4a", con, pos, "after the callback returned false another callback is still reachable: early stop is not honoured")
					break
				}
				if boolRet {
					ret, ok := fs.Instrs[len(fs.Instrs)-1].(*ssa.Return)
					k, isK := (*ssa.Const)(nil), false
					if ok && len(ret.Results) == 1 {
						k, isK = ret.Results[0].(*ssa.Const)
					}
					if !ok || !isK || k.Value == nil || constant.BoolVal(k.Value) {
						c.Bad("E9.I4a", con, pos, "when the callback asks to stop the searcher must itself return false so that its caller stops too")
						break
					}
				}
				c.OK("E9.I4a", con, pos, "stop is tested and propagated: after 'false' no callback is reachable")
			}
			if !ic.direct || !isSegIter {
				continue
			}
			// (b) the reported index is the index of the reported segment
			seg, idxArg := ic.in.Call.Args[0], ic.in.Call.Args[1]
			segCall, _ := seg.(*ssa.Call)
			okIdx := false
			if segCall != nil && (segCall.Call.IsInvoke() && segCall.Call.Method.Name() == "SegmentAt" || segCall.Call.StaticCallee() != nil && segCall.Call.StaticCallee().Name() == "SegmentAt") {
				k := segCall.Call.Args[len(segCall.Call.Args)-1]
				okIdx = sameIndex(k, idxArg)
			}
			if okIdx {
				c.OK("E9.I4b", con, pos, "the callback receives (SegmentAt(k), k)")
			} else {
				c.Bad("E9.I4b", con, pos, "the index handed to the callback is not the index of the segment handed to it")
			}
			// (c) pre-filtered by the closed-box test against the query rectangle
			okFilter := false
			for _, d := range fn.Blocks {
				if !d.Dominates(blk) || len(d.Instrs) == 0 {
					continue
				}
				iff, ok := d.Instrs[len(d.Instrs)-1].(*ssa.If)
				if !ok {
					continue
				}
				cl, ok := iff.Cond.(*ssa.Call)
				if !ok || cl.Call.StaticCallee() == nil || rectInter == nil || cl.Call.StaticCallee().Object() != rectInter {
					continue
				}
				if !(d.Succs[0] == blk || d.Succs[0].Dominates(blk)) {
					continue
				}
				a0, a1 := cl.Call.Args[0], cl.Call.Args[1]
				isSegBox := func(v ssa.Value) bool {
					rc, ok := v.(*ssa.Call)
					return ok && rc.Call.StaticCallee() != nil && segRect != nil && rc.Call.StaticCallee().Object() == segRect && rc.Call.Args[0] == seg
				}
				isQuery := func(v ssa.Value) bool {
					prm, ok := v.(*ssa.Parameter)
					return ok && typeStr(prm.Type()) == "geometry.Rect"
				}
				if (isSegBox(a0) && isQuery(a1)) || (isSegBox(a1) && isQuery(a0)) {
					okFilter = true
				}
			}
			if okFilter {
				c.OK("E9.I4c", con, pos, "the callback is made only for segments whose box meets the query rectangle")
			} else {
				c.Bad("E9.I4c", con, pos, "the callback is not guarded by seg.Rect().IntersectsRect(query): segments outside the query rectangle could be reported (or matching ones dropped)")
			}
		}
	}
	c.Count("searchers", n)
	c.Floor("E9.I4a", n, 6, "functions that receive a search callback")
}

// sameIndex: identical SSA value (through no-op conversions), or two
// induction variables with the same start and the same unit step.
func sameIndex(a, b ssa.Value) bool {
	strip := func(v ssa.Value) ssa.Value {
		for {
			switch x := v.(type) {
			case *ssa.Convert:
				if bt, ok := x.X.Type().Underlying().(*types.Basic); ok && bt.Info()&types.IsInteger != 0 {
					if x.X.Type() == x.Type() || true {
						// conversions between integer types of an index keep the value for in-range items
						if _, isInt := x.Type().Underlying().(*types.Basic); isInt && types.Identical(x.X.Type(), x.Type()) {
							v = x.X
							continue
						}
					}
				}
			case *ssa.ChangeType:
				v = x.X
				continue
			}
			return v
		}
	}
	a, b = strip(a), strip(b)
	if a == b {
		return true
	}
	pa, ok1 := a.(*ssa.Phi)
	pb, ok2 := b.(*ssa.Phi)
	if !ok1 || !ok2 || pa.Block() != pb.Block() || len(pa.Edges) != 2 || len(pb.Edges) != 2 {
		return false
	}
	stepOf := func(ph *ssa.Phi) (start, step int64, ok bool) {
		for _, e := range ph.Edges {
			switch x := e.(type) {
			case *ssa.Const:
				start = x.Int64()
			case *ssa.BinOp:
				k, isK := x.Y.(*ssa.Const)
				if x.Op != token.ADD || x.X != ssa.Value(ph) || !isK {
					return 0, 0, false
				}
				step = k.Int64()
				ok = true
			default:
				return 0, 0, false
			}
		}
		return
	}
	sa, ta, oka := stepOf(pa)
	sb, tb, okb := stepOf(pb)
	if !(oka && okb && sa == sb && ta == tb) {
		return false
	}
	// both increments must lie on every path back to the header: the blocks of
	// the two increments must be the same latch or one must dominate the latch
	// together with the other; require that each increment's block dominates the
	// back-edge predecessor
	for _, ph := range []*ssa.Phi{pa, pb} {
		for i, e := range ph.Edges {
			if bo, ok := e.(*ssa.BinOp); ok {
				latch := ph.Block().Preds[i]
				if !(bo.Block() == latch || bo.Block().Dominates(latch)) {
					return false
				}
			}
		}
	}
	return true
}

// I2: cursor discipline in the readers of the compressed formats.
// readWidth: statement reads the buffer at data[cur] / data[cur:]; returns the
// canonical width ("1","4","8","int(<w>)") and the cursor name.
func (p *Program) readWidth(info *types.Info, st ast.Stmt) (string, string) {
	var rhs ast.Expr
	switch s := st.(type) {
	case *ast.AssignStmt:
		if len(s.Rhs) == 1 {
			rhs = s.Rhs[0]
		}
	}
	if rhs == nil {
		return "", ""
	}
	width, cursor := "", ""
	ast.Inspect(rhs, func(n ast.Node) bool {
		switch x := n.(type) {
		case *ast.CallExpr:
			name := types.ExprString(x.Fun)
			for _, a := range x.Args {
				if sl, ok := ast.Unparen(a).(*ast.SliceExpr); ok && sl.High == nil && sl.Low != nil {
					if id, ok := sl.Low.(*ast.Ident); ok {
						switch {
						case strings.HasSuffix(name, "Uint64"):
							width, cursor = "8", id.Name
						case strings.HasSuffix(name, "Uint32"):
							width, cursor = "4", id.Name
						case strings.HasSuffix(name, "Uint16"):
							width, cursor = "2", id.Name
						case name == "readNum" && len(x.Args) == 2:
							width, cursor = "int("+types.ExprString(x.Args[1])+")", id.Name
						default:
							// a helper that decodes a fixed number of bytes from the slice it is given
							if callee, ok := typeutil.Callee(info, x).(*types.Func); ok && p.IsRepoPkg(callee.Pkg()) && len(x.Args) == 1 {
								if w := p.bytesRead(callee, 0); w > 0 {
									width, cursor = fmt.Sprint(w), id.Name
								}
							}
						}
					}
				}
			}
		case *ast.IndexExpr:
			if id, ok := x.Index.(*ast.Ident); ok {
				if t := info.TypeOf(x.X); t != nil && isByteSlice(t) && width == "" {
					width, cursor = "1", id.Name
				}
			}
		}
		return true
	})
	return width, cursor
}

func advanceOf(info *types.Info, st ast.Stmt, cursor string) string {
	switch s := st.(type) {
	case *ast.IncDecStmt:
		if types.ExprString(s.X) == cursor && s.Tok == token.INC {
			return "1"
		}
	case *ast.AssignStmt:
		if s.Tok == token.ADD_ASSIGN && len(s.Lhs) == 1 && types.ExprString(s.Lhs[0]) == cursor {
			if k, ok := constInt(info, s.Rhs[0]); ok {
				return fmt.Sprint(k)
			}
			return types.ExprString(s.Rhs[0])
		}
	}
	return "no advance of " + cursor
}

// I3: widths. numBytes thresholds (as an E8 row) and the sibling switches of
// appendNum / readNum.
func (p *Program) ruleWidths(c *Check) {
	nb := p.Func("geometry", "numBytes")
	row := &e8row{id: "geometry.numBytes", fn: nb,
		what:  "the width w chosen for n satisfies n < 256^w, and w is 1, 2 or 4",
		atoms: []string{"255", "65535"},
		group: func(string) int { return 0 },
		spec: func(a *e8assign, n *e8names, out *e8out) string {
			if !out.returned || len(out.ret) != 1 || out.ret[0].k != kInt {
				return "no constant width returned"
			}
			w := out.ret[0].n
			N := a.R("p0")
			switch w {
			case 1:
				if N > a.R("255") {
					return "width 1 chosen for a value above 255"
				}
			case 2:
				if N > a.R("65535") {
					return "width 2 chosen for a value above 65535: the stored number is truncated"
				}
			case 4:
			default:
				return fmt.Sprintf("width %d is not one the codec implements", w)
			}
			return ""
		}}
	if nb == nil {
		c.Undecided("E8", "geometry.numBytes", "", "function not found")
	} else {
		p.runE8(c, row)
	}
	// the variable-width codec: for every width code (1, 2, anything else) the writer appends and the
	// reader consumes the same number of bytes: 1, 2 and 4
	an, rn := p.Func("geometry", "appendNum"), p.Func("geometry", "readNum")
	if an == nil || rn == nil || p.Decl(an) == nil || p.Decl(rn) == nil {
		c.Undecided("E9.I3", "geometry.appendNum~readNum", "", "codec functions not found")
		return
	}
	wantWidth := func(a *e8assign, wname string) int {
		switch {
		case a.has(wname, "1") && a.R(wname) == a.R("1"):
			return 1
		case a.has(wname, "2") && a.R(wname) == a.R("2"):
			return 2
		}
		return 4
	}
	before := len(c.Obs)
	p.runE8(c, &e8row{id: "geometry.appendNum#width", fn: an, atoms: []string{"1", "2"}, group: func(string) int { return 0 },
		what: "appends 1 byte for width code 1, 2 bytes for code 2 and 4 bytes for every other code",
		spec: func(a *e8assign, n *e8names, out *e8out) string {
			got := 0
			for _, cl := range out.in.called("append") {
				if len(cl.args) >= 2 {
					got += len(cl.args) - 1
				}
			}
			if want := wantWidth(a, "p2"); got != want {
				return fmt.Sprintf("appends %d bytes for a width code that stands for %d", got, want)
			}
			return ""
		}})
	p.runE8(c, &e8row{id: "geometry.readNum#width", fn: rn, atoms: []string{"1", "2"}, group: func(string) int { return 0 },
		what: "reads 1 byte for width code 1, 2 bytes for code 2 and 4 bytes for every other code",
		spec: func(a *e8assign, n *e8names, out *e8out) string {
			if !out.returned || len(out.ret) != 1 || out.ret[0] == nil {
				return "nothing is returned"
			}
			name := out.ret[0].name
			got := 0
			switch {
			case strings.Contains(name, "Uint32("):
				got = 4
			case strings.Contains(name, "Uint16("):
				got = 2
			default:
				for k := 0; k < 8; k++ {
					if strings.Contains(name, fmt.Sprintf("p0[%d]", k)) {
						got = k + 1
					}
				}
			}
			if want := wantWidth(a, "p1"); got != want {
				return fmt.Sprintf("reads %d bytes (%s) for a width code that stands for %d", got, name, want)
			}
			return ""
		}})
	for _, o := range c.Obs[before:] {
		o.Rule = "E9.I3"
	}
}

// I5 (build half): buildIndex inserts every segment i in [0, NumSegments)
// under the box of SegmentAt(i) with value i.
func (p *Program) ruleBuildIndex(c *Check) {
	fn := p.SSAFunc(p.Method("geometry", "baseSeries", "buildIndex"))
	if fn == nil {
		c.Undecided("E9.I5", "anchor:(*geometry.baseSeries).buildIndex", "", "function not found")
		return
	}
	segRect := p.Method("geometry", "Segment", "Rect")
	n := 0
	// the build loops may live in helpers of buildIndex (one per index kind)
	root := fn
	fns := []*ssa.Function{root}
	seenFn := map[*ssa.Function]bool{root: true}
	for i := 0; i < len(fns) && i < 8; i++ {
		for _, b := range fns[i].Blocks {
			for _, in := range b.Instrs {
				if cl, ok := in.(*ssa.Call); ok {
					if sc := cl.Call.StaticCallee(); sc != nil && !seenFn[sc] && p.IsRepoFn(sc) && sc.Signature.Recv() != nil && len(sc.Params) > 0 && types.Identical(sc.Params[0].Type(), root.Params[0].Type()) && len(sc.Blocks) > 0 {
						seenFn[sc] = true
						fns = append(fns, sc)
					}
				}
			}
		}
	}
	for _, fn := range fns {
		for _, b := range fn.Blocks {
			for _, in := range b.Instrs {
				cl, ok := in.(*ssa.Call)
				if !ok || cl.Call.StaticCallee() == nil {
					continue
				}
				callee := cl.Call.StaticCallee()
				if callee.Name() != "Insert" && callee.Name() != "insert" {
					continue
				}
				n++
				con := "(*geometry.baseSeries).buildIndex: " + SSAName(callee)
				// the item argument: last int-typed argument for Insert(min,max,value) it is boxed
				var item ssa.Value
				var boxSrc []ssa.Value
				for _, a := range cl.Call.Args {
					switch x := a.(type) {
					case *ssa.MakeInterface:
						item = x.X
					}
					if bt, ok := a.Type().Underlying().(*types.Basic); ok && bt.Info()&types.IsInteger != 0 {
						if _, isK := a.(*ssa.Const); !isK {
							item = a
						}
					}
				}
				// find the SegmentAt call whose Rect() feeds the box arguments
				var segAt *ssa.Call
				var visit func(v ssa.Value, depth int)
				seen := map[ssa.Value]bool{}
				visit = func(v ssa.Value, depth int) {
					if v == nil || seen[v] || depth > 12 {
						return
					}
					seen[v] = true
					if call, ok := v.(*ssa.Call); ok {
						if sc := call.Call.StaticCallee(); sc != nil && sc.Name() == "SegmentAt" {
							segAt = call
							return
						}
					}
					var ops []*ssa.Value
					if in, ok := v.(ssa.Instruction); ok {
						ops = in.Operands(ops)
					}
					for _, o := range ops {
						if *o != nil {
							visit(*o, depth+1)
						}
					}
					// values stored into local composite buffers (slice literals)
					if a, ok := v.(*ssa.Alloc); ok {
						for _, r := range *a.Referrers() {
							if ia, ok := r.(*ssa.IndexAddr); ok {
								for _, r2 := range *ia.Referrers() {
									if st, ok := r2.(*ssa.Store); ok {
										visit(st.Val, depth+1)
									}
								}
							}
							if fa, ok := r.(*ssa.FieldAddr); ok {
								for _, r2 := range *fa.Referrers() {
									if st, ok := r2.(*ssa.Store); ok {
										visit(st.Val, depth+1)
									}
								}
							}
							if st, ok := r.(*ssa.Store); ok && st.Addr == a {
								visit(st.Val, depth+1)
							}
						}
					}
				}
				for _, a := range cl.Call.Args {
					if a != item {
						if mi, ok := a.(*ssa.MakeInterface); ok && mi.X == item {
							continue
						}
						boxSrc = append(boxSrc, a)
						visit(a, 0)
					}
				}
				_ = segRect
				if segAt == nil || item == nil {
					c.Bad("E9.I5", con, p.Pos(cl.Pos()), "the inserted box is not derived from SegmentAt(i) of the series being indexed")
					continue
				}
				k := segAt.Call.Args[len(segAt.Call.Args)-1]
				ph, isPhi := k.(*ssa.Phi)
				okLoop := false
				if isPhi {
					for _, e := range ph.Edges {
						if kc, ok := e.(*ssa.Const); ok && kc.Int64() == 0 {
							okLoop = true
						}
					}
				}
				// every iteration inserts: the loop counts i = 0,1,2… up to NumSegments() and no path
				// through the loop body returns to the loop head without passing the insertion
				every := ""
				if isPhi && okLoop {
					head := ph.Block()
					stepOK := false
					for _, e := range ph.Edges {
						if bo, ok := e.(*ssa.BinOp); ok && bo.Op == token.ADD && bo.X == ssa.Value(ph) {
							if kc, ok := bo.Y.(*ssa.Const); ok && kc.Int64() == 1 {
								stepOK = true
							}
						}
					}
					if !stepOK {
						every = "the loop does not advance by one segment per iteration"
					}
					boundOK := false
					if len(head.Instrs) > 0 {
						if iff, ok := head.Instrs[len(head.Instrs)-1].(*ssa.If); ok {
							if bo, ok := iff.Cond.(*ssa.BinOp); ok && bo.Op == token.LSS && bo.X == ssa.Value(ph) {
								if bc, ok := bo.Y.(*ssa.Call); ok {
									if sc := bc.Call.StaticCallee(); sc != nil && sc.Name() == "NumSegments" && len(bc.Call.Args) > 0 && bc.Call.Args[0] == fn.Params[0] {
										boundOK = true
									}
								}
							}
							if boundOK && len(head.Succs) == 2 {
								// body entry = Succs[0]; can it get back to head avoiding the insertion block?
								seen := map[*ssa.BasicBlock]bool{}
								var walk func(b *ssa.BasicBlock) bool
								walk = func(b *ssa.BasicBlock) bool {
									if b == head {
										return true
									}
									if b == cl.Block() || seen[b] {
										return false
									}
									seen[b] = true
									for _, s := range b.Succs {
										if walk(s) {
											return true
										}
									}
									return false
								}
								if walk(head.Succs[0]) {
									every = "some iteration of the loop skips the insertion: not every segment of the series is in the index"
								}
							}
						}
					}
					if !boundOK && every == "" {
						every = "the loop is not bounded by i < NumSegments() of the series being indexed"
					}
				}
				if every != "" {
					c.Bad("E9.I5", con+" every segment", p.Pos(cl.Pos()), every)
				} else if isPhi && okLoop {
					c.OK("E9.I5", con+" every segment", p.Pos(cl.Pos()), "i runs over 0 … NumSegments()-1 and every iteration inserts")
				}
				if sameIndex(k, item) && okLoop {
					c.OK("E9.I5", con, p.Pos(cl.Pos()), "inserts (box of SegmentAt(i), i) for i counting up from 0")
				} else {
					c.Bad("E9.I5", con, p.Pos(cl.Pos()), "the value stored in the index is not the position i of the segment whose box is inserted, or the loop does not start at 0")
				}
			}
		}
	}
	c.Floor("E9.I5", n, 2, "index insertions in buildIndex")
}

// bytesRead: how many leading bytes of its []byte parameter a decoding helper reads
// (constant offsets only); 0 when that cannot be told.
func (p *Program) bytesRead(fn *types.Func, depth int) int {
	fd, pkg := p.Decl(fn), p.DeclPkg(fn)
	if fd == nil || depth > 3 || fd.Type.Params == nil || len(fd.Type.Params.List) != 1 || len(fd.Type.Params.List[0].Names) != 1 {
		return 0
	}
	info := pkg.TypesInfo
	prm := fd.Type.Params.List[0].Names[0].Name
	max := 0
	bad := false
	ast.Inspect(fd.Body, func(n ast.Node) bool {
		switch x := n.(type) {
		case *ast.CallExpr:
			name := types.ExprString(x.Fun)
			for _, a := range x.Args {
				off := -1
				switch y := ast.Unparen(a).(type) {
				case *ast.Ident:
					if y.Name == prm {
						off = 0
					}
				case *ast.SliceExpr:
					if id, ok := y.X.(*ast.Ident); ok && id.Name == prm && y.High == nil {
						off = 0
						if y.Low != nil {
							k, ok := constInt(info, y.Low)
							if !ok {
								bad = true
								return false
							}
							off = k
						}
					}
				}
				if off < 0 {
					continue
				}
				w := 0
				switch {
				case strings.HasSuffix(name, "Uint64"):
					w = 8
				case strings.HasSuffix(name, "Uint32"):
					w = 4
				case strings.HasSuffix(name, "Uint16"):
					w = 2
				default:
					if callee, ok := typeutil.Callee(info, x).(*types.Func); ok && p.IsRepoPkg(callee.Pkg()) && callee != fn {
						w = p.bytesRead(callee, depth+1)
					}
				}
				if w == 0 {
					bad = true
					return false
				}
				if off+w > max {
					max = off + w
				}
			}
		case *ast.IndexExpr:
			if id, ok := x.X.(*ast.Ident); ok && id.Name == prm {
				k, ok := constInt(info, x.Index)
				if !ok {
					bad = true
					return false
				}
				if k+1 > max {
					max = k + 1
				}
			}
		}
		return true
	})
	if bad {
		return 0
	}
	return max
}

// ruleWidthCovers (E9.I3w): the compressed node writers store several numbers
// with one shared width byte.  Every number written with that width (the item
// count of a quadtree node as well as each item) must have taken part in
// choosing it: on the interpreter, with numBytes opaque and the item loops
// unrolled for two items, the width handed to appendNum ranks at least as high
// as numBytes of the value written, for every order of the candidate widths.
func (p *Program) ruleWidthCovers(c *Check) {
	nb, an := p.Func("geometry", "numBytes"), p.Func("geometry", "appendNum")
	if nb == nil || an == nil {
		c.Undecided("E9.I3w", "anchor:geometry.numBytes/appendNum", "", "not found")
		return
	}
	n := 0
	for _, w := range [][2]string{{"qNode", "compress"}, {"rRect", "compress"}} {
		fn := p.Method("geometry", w[0], w[1])
		if fn == nil || p.Decl(fn) == nil {
			c.Undecided("E9.I3w", "anchor:(*geometry."+w[0]+")."+w[1], "", "writer not found")
			continue
		}
		self := map[*types.Func]bool{nb: true, an: true, fn: true}
		if f := p.Func("geometry", "appendFloat"); f != nil {
			self[f] = true
		}
		if f := p.Func("geometry", "quadBounds"); f != nil {
			self[f] = true
		}
		n++
		before := len(c.Obs)
		p.runE8(c, &e8row{id: "(*geometry." + w[0] + ")." + w[1] + "#width", fn: fn, opaque: self, rangeMax: 2, maxBools: 16,
			group: func(string) int { return 0 },
			what:  "every number written with the node's shared width byte took part in choosing that width (width >= numBytes(value))",
			spec: func(a *e8assign, nm *e8names, out *e8out) string {
				for _, cl := range out.in.called("appendNum") {
					if len(cl.args) < 3 || cl.args[1] == nil || cl.args[2] == nil {
						return "appendNum is called with arguments the engine cannot name"
					}
					v, wv := cl.args[1], cl.args[2]
					if wv.k != kScalar {
						continue // a constant width
					}
					need := ""
					for _, s := range nm.scalars {
						if strings.HasSuffix(s, "numBytes("+v.name+")") {
							need = s
						}
					}
					if need == "" {
						return "the value " + v.name + " is written with the shared width, but numBytes of it never took part in choosing the width: a value wider than every item is truncated"
					}
					if !a.has(need, wv.name) {
						continue
					}
					if a.R(wv.name) < a.R(need) {
						return "the width used (" + wv.name + ") can be smaller than numBytes(" + v.name + ")"
					}
				}
				return ""
			}})
		for _, o := range c.Obs[before:] {
			o.Rule = "E9.I3w"
		}
	}
	c.Floor("E9.I3w", n, 2, "compressed node writers")
}
