package main

import (
	"fmt"
	"go/ast"
	"go/constant"
	"go/token"
	"go/types"
	"math"
	"sort"
	"strings"

	"golang.org/x/tools/go/types/typeutil"
)

// E14 (part 2) — dimensional, axis and range analysis of the spherical code.
//
// An abstract interpretation of Go float code in the product of three
// domains:
//
//   - units: a monomial in {degree, radian, metre} (half-integer exponents).
//     Bare numeric literals are polymorphic in additive contexts; the literals
//     180/360/90/270 may also be degrees in multiplicative contexts, so a value
//     carries a small *set* of possible units and an operation keeps the
//     combinations that type-check.  math.Pi is radians; a constant of the size
//     of the Earth's radius is metres per radian.
//   - axis: latitude, longitude or neither.  Trigonometric functions erase it.
//   - range: a closed interval, with the exact ranges of asin/acos/atan2/mod.
//
// A violation is an operation for which no combination of units type-checks
// (sin of degrees, degrees + radians, metres where an angle is expected), a
// latitude meeting a longitude (added, compared, passed or stored in the
// other's slot), or a result interval outside the range the property states.
// All of it is decided in real arithmetic: rounding is not modelled.

type unit struct{ deg, rad, m int8 } // exponents times two

func (u unit) String() string {
	var parts []string
	f := func(n string, e int8) {
		switch {
		case e == 0:
		case e == 2:
			parts = append(parts, n)
		case e%2 == 0:
			parts = append(parts, fmt.Sprintf("%s^%d", n, e/2))
		default:
			parts = append(parts, fmt.Sprintf("%s^%d/2", n, e))
		}
	}
	f("deg", u.deg)
	f("rad", u.rad)
	f("m", u.m)
	if len(parts) == 0 {
		return "1"
	}
	return strings.Join(parts, "·")
}

var (
	uOne = unit{}
	uDeg = unit{deg: 2}
	uRad = unit{rad: 2}
	uM   = unit{m: 2}
)

const (
	axNone = 0
	axLat  = 1
	axLon  = 2
	axBoth = 3
)

func axisName(a int) string {
	return [...]string{"no axis", "a latitude", "a longitude", "a latitude on one path and a longitude on another"}[a]
}

type uval struct {
	units []unit // nil: unknown
	axis  int
	lo    float64
	hi    float64
	lit   bool // a bare literal / untyped constant: adopts the other operand's unit when added or compared
	tuple []*uval
}

func uTop() *uval { return &uval{lo: math.Inf(-1), hi: math.Inf(1)} }

func uConst(f float64, us ...unit) *uval {
	return &uval{units: us, lo: f, hi: f}
}

func (v *uval) clone() *uval {
	n := *v
	n.units = append([]unit(nil), v.units...)
	return &n
}

func (v *uval) unitString() string {
	if v.units == nil {
		return "unknown"
	}
	if len(v.units) == 0 {
		return "different units on different paths (no consistent reading)"
	}
	var s []string
	for _, u := range v.units {
		s = append(s, u.String())
	}
	return strings.Join(s, " or ")
}

func hasUnit(us []unit, u unit) bool {
	for _, x := range us {
		if x == u {
			return true
		}
	}
	return false
}

func dedupUnits(us []unit) []unit {
	var out []unit
	for _, u := range us {
		if !hasUnit(out, u) {
			out = append(out, u)
		}
	}
	sort.Slice(out, func(i, j int) bool { return out[i].String() < out[j].String() })
	if len(out) > 6 {
		out = out[:6]
	}
	return out
}

type uIssue struct {
	pos  token.Pos
	text string
}

type uInterp struct {
	p      *Program
	issues []uIssue
	depth  int
	// results of the function being analysed at depth 0
}

func (ui *uInterp) report(pos token.Pos, format string, a ...interface{}) {
	if len(ui.issues) < 20 {
		ui.issues = append(ui.issues, uIssue{pos, fmt.Sprintf(format, a...)})
	}
}

type uCond struct {
	expr ast.Expr
	vers map[types.Object]int // versions of the variables the condition mentions, at its definition
}

type uEnv struct {
	info  *types.Info
	vars  map[types.Object]*uval
	ver   map[types.Object]int   // bumped at every assignment
	conds map[types.Object]uCond // boolean variables defined by a comparison
	rets  [][]*uval
	done  bool
}

func (e *uEnv) copyEnv() *uEnv {
	n := &uEnv{info: e.info, vars: map[types.Object]*uval{}, ver: map[types.Object]int{}, conds: map[types.Object]uCond{}, rets: e.rets}
	for k, v := range e.vars {
		n.vars[k] = v
	}
	for k, v := range e.ver {
		n.ver[k] = v
	}
	for k, v := range e.conds {
		n.conds[k] = v
	}
	return n
}

// condOf: the comparison a boolean variable stands for, if the variables it mentions are unchanged since.
func (e *uEnv) condOf(o types.Object) (ast.Expr, bool) {
	d, ok := e.conds[o]
	if !ok {
		return nil, false
	}
	for v, n := range d.vers {
		if e.ver[v] != n {
			return nil, false
		}
	}
	return d.expr, true
}

func joinVal(a, b *uval) *uval {
	if a == nil {
		return b
	}
	if b == nil {
		return a
	}
	out := &uval{lo: math.Min(a.lo, b.lo), hi: math.Max(a.hi, b.hi)}
	switch {
	case a.units == nil || b.units == nil:
		out.units = nil
		if a.lit || b.lit { // a literal on one path adopts the other path's unit
			if a.lit {
				out.units = b.units
			} else {
				out.units = a.units
			}
		}
	case a.lit:
		out.units = b.units
	case b.lit:
		out.units = a.units
	default:
		var inter []unit
		for _, u := range a.units {
			if hasUnit(b.units, u) {
				inter = append(inter, u)
			}
		}
		if len(inter) > 0 {
			out.units = inter
		} else {
			out.units = []unit{} // no consistent unit: every use will be reported
		}
	}
	out.lit = a.lit && b.lit
	switch {
	case a.axis == b.axis:
		out.axis = a.axis
	case a.axis == axNone:
		out.axis = b.axis
	case b.axis == axNone:
		out.axis = a.axis
	default:
		out.axis = axBoth
	}
	if len(a.tuple) == len(b.tuple) && len(a.tuple) > 0 {
		for i := range a.tuple {
			out.tuple = append(out.tuple, joinVal(a.tuple[i], b.tuple[i]))
		}
	}
	return out
}

func joinEnv(a, b *uEnv) *uEnv {
	if a.done {
		return b
	}
	if b.done {
		return a
	}
	out := &uEnv{info: a.info, vars: map[types.Object]*uval{}, ver: map[types.Object]int{}, conds: map[types.Object]uCond{}}
	for k, n := range a.ver {
		out.ver[k] = n
	}
	for k, n := range b.ver {
		if n > out.ver[k] {
			out.ver[k] = n
		}
	}
	// a variable assigned on one side only has a different version there: bump it so that stale conditions are dropped
	for k := range out.ver {
		if a.ver[k] != b.ver[k] {
			out.ver[k]++
		}
	}
	for k, d := range a.conds {
		if d2, ok := b.conds[k]; ok && d2.expr == d.expr {
			out.conds[k] = d
		}
	}
	for k, v := range a.vars {
		if w, ok := b.vars[k]; ok {
			out.vars[k] = joinVal(v, w)
		} else {
			out.vars[k] = v
		}
	}
	for k, w := range b.vars {
		if _, ok := out.vars[k]; !ok {
			out.vars[k] = w
		}
	}
	return out
}

// ---- arithmetic on abstract values ----

func mulUnits(a, b []unit, sign int8) []unit {
	if a == nil || b == nil {
		return nil
	}
	var out []unit
	for _, x := range a {
		for _, y := range b {
			out = append(out, unit{x.deg + sign*y.deg, x.rad + sign*y.rad, x.m + sign*y.m})
		}
	}
	return dedupUnits(out)
}

func mulIv(a, b *uval) (float64, float64) {
	c := []float64{a.lo * b.lo, a.lo * b.hi, a.hi * b.lo, a.hi * b.hi}
	lo, hi := math.Inf(1), math.Inf(-1)
	for _, x := range c {
		if math.IsNaN(x) {
			x = 0 // 0·∞ at an interval end point: the other end points bound the product
		}
		lo, hi = math.Min(lo, x), math.Max(hi, x)
	}
	return lo, hi
}

func divIv(a, b *uval) (float64, float64) {
	var inv *uval
	switch {
	case b.lo == 0 && b.hi > 0: // (0, c]: the quotient keeps the sign of the dividend
		inv = &uval{lo: 1 / b.hi, hi: math.Inf(1)}
	case b.hi == 0 && b.lo < 0:
		inv = &uval{lo: math.Inf(-1), hi: 1 / b.lo}
	case b.lo <= 0 && b.hi >= 0:
		return math.Inf(-1), math.Inf(1)
	default:
		inv = &uval{lo: 1 / b.hi, hi: 1 / b.lo}
	}
	lo, hi := mulIv(a, inv)
	return lo, hi
}

func (ui *uInterp) sameUnit(pos token.Pos, what string, a, b *uval) []unit {
	switch {
	case a.units == nil && b.units == nil:
		return nil
	case a.lit && !b.lit:
		return b.units
	case b.lit && !a.lit:
		return a.units
	case a.units == nil:
		return b.units
	case b.units == nil:
		return a.units
	}
	var inter []unit
	for _, u := range a.units {
		if hasUnit(b.units, u) {
			inter = append(inter, u)
		}
	}
	if len(inter) == 0 {
		ui.report(pos, "%s mixes units: %s with %s", what, a.unitString(), b.unitString())
		return nil
	}
	return inter
}

func (ui *uInterp) joinAxis(pos token.Pos, what string, a, b *uval) int {
	if a.axis == axBoth || b.axis == axBoth {
		ui.report(pos, "%s uses a value that is %s", what, axisName(axBoth))
		return axNone
	}
	if a.axis != axNone && b.axis != axNone && a.axis != b.axis {
		ui.report(pos, "%s combines %s with %s", what, axisName(a.axis), axisName(b.axis))
		return axNone
	}
	if a.axis != axNone {
		return a.axis
	}
	return b.axis
}

func (ui *uInterp) need(pos token.Pos, what string, v *uval, want unit) {
	if v.units == nil || v.lit {
		return
	}
	if !hasUnit(v.units, want) {
		ui.report(pos, "%s must be in %s but is in %s", what, want.String(), v.unitString())
	}
}

func floatOf(v constant.Value) (float64, bool) {
	switch v.Kind() {
	case constant.Int, constant.Float:
		f, _ := constant.Float64Val(v)
		return f, true
	}
	return 0, false
}

func literalUnits(f float64, isNamed bool) ([]unit, bool) {
	a := math.Abs(f)
	switch {
	case a >= 6.3e6 && a <= 6.4e6:
		return []unit{{m: 2, rad: -2}}, false // the Earth's radius: metres per radian of arc
	case a == 180 || a == 360 || a == 90 || a == 270:
		return []unit{uOne, uDeg}, true
	}
	return []unit{uOne}, true
}

func (ui *uInterp) expr(env *uEnv, e ast.Expr) *uval {
	info := env.info
	e = ast.Unparen(e)
	// math.Pi and the package's own constants are read structurally; other constants by value
	switch x := e.(type) {
	case *ast.BasicLit:
		if tv, ok := info.Types[x]; ok && tv.Value != nil {
			if f, ok := floatOf(tv.Value); ok {
				us, lit := literalUnits(f, false)
				return &uval{units: us, lo: f, hi: f, lit: lit}
			}
		}
		return uTop()
	case *ast.Ident:
		o := info.ObjectOf(x)
		if v, ok := env.vars[o]; ok && v != nil {
			return v
		}
		if k, ok := o.(*types.Const); ok {
			return ui.constant(k)
		}
		return uTop()
	case *ast.SelectorExpr:
		if k, ok := info.ObjectOf(x.Sel).(*types.Const); ok {
			return ui.constant(k)
		}
		// coordinates of a geometry.Point: X is a longitude, Y a latitude, both in degrees
		if s, ok := info.Selections[x]; ok && s.Kind() == types.FieldVal {
			if nt, ok := types.Unalias(derefType(s.Recv())).(*types.Named); ok && nt.Obj().Name() == "Point" && nt.Obj().Pkg() != nil && nt.Obj().Pkg() == ui.p.Geom.Types {
				switch x.Sel.Name {
				case "X":
					return &uval{units: []unit{uDeg}, axis: axLon, lo: math.Inf(-1), hi: math.Inf(1)}
				case "Y":
					return &uval{units: []unit{uDeg}, axis: axLat, lo: math.Inf(-1), hi: math.Inf(1)}
				}
			}
		}
		return uTop()
	case *ast.UnaryExpr:
		v := ui.expr(env, x.X)
		if x.Op == token.SUB {
			n := v.clone()
			n.lo, n.hi = -v.hi, -v.lo
			return n
		}
		if x.Op == token.ADD {
			return v
		}
		return uTop()
	case *ast.BinaryExpr:
		a, b := ui.expr(env, x.X), ui.expr(env, x.Y)
		switch x.Op {
		case token.ADD, token.SUB:
			out := &uval{units: ui.sameUnit(x.OpPos, "the "+map[token.Token]string{token.ADD: "sum", token.SUB: "difference"}[x.Op]+" "+ui.p.src(x), a, b)}
			out.axis = ui.joinAxis(x.OpPos, ui.p.src(x), a, b)
			out.lit = a.lit && b.lit
			if x.Op == token.ADD {
				out.lo, out.hi = a.lo+b.lo, a.hi+b.hi
			} else {
				out.lo, out.hi = a.lo-b.hi, a.hi-b.lo
			}
			if math.IsNaN(out.lo) || math.IsNaN(out.hi) {
				out.lo, out.hi = math.Inf(-1), math.Inf(1)
			}
			return out
		case token.MUL, token.QUO:
			sign := int8(1)
			if x.Op == token.QUO {
				sign = -1
			}
			out := &uval{units: mulUnits(a.units, b.units, sign), lit: a.lit && b.lit}
			switch {
			case a.axis != axNone && b.axis == axNone:
				out.axis = a.axis
			case b.axis != axNone && a.axis == axNone && x.Op == token.MUL:
				out.axis = b.axis
			}
			if x.Op == token.MUL {
				out.lo, out.hi = mulIv(a, b)
				if ui.p.src(x.X) == ui.p.src(x.Y) && !mentions(x.X, func(n ast.Node) bool { _, isCall := n.(*ast.CallExpr); return isCall }) {
					// a square
					m := math.Max(math.Abs(a.lo), math.Abs(a.hi))
					out.lo, out.hi = 0, m*m
					if a.lo > 0 {
						out.lo = a.lo * a.lo
					}
					if a.hi < 0 {
						out.lo = a.hi * a.hi
					}
				}
			} else {
				out.lo, out.hi = divIv(a, b)
			}
			return out
		case token.LSS, token.GTR, token.LEQ, token.GEQ, token.EQL, token.NEQ:
			ui.sameUnit(x.OpPos, "the comparison "+ui.p.src(x), a, b)
			ui.joinAxis(x.OpPos, "the comparison "+ui.p.src(x), a, b)
			return uTop()
		case token.LAND, token.LOR:
			return uTop()
		}
		return uTop()
	case *ast.CompositeLit:
		ui.composite(env, x)
		return uTop()
	case *ast.CallExpr:
		return ui.call(env, x)
	}
	return uTop()
}

func derefType(t types.Type) types.Type {
	if p, ok := t.Underlying().(*types.Pointer); ok {
		return p.Elem()
	}
	return t
}

// composite: geometry.Point{X: lon, Y: lat} (keyed or positional), recursively.
func (ui *uInterp) composite(env *uEnv, x *ast.CompositeLit) {
	t := env.info.TypeOf(x)
	isPoint := false
	if t != nil {
		if nt, ok := types.Unalias(derefType(t)).(*types.Named); ok && nt.Obj().Name() == "Point" && nt.Obj().Pkg() == ui.p.Geom.Types {
			isPoint = true
		}
	}
	for i, el := range x.Elts {
		key := ""
		val := el
		if kv, ok := el.(*ast.KeyValueExpr); ok {
			if id, ok := kv.Key.(*ast.Ident); ok {
				key = id.Name
			}
			val = kv.Value
		} else if isPoint {
			key = []string{"X", "Y"}[i%2]
		}
		if cl, ok := ast.Unparen(val).(*ast.CompositeLit); ok {
			ui.composite(env, cl)
			continue
		}
		v := ui.expr(env, val)
		if !isPoint {
			continue
		}
		if key == "X" && (v.axis == axLat || v.axis == axBoth) {
			ui.report(val.Pos(), "%s is stored as the X (longitude) of a point but is %s", ui.p.src(val), axisName(v.axis))
		}
		if key == "Y" && (v.axis == axLon || v.axis == axBoth) {
			ui.report(val.Pos(), "%s is stored as the Y (latitude) of a point but is %s", ui.p.src(val), axisName(v.axis))
		}
		if key == "X" || key == "Y" {
			ui.need(val.Pos(), "the coordinate "+ui.p.src(val), v, uDeg)
		}
	}
}

func (ui *uInterp) constant(k *types.Const) *uval {
	if k.Pkg() != nil && k.Pkg().Path() == "math" && k.Name() == "Pi" {
		return &uval{units: []unit{uRad}, lo: math.Pi, hi: math.Pi}
	}
	// a constant of the repository: read its defining expression
	if k.Pkg() != nil && ui.p.IsRepoPkg(k.Pkg()) && ui.depth < 8 {
		if pp := ui.p.ByPath[k.Pkg().Path()]; pp != nil {
			for _, f := range pp.Syntax {
				for _, d := range f.Decls {
					gd, ok := d.(*ast.GenDecl)
					if !ok || gd.Tok != token.CONST {
						continue
					}
					for _, sp := range gd.Specs {
						vs := sp.(*ast.ValueSpec)
						for i, nm := range vs.Names {
							if pp.TypesInfo.Defs[nm] == k && i < len(vs.Values) {
								ui.depth++
								v := ui.expr(&uEnv{info: pp.TypesInfo, vars: map[types.Object]*uval{}}, vs.Values[i])
								ui.depth--
								if f, ok := floatOf(k.Val()); ok {
									v = v.clone()
									v.lo, v.hi = f, f
								}
								return v
							}
						}
					}
				}
			}
		}
	}
	if f, ok := floatOf(k.Val()); ok {
		us, lit := literalUnits(f, true)
		return &uval{units: us, lo: f, hi: f, lit: lit}
	}
	if k.Val().Kind() == constant.Bool {
		f := 0.0
		if constant.BoolVal(k.Val()) {
			f = 1
		}
		return &uval{units: []unit{uOne}, lo: f, hi: f, lit: true}
	}
	return uTop()
}

func halfUnits(us []unit) []unit {
	if us == nil {
		return nil
	}
	var out []unit
	for _, u := range us {
		if u.deg%2 == 0 && u.rad%2 == 0 && u.m%2 == 0 || true {
			out = append(out, unit{u.deg / 2, u.rad / 2, u.m / 2})
		}
	}
	return dedupUnits(out)
}

func (ui *uInterp) call(env *uEnv, x *ast.CallExpr) *uval {
	info := env.info
	if tv, ok := info.Types[x.Fun]; ok && tv.IsType() && len(x.Args) == 1 {
		return ui.expr(env, x.Args[0])
	}
	callee, _ := typeutil.Callee(info, x).(*types.Func)
	var args []*uval
	for _, a := range x.Args {
		args = append(args, ui.expr(env, a))
	}
	if callee == nil || callee.Pkg() == nil {
		return uTop()
	}
	pos := x.Lparen
	name := callee.Name()
	if callee.Pkg().Path() == "math" {
		trigArg := func(v *uval) {
			if v.units != nil && !v.lit && !hasUnit(v.units, uRad) {
				ui.report(pos, "math.%s is applied to %s, which is in %s (not radians)", name, ui.p.src(x.Args[0]), v.unitString())
			}
		}
		pure := func(v *uval) {
			if v.units != nil && !v.lit && !hasUnit(v.units, uOne) {
				ui.report(pos, "math.%s is applied to %s, which is in %s (not a pure number)", name, ui.p.src(x.Args[0]), v.unitString())
			}
		}
		switch name {
		case "Sin", "Cos", "Tan":
			trigArg(args[0])
			out := &uval{units: []unit{uOne}, lo: -1, hi: 1}
			switch name {
			case "Tan":
				out.lo, out.hi = math.Inf(-1), math.Inf(1)
			case "Cos":
				out.lo, out.hi = trigRange(args[0].lo, args[0].hi, 0)
			case "Sin":
				out.lo, out.hi = trigRange(args[0].lo, args[0].hi, math.Pi/2)
			}
			return out
		case "Sincos":
			trigArg(args[0])
			s := &uval{units: []unit{uOne}}
			c := &uval{units: []unit{uOne}}
			s.lo, s.hi = trigRange(args[0].lo, args[0].hi, math.Pi/2)
			c.lo, c.hi = trigRange(args[0].lo, args[0].hi, 0)
			return &uval{tuple: []*uval{s, c}, lo: math.Inf(-1), hi: math.Inf(1)}
		case "Asin", "Acos", "Atan":
			pure(args[0])
			out := &uval{units: []unit{uRad}}
			switch name {
			case "Asin":
				out.lo, out.hi = -math.Pi/2, math.Pi/2
				if args[0].lo >= 0 {
					out.lo = 0
				}
				if args[0].hi <= 0 {
					out.hi = 0
				}
			case "Acos":
				out.lo, out.hi = 0, math.Pi
			case "Atan":
				out.lo, out.hi = -math.Pi/2, math.Pi/2
			}
			return out
		case "Atan2":
			ui.sameUnit(pos, "math.Atan2", args[0], args[1])
			return &uval{units: []unit{uRad}, lo: -math.Pi, hi: math.Pi}
		case "Sqrt":
			out := &uval{units: halfUnits(args[0].units), lo: 0, hi: math.Inf(1)}
			if args[0].hi >= 0 && !math.IsInf(args[0].hi, 1) {
				out.hi = math.Sqrt(args[0].hi)
			}
			if args[0].lo > 0 {
				out.lo = math.Sqrt(args[0].lo)
			}
			return out
		case "Mod":
			us := ui.sameUnit(pos, "math.Mod("+ui.p.src(x.Args[0])+", "+ui.p.src(x.Args[1])+")", args[0], args[1])
			out := &uval{units: us, axis: args[0].axis, lo: math.Inf(-1), hi: math.Inf(1)}
			if args[1].lo == args[1].hi && args[1].lo > 0 {
				c := args[1].lo
				// Go's Mod keeps the sign of the dividend
				out.lo, out.hi = -c, c
				if args[0].lo >= 0 {
					out.lo = 0
				}
				if args[0].hi <= 0 {
					out.hi = 0
				}
			}
			return out
		case "Abs":
			out := args[0].clone()
			out.lo, out.hi = 0, math.Max(math.Abs(args[0].lo), math.Abs(args[0].hi))
			if args[0].lo > 0 {
				out.lo = args[0].lo
			}
			if args[0].hi < 0 {
				out.lo = -args[0].hi
			}
			return out
		case "Max", "Min":
			us := ui.sameUnit(pos, "math."+name, args[0], args[1])
			out := &uval{units: us, axis: ui.joinAxis(pos, "math."+name, args[0], args[1])}
			if name == "Max" {
				out.lo, out.hi = math.Max(args[0].lo, args[1].lo), math.Max(args[0].hi, args[1].hi)
			} else {
				out.lo, out.hi = math.Min(args[0].lo, args[1].lo), math.Min(args[0].hi, args[1].hi)
			}
			return out
		case "Pow":
			if args[0].lo == args[0].hi && args[1].lo == args[1].hi {
				f := math.Pow(args[0].lo, args[1].lo)
				return &uval{units: []unit{uOne}, lo: f, hi: f, lit: true}
			}
			return uTop()
		case "Inf", "NaN":
			return uTop()
		case "Nextafter", "Floor", "Ceil", "Round", "Trunc":
			return args[0]
		}
		return uTop()
	}
	if ui.p.IsRepoPkg(callee.Pkg()) && ui.p.Decl(callee) != nil && ui.p.Decl(callee).Body != nil && ui.depth < 5 {
		// the public spherical API states its own units: arguments are checked against them
		if spec, ok := geoSpecs[callee.Name()]; ok && callee.Pkg() == ui.p.Geo.Types && callee.Type().(*types.Signature).Recv() == nil {
			for i, a := range args {
				if i >= len(spec.params) {
					break
				}
				ps := spec.params[i]
				ui.need(x.Args[i].Pos(), fmt.Sprintf("argument %d of geo.%s (%s)", i+1, name, ui.p.src(x.Args[i])), a, ps.unit)
				if ps.axis != axNone && a.axis != axNone && a.axis != ps.axis {
					ui.report(x.Args[i].Pos(), "argument %d of geo.%s expects %s but %s is %s", i+1, name, axisName(ps.axis), ui.p.src(x.Args[i]), axisName(a.axis))
				}
			}
			// the callee is analysed in its own right; its result carries the stated unit, axis and range
			var res []*uval
			for _, r := range spec.results {
				res = append(res, &uval{units: []unit{r.unit}, axis: r.axis, lo: r.lo, hi: r.hi})
			}
			if len(res) == 1 {
				return res[0]
			}
			return &uval{tuple: res, lo: math.Inf(-1), hi: math.Inf(1)}
		}
		res := ui.fn(callee, args)
		if len(res) == 1 {
			return res[0]
		}
		if len(res) > 1 {
			return &uval{tuple: res, lo: math.Inf(-1), hi: math.Inf(1)}
		}
	}
	return uTop()
}

// fn: abstract results of a repository function for the given arguments.
func (ui *uInterp) fn(f *types.Func, args []*uval) []*uval {
	fd, pkg := ui.p.Decl(f), ui.p.DeclPkg(f)
	env := &uEnv{info: pkg.TypesInfo, vars: map[types.Object]*uval{}, ver: map[types.Object]int{}, conds: map[types.Object]uCond{}}
	i := 0
	if fd.Recv != nil {
		// receivers are not tracked
	}
	for _, fl := range fd.Type.Params.List {
		for _, nm := range fl.Names {
			if i < len(args) && args[i] != nil {
				env.vars[pkg.TypesInfo.Defs[nm]] = args[i]
			}
			i++
		}
	}
	var results []types.Object
	if fd.Type.Results != nil {
		for _, fl := range fd.Type.Results.List {
			for _, nm := range fl.Names {
				o := pkg.TypesInfo.Defs[nm]
				results = append(results, o)
				env.vars[o] = &uval{units: []unit{uOne}, lit: true}
			}
		}
	}
	ui.depth++
	holder := &uEnv{}
	out := ui.block(env, fd.Body.List, results, holder)
	ui.depth--
	if !out.done && len(results) > 0 {
		var r []*uval
		for _, o := range results {
			r = append(r, out.vars[o])
		}
		holder.rets = append(holder.rets, r)
	}
	var joined []*uval
	for _, r := range holder.rets {
		if joined == nil {
			joined = append([]*uval(nil), r...)
			continue
		}
		for k := range joined {
			if k < len(r) {
				joined[k] = joinVal(joined[k], r[k])
			}
		}
	}
	return joined
}

func (ui *uInterp) assign(env *uEnv, lhs ast.Expr, v *uval, pos token.Pos) {
	switch l := ast.Unparen(lhs).(type) {
	case *ast.Ident:
		if l.Name == "_" {
			return
		}
		o := env.info.ObjectOf(l)
		env.vars[o] = v
		if env.ver != nil {
			env.ver[o]++
			delete(env.conds, o)
		}
	case *ast.SelectorExpr:
		// a store to X / Y of a point
		cur := ui.expr(env, l)
		if cur.axis != axNone && v.axis != axNone && v.axis != cur.axis {
			ui.report(pos, "%s is assigned %s", ui.p.src(l), axisName(v.axis))
		}
	}
}

// refine: narrow the interval of `id` by a comparison with a constant.
func (ui *uInterp) refine(env *uEnv, cond ast.Expr, truth bool) {
	switch c := ast.Unparen(cond).(type) {
	case *ast.Ident:
		if e, ok := env.condOf(env.info.ObjectOf(c)); ok {
			ui.refine(env, e, truth)
		}
	case *ast.UnaryExpr:
		if c.Op == token.NOT {
			ui.refine(env, c.X, !truth)
		}
	case *ast.BinaryExpr:
		if c.Op == token.LOR && !truth {
			ui.refine(env, c.X, false)
			ui.refine(env, c.Y, false)
			return
		}
		if c.Op == token.LAND && truth {
			ui.refine(env, c.X, true)
			ui.refine(env, c.Y, true)
			return
		}
		id, ok := ast.Unparen(c.X).(*ast.Ident)
		op := c.Op
		other := c.Y
		if !ok {
			id, ok = ast.Unparen(c.Y).(*ast.Ident)
			other = c.X
			switch op {
			case token.LSS:
				op = token.GTR
			case token.GTR:
				op = token.LSS
			case token.LEQ:
				op = token.GEQ
			case token.GEQ:
				op = token.LEQ
			}
		}
		if !ok {
			return
		}
		o := env.info.ObjectOf(id)
		cur, has := env.vars[o]
		if !has || cur == nil {
			return
		}
		save := len(ui.issues)
		k := ui.expr(env, other)
		ui.issues = ui.issues[:save]
		if k.lo != k.hi {
			return
		}
		if !truth {
			switch op {
			case token.LSS:
				op = token.GEQ
			case token.GTR:
				op = token.LEQ
			case token.LEQ:
				op = token.GTR
			case token.GEQ:
				op = token.LSS
			default:
				return
			}
		}
		n := cur.clone()
		switch op {
		case token.LSS, token.LEQ:
			n.hi = math.Min(n.hi, k.lo)
		case token.GTR, token.GEQ:
			n.lo = math.Max(n.lo, k.lo)
		default:
			return
		}
		env.vars[o] = n
	}
}

func (ui *uInterp) block(env *uEnv, list []ast.Stmt, results []types.Object, holder *uEnv) *uEnv {
	for _, st := range list {
		if env.done {
			return env
		}
		env = ui.stmt(env, st, results, holder)
	}
	return env
}

func (ui *uInterp) stmt(env *uEnv, st ast.Stmt, results []types.Object, holder *uEnv) *uEnv {
	switch s := st.(type) {
	case *ast.AssignStmt:
		if len(s.Lhs) == len(s.Rhs) {
			vals := make([]*uval, len(s.Rhs))
			for i, r := range s.Rhs {
				v := ui.expr(env, r)
				if s.Tok != token.ASSIGN && s.Tok != token.DEFINE {
					var op token.Token
					switch s.Tok {
					case token.ADD_ASSIGN:
						op = token.ADD
					case token.SUB_ASSIGN:
						op = token.SUB
					case token.MUL_ASSIGN:
						op = token.MUL
					case token.QUO_ASSIGN:
						op = token.QUO
					}
					if op != token.ILLEGAL {
						v = ui.expr(env, &ast.BinaryExpr{X: s.Lhs[i], Op: op, OpPos: s.TokPos, Y: r})
					}
				}
				vals[i] = v
			}
			for i, l := range s.Lhs {
				ui.assign(env, l, vals[i], s.TokPos)
				if id, ok := l.(*ast.Ident); ok && (s.Tok == token.DEFINE || s.Tok == token.ASSIGN) && env.conds != nil {
					if bt, ok := env.info.TypeOf(s.Rhs[i]).Underlying().(*types.Basic); ok && bt.Info()&types.IsBoolean != 0 {
						vers := map[types.Object]int{}
						ast.Inspect(s.Rhs[i], func(n ast.Node) bool {
							if x, ok := n.(*ast.Ident); ok {
								if o := env.info.ObjectOf(x); o != nil {
									vers[o] = env.ver[o]
								}
							}
							return true
						})
						env.conds[env.info.ObjectOf(id)] = uCond{expr: s.Rhs[i], vers: vers}
						switch ui.decide(env, s.Rhs[i]) {
						case 1:
							env.vars[env.info.ObjectOf(id)] = &uval{units: []unit{uOne}, lo: 1, hi: 1, lit: true}
						case -1:
							env.vars[env.info.ObjectOf(id)] = &uval{units: []unit{uOne}, lo: 0, hi: 0, lit: true}
						}
					}
				}
			}
		} else if len(s.Rhs) == 1 {
			v := ui.expr(env, s.Rhs[0])
			for i, l := range s.Lhs {
				if i < len(v.tuple) {
					ui.assign(env, l, v.tuple[i], s.TokPos)
				} else {
					ui.assign(env, l, uTop(), s.TokPos)
				}
			}
		}
	case *ast.IncDecStmt:
	case *ast.DeclStmt:
		if gd, ok := s.Decl.(*ast.GenDecl); ok {
			for _, sp := range gd.Specs {
				if vs, ok := sp.(*ast.ValueSpec); ok {
					for i, nm := range vs.Names {
						if i < len(vs.Values) {
							env.vars[env.info.Defs[nm]] = ui.expr(env, vs.Values[i])
						} else {
							env.vars[env.info.Defs[nm]] = &uval{units: []unit{uOne}, lit: true}
						}
					}
				}
			}
		}
	case *ast.ExprStmt:
		ui.expr(env, s.X)
	case *ast.ReturnStmt:
		var r []*uval
		if len(s.Results) == 0 {
			for _, o := range results {
				r = append(r, env.vars[o])
			}
		} else if len(s.Results) == 1 {
			v := ui.expr(env, s.Results[0])
			if len(v.tuple) > 0 {
				r = v.tuple
			} else {
				r = []*uval{v}
			}
		} else {
			for _, e := range s.Results {
				r = append(r, ui.expr(env, e))
			}
		}
		holder.rets = append(holder.rets, r)
		env.done = true
	case *ast.BlockStmt:
		return ui.block(env, s.List, results, holder)
	case *ast.IfStmt:
		if s.Init != nil {
			env = ui.stmt(env, s.Init, results, holder)
		}
		ui.expr(env, s.Cond)
		switch ui.decide(env, s.Cond) {
		case 1:
			return ui.block(env, s.Body.List, results, holder)
		case -1:
			if s.Else != nil {
				return ui.stmt(env, s.Else, results, holder)
			}
			return env
		}
		t := env.copyEnv()
		ui.refine(t, s.Cond, true)
		t = ui.block(t, s.Body.List, results, holder)
		f := env.copyEnv()
		ui.refine(f, s.Cond, false)
		if s.Else != nil {
			f = ui.stmt(f, s.Else, results, holder)
		}
		switch {
		case t.done && f.done:
			t.done = true
			return t
		case t.done:
			return f
		case f.done:
			return t
		}
		return joinEnv(t, f)
	case *ast.ForStmt:
		if s.Init != nil {
			env = ui.stmt(env, s.Init, results, holder)
		}
		for iter := 0; iter < 3; iter++ {
			if s.Cond != nil {
				ui.expr(env, s.Cond)
			}
			b := ui.block(env.copyEnv(), s.Body.List, results, holder)
			if s.Post != nil && !b.done {
				b = ui.stmt(b, s.Post, results, holder)
			}
			b.done = false
			nxt := joinEnv(env, b)
			// widen intervals that moved
			for k, v := range nxt.vars {
				if old, ok := env.vars[k]; ok && old != nil && v != nil && (v.lo < old.lo || v.hi > old.hi) {
					w := v.clone()
					if v.lo < old.lo {
						w.lo = math.Inf(-1)
					}
					if v.hi > old.hi {
						w.hi = math.Inf(1)
					}
					nxt.vars[k] = w
				}
			}
			env = nxt
		}
	case *ast.RangeStmt:
		b := ui.block(env.copyEnv(), s.Body.List, results, holder)
		b.done = false
		env = joinEnv(env, b)
	case *ast.SwitchStmt:
		if s.Init != nil {
			env = ui.stmt(env, s.Init, results, holder)
		}
		if s.Tag == nil {
			// a tagless switch is an if / else-if chain
			var chain ast.Stmt
			var def *ast.CaseClause
			var clauses []*ast.CaseClause
			for _, cl := range s.Body.List {
				cc := cl.(*ast.CaseClause)
				if cc.List == nil {
					def = cc
				} else {
					clauses = append(clauses, cc)
				}
			}
			if def != nil {
				chain = &ast.BlockStmt{List: def.Body}
			}
			for i := len(clauses) - 1; i >= 0; i-- {
				cc := clauses[i]
				cond := cc.List[0]
				for _, e := range cc.List[1:] {
					cond = &ast.BinaryExpr{X: cond, Op: token.LOR, Y: e}
				}
				chain = &ast.IfStmt{Cond: cond, Body: &ast.BlockStmt{List: cc.Body}, Else: chain}
			}
			if chain != nil {
				return ui.stmt(env, chain, results, holder)
			}
			return env
		}
		var acc *uEnv
		for _, cl := range s.Body.List {
			cc := cl.(*ast.CaseClause)
			b := ui.block(env.copyEnv(), cc.Body, results, holder)
			if b.done {
				continue
			}
			if acc == nil {
				acc = b
			} else {
				acc = joinEnv(acc, b)
			}
		}
		if acc != nil {
			env = joinEnv(env, acc)
		}
	}
	return env
}

// ---- the stated units of the public spherical API ----

type slotSpec struct {
	unit   unit
	axis   int
	lo, hi float64
}

type geoSpec struct {
	params  []slotSpec
	results []slotSpec
}

var inf = math.Inf(1)

// halfCirc bounds the half circumference of any Earth-sized sphere the code may assume.
const halfCircLo, halfCircHi = math.Pi * 6.3e6, math.Pi * 6.4e6

var (
	sLat    = slotSpec{uDeg, axLat, -90, 90}
	sLon    = slotSpec{uDeg, axLon, -180, 180}
	sMeters = slotSpec{uM, axNone, 0, inf}
	sDist   = slotSpec{uM, axNone, 0, halfCircLo} // "a distance below half the circumference"
	sPure01 = slotSpec{uOne, axNone, 0, 1}
	sBear   = slotSpec{uDeg, axNone, -inf, inf}
)

var geoSpecs = map[string]geoSpec{
	"Haversine":             {[]slotSpec{sLat, sLon, sLat, sLon}, []slotSpec{{uOne, axNone, -inf, inf}}},
	"NormalizeDistance":     {[]slotSpec{{uM, axNone, -inf, inf}}, []slotSpec{{uM, axNone, -inf, inf}}},
	"DistanceToHaversine":   {[]slotSpec{sMeters}, []slotSpec{{uOne, axNone, 0, 1}}},
	"DistanceFromHaversine": {[]slotSpec{sPure01}, []slotSpec{{uM, axNone, 0, halfCircHi}}},
	"DistanceTo":            {[]slotSpec{sLat, sLon, sLat, sLon}, []slotSpec{{uM, axNone, 0, halfCircHi}}},
	"DestinationPoint":      {[]slotSpec{sLat, sLon, sDist, sBear}, []slotSpec{sLat, sLon}},
	"BearingTo":             {[]slotSpec{sLat, sLon, sLat, sLon}, []slotSpec{{uDeg, axNone, 0, 360}}},
	"RectFromCenter":        {[]slotSpec{sLat, sLon, sMeters}, []slotSpec{sLat, sLon, sLat, sLon}},
}

// decide: +1 when the intervals make the condition certainly true, -1 certainly false, 0 otherwise.
func (ui *uInterp) decide(env *uEnv, cond ast.Expr) int {
	switch c := ast.Unparen(cond).(type) {
	case *ast.Ident:
		if bt, ok := env.info.TypeOf(c).Underlying().(*types.Basic); ok && bt.Info()&types.IsBoolean != 0 {
			if v, ok := env.vars[env.info.ObjectOf(c)]; ok && v != nil && v.lo == v.hi {
				if v.lo == 1 {
					return 1
				}
				if v.lo == 0 {
					return -1
				}
			}
		}
		if e, ok := env.condOf(env.info.ObjectOf(c)); ok {
			return ui.decide(env, e)
		}
	case *ast.UnaryExpr:
		if c.Op == token.NOT {
			return -ui.decide(env, c.X)
		}
	case *ast.BinaryExpr:
		switch c.Op {
		case token.LOR:
			a, b := ui.decide(env, c.X), ui.decide(env, c.Y)
			if a == 1 || b == 1 {
				return 1
			}
			if a == -1 && b == -1 {
				return -1
			}
			return 0
		case token.LAND:
			a, b := ui.decide(env, c.X), ui.decide(env, c.Y)
			if a == -1 || b == -1 {
				return -1
			}
			if a == 1 && b == 1 {
				return 1
			}
			return 0
		case token.LSS, token.GTR, token.LEQ, token.GEQ:
			save := len(ui.issues)
			a, b := ui.expr(env, c.X), ui.expr(env, c.Y)
			ui.issues = ui.issues[:save]
			if math.IsNaN(a.lo) || math.IsNaN(b.lo) {
				return 0
			}
			lt := func(x, y *uval, strict bool) int { // x < y (strict) or x <= y
				if strict {
					if x.hi < y.lo {
						return 1
					}
					if x.lo >= y.hi {
						return -1
					}
				} else {
					if x.hi <= y.lo {
						return 1
					}
					if x.lo > y.hi {
						return -1
					}
				}
				return 0
			}
			switch c.Op {
			case token.LSS:
				return lt(a, b, true)
			case token.LEQ:
				return lt(a, b, false)
			case token.GTR:
				return lt(b, a, true)
			case token.GEQ:
				return lt(b, a, false)
			}
		}
	}
	return 0
}

// trigRange: the range of cos(x - shift) for x in [lo, hi] (shift 0: cos, π/2: sin), widened by one ulp-scale epsilon.
func trigRange(lo, hi, shift float64) (float64, float64) {
	if math.IsInf(lo, 0) || math.IsInf(hi, 0) || math.IsNaN(lo) || math.IsNaN(hi) || hi-lo >= 2*math.Pi {
		return -1, 1
	}
	lo, hi = lo-shift, hi-shift
	a, b := math.Cos(lo), math.Cos(hi)
	mn, mx := math.Min(a, b), math.Max(a, b)
	// critical points kπ inside [lo, hi]
	for k := math.Ceil(lo/math.Pi - 1e-12); k*math.Pi <= hi+1e-12; k++ {
		if math.Mod(math.Abs(k), 2) == 0 {
			mx = 1
		} else {
			mn = -1
		}
	}
	const eps = 1e-12
	lo2, hi2 := math.Max(-1, mn-eps), math.Min(1, mx+eps)
	// the sign at a zero crossing end point is exact in real arithmetic (cos(±π/2) = 0)
	if mn > -1e-15 && lo2 < 0 {
		lo2 = 0
	}
	if mx < 1e-15 && hi2 > 0 {
		hi2 = 0
	}
	return lo2, hi2
}
